"""C13 - undefined or incomplete specifications never produce a verdict.

  C13.R1  validation before rewrite: no guard of a validator is made unsatisfiable by a rewrite that runs before it
  C13.R2  must-pass-through: validators / None-guards / option guards dominate evaluation, dereferences and state writes
  C13.R3  who may raise AssertionError: exactly the two verdict sites; no `assert` statement in src/
  C13.R4  handler inventory: no broad handler, no lookup-error handler around graph accesses or validators
  C13.R5  contradictory verbs: BehaviorRequirement._validate raises iff should_not and (should or should_only)
  C13.R6  unknown names reach a raising lookup on every path (searches, graph accessors, layer names)
  C13.R7  the required-configuration check covers subject, verb, import type and object
"""

from __future__ import annotations

import ast

from core.cfg import EXIT
from core.guards import FALSE, TRUE, atom, atoms_of, conds_formula, equivalent, evaluate, f_and, f_not, f_or, implies, satisfiable, show, to_formula
from core.loader import AnalysisError, FuncInfo, Repo, ancestors, calls_in, header, norm, own_nodes, parent
from core.report import Result

from . import search as S
from .common import cfg_of, conds, copy_prop, dotted, guard_formula, is_attr_call, loops_around, reachable_funcs, stmt_of, types_of, where
from .tables import ATOMS, BEHAVIOR, Inliner, MATCHER, RULE, SEARCHES, point_env

LAYER_RULE = "pytestarch.query_language.layered_architecture_rule"
DIAGRAM_RULE = "pytestarch.diagram_extension.diagram_rule"
DIAGRAM_PARSER = "pytestarch.diagram_extension.diagram_parser"
MULTI = "pytestarch.query_language.multiple_rule_applier"
ENTRY = "pytestarch.pytestarch"
NXGRAPH = "pytestarch.eval_structure.networkxgraph"


def exception_class_name(repo: Repo, fi: FuncInfo, exc: ast.expr | None) -> str:
    if exc is None:
        return "<re-raise>"
    e = exc.func if isinstance(exc, ast.Call) else exc
    fq = repo.resolve_name(fi.module, e) if isinstance(e, (ast.Name, ast.Attribute)) else None
    return fq or dotted(e) or norm(e)


def is_assertion_error(repo: Repo, name: str) -> bool:
    if name.split(".")[-1] == "AssertionError":
        return True
    ci = repo.classes.get(name)
    if ci is not None:
        return any(b.split(".")[-1] == "AssertionError" for c in repo.mro(ci) for b in c.bases)
    return False


# --------------------------------------------------------------------------- R1


def constant_fields_after(repo: Repo, fn: FuncInfo) -> dict[str, object]:
    """Fields of the returned configuration that have the same constant value on every return path of a rewrite function."""
    cfgp = fn.param_names[1] if fn.cls is not None else fn.param_names[0]
    rets = [s for s in own_nodes(fn.node) if isinstance(s, ast.Return) and s.value is not None]
    per_path: list[dict[str, object]] = []
    for r in rets:
        consts: dict[str, object] = {}
        if isinstance(r.value, ast.Call) and dotted(r.value.func) == "replace":
            for k in r.value.keywords:
                if isinstance(k.value, ast.Constant):
                    consts[k.arg] = k.value.value
        elif dotted(r.value) == cfgp:
            # unchanged configuration: constants implied by the path condition
            for e, pol in conds(fn, r):
                f = e.operand if isinstance(e, ast.UnaryOp) and isinstance(e.op, ast.Not) else e
                neg = isinstance(e, ast.UnaryOp) and isinstance(e.op, ast.Not)
                if isinstance(f, ast.Attribute) and dotted(f.value) == cfgp:
                    consts[f.attr] = bool(pol) != neg
        else:
            return {}
        per_path.append(consts)
    if not per_path:
        return {}
    out = {}
    for k, v in per_path[0].items():
        if all(k in p and bool(p[k]) == bool(v) for p in per_path):
            out[k] = bool(v)
    return out


def run_r1(repo: Repo, res: Result) -> None:
    rule = repo.cls(RULE, "Rule")
    aa = rule.methods.get("assert_applies")
    if aa is None:
        raise AnalysisError("Rule.assert_applies not found")
    cfg = cfg_of(aa)
    # rewrites: statements `self._configuration = self.<fn>(self._configuration)`
    rewrites = []
    for s in aa.body:
        if isinstance(s, ast.Assign) and dotted(s.targets[0]) == "self._configuration" and isinstance(s.value, ast.Call) and isinstance(s.value.func, ast.Attribute):
            fn = repo.lookup_method(rule, s.value.func.attr)
            if fn is not None:
                rewrites.append((s, fn, constant_fields_after(repo, fn)))
    # validators: self-calls whose callee (transitively, within Rule) raises
    T = types_of(repo)
    validator_calls = []
    for s in aa.body:
        for c in ast.walk(s):
            if isinstance(c, ast.Call) and isinstance(c.func, ast.Attribute) and dotted(c.func.value) == "self":
                fn = repo.lookup_method(rule, c.func.attr)
                if fn is None:
                    continue
                reach = [f for f in reachable_funcs(repo, [fn], byname=False) if f.cls is rule]
                raises = [(f, r) for f in reach for r in own_nodes(f.node) if isinstance(r, ast.Raise)]
                if raises and not isinstance(s, ast.Assign):
                    validator_calls.append((s, fn, raises))
    n = 0
    all_sites: dict[tuple[str, int], list] = {}
    for s, fn, raises in validator_calls:
        for f, r in raises:
            all_sites.setdefault((f.fq, id(r)), [f, r, []])[2].append(s)
    for f, r, call_stmts in all_sites.values():
        g = guard_formula(f, r)
        fields = {a for a in atoms_of(g)}
        for rs, rfn, consts in rewrites:
            for fld, val in consts.items():
                names = [a for a in fields if a in (f"bool(self._configuration.{fld})", f"self._configuration.{fld} is None")]
                if not names:
                    continue
                # is the guard satisfiable with the field fixed to the rewrite's constant?
                env_fix = f_and([atom(a) if val else f_not(atom(a)) for a in names if a.startswith("bool(")])
                dead_after = not satisfiable(g, env_fix)
                if not dead_after:
                    continue
                n += 1
                # some invocation of this guard must run before the rewrite
                before = [cs for cs in call_stmts if cfg.dominates(cs, rs) and cs is not rs]
                ok = bool(before)
                res.add(
                    "C13.R1",
                    repo.key(f, _if_of(r)) + f" [vs rewrite {rfn.name}]",
                    ok,
                    f"the guard reading `{fld}` is evaluated before `{header(rs)}` fixes it to {val}" if ok else f"`{header(rs)}` sets `{fld}` to {val} on every path before the only check of `{show(g)}` runs: the guard can never fire and the invalid specification is evaluated instead of rejected",
                    where(f, r),
                    kind="dominance",
                )
    res.floor("C13.R1", 1, n)


def _if_of(stmt: ast.AST) -> ast.AST:
    p = parent(stmt)
    return p if isinstance(p, ast.If) else stmt


# --------------------------------------------------------------------------- R2


def run_r2(repo: Repo, res: Result) -> None:
    rule = repo.cls(RULE, "Rule")
    aa = rule.methods["assert_applies"]
    cfg = cfg_of(aa)
    val = [c for c in calls_in(aa.node) if is_attr_call(c, "_assert_required_configuration_present")]
    uses = [c for c in calls_in(aa.node) if isinstance(c.func, ast.Attribute) and c.func.attr in ("_prepare_rule_matcher", "match")]
    ok = len(val) >= 1 and len(uses) >= 2 and all(cfg.dominates(stmt_of(val[0]), stmt_of(u)) for u in uses) and not conds(aa, val[0])
    res.add("C13.R2", f"{aa.relpath}::{aa.qualname}::validation dominates evaluation", ok, "the required-configuration check runs unconditionally before the matcher is built and applied" if ok else "the matcher can be built / applied without the required-configuration check having run", where(aa, aa.node), kind="dominance")
    # LayerRule: every dereference of self._rule / self._architecture is guarded by `is None -> raise`
    lr = repo.cls(LAYER_RULE, "LayerRule")
    n = 0
    for m in lr.methods.values():
        if m.name == "__init__":
            continue
        for node in own_nodes(m.node):
            if isinstance(node, ast.Attribute) and isinstance(node.value, ast.Attribute) and dotted(node.value) in ("self._rule", "self._architecture") and isinstance(node.ctx, ast.Load):
                tgt = dotted(node.value)
            elif isinstance(node, ast.Subscript) and dotted(node.value) in ("self._rule", "self._architecture"):
                tgt = dotted(node.value)
            else:
                continue
            n += 1
            g = guard_formula(m, node)
            ok = implies(g, f_not(atom(f"{tgt} is None")))
            res.add("C13.R2", repo.key(m, stmt_of(node)) + f" [{tgt} not None]", ok, f"`{norm(node, 60)}` is only reached when {tgt} has been set" if ok else f"`{norm(node, 60)}` in {m.qualname} is reached while {tgt} may still be None: the incomplete call chain fails with AttributeError/TypeError or silently continues instead of a configuration error", where(m, node), kind="dominance")
        for r in own_nodes(m.node):
            if isinstance(r, ast.Raise):
                name = exception_class_name(repo, m, r.exc)
                if not name.endswith("ImproperlyConfigured"):
                    res.add("C13.R2", repo.key(m, _if_of(r)) + " [error class]", False, f"{m.qualname} rejects with {name} instead of a configuration error", where(m, r), kind="structural")
    res.floor("C13.R2.layer", 13, n)
    # based_on twice / layers_that without architecture
    for name, tgt, want_none in (("based_on", "self._architecture", False), ("layers_that", "self._architecture", True)):
        m = lr.methods.get(name)
        if m is None:
            raise AnalysisError(f"LayerRule.{name} not found")
        raises = [r for r in own_nodes(m.node) if isinstance(r, ast.Raise)]
        ok = False
        for r in raises:
            g = guard_formula(m, r)
            a = atom(f"{tgt} is None")
            if equivalent(g, a if want_none else f_not(a)):
                ok = True
        res.add("C13.R2", f"{m.relpath}::{m.qualname}::ordering guard", ok, f"{name} rejects when {tgt} is {'missing' if want_none else 'already set'}" if ok else f"{name} no longer rejects when {tgt} is {'missing' if want_none else 'already set'}", where(m, m.node), kind="decision-table")
    # DiagramRule
    dr = repo.cls(DIAGRAM_RULE, "DiagramRule")
    da = dr.methods["assert_applies"]
    val = [c for c in calls_in(da.node) if is_attr_call(c, "_assert_required_configuration_present")]
    parse = [c for c in calls_in(da.node) if is_attr_call(c, "parse")]
    ok = len(val) == 1 and len(parse) == 1 and cfg_of(da).dominates(stmt_of(val[0]), stmt_of(parse[0])) and not conds(da, val[0])
    res.add("C13.R2", f"{da.relpath}::{da.qualname}::file check dominates parsing", ok, "the diagram file check runs before parsing" if ok else "the diagram is parsed without the file check", where(da, da.node), kind="dominance")
    dv = dr.methods.get("_assert_required_configuration_present")
    raises = [r for r in own_nodes(dv.node) if isinstance(r, ast.Raise)] if dv else []
    ok = bool(raises) and any(equivalent(guard_formula(dv, r), atom("self._file_path is None")) for r in raises)
    res.add("C13.R2", f"{dr.module.relpath}::DiagramRule._assert_required_configuration_present::guard", ok, "raises exactly when no file was given" if ok else "the diagram-rule validator does not raise exactly when the file path is missing", kind="decision-table")
    # entry point option guards
    ge = repo.func(ENTRY, "get_evaluable_architecture")
    gen = [c for c in calls_in(ge.node) if dotted(c.func) == "generate_graph"]
    if len(gen) != 1:
        raise AnalysisError("get_evaluable_architecture: generate_graph call not found")
    expected = {
        "exclusions xor regex_exclusions": f_and([atom("bool(regex_exclusions)"), atom("bool(exclusions)")]),
        "external_exclusions xor regex_external_exclusions": f_and([atom("bool(regex_external_exclusions)"), atom("bool(external_exclusions)")]),
        "external patterns need included externals": f_and([atom("bool(exclude_external_libraries)"), f_or([atom("bool(external_exclusions)"), atom("bool(regex_external_exclusions)")])]),
    }
    raises = [r for r in own_nodes(ge.node) if isinstance(r, ast.Raise)]
    gcfg = cfg_of(ge)
    dominating = [r for r in raises if gcfg.dominates(_if_of(r), stmt_of(gen[0])) and not is_assertion_error(repo, exception_class_name(repo, ge, r.exc))]
    rejected = f_or([guard_formula(ge, r) for r in dominating])
    for label, want in expected.items():
        # every option combination of this kind must run into one of the raises that dominate the scan
        ok = implies(want, rejected)
        hit = [r for r in dominating if satisfiable(f_and([guard_formula(ge, r), want]))]
        ok = ok and bool(hit)
        # the guard must see the caller's values: nothing it reads may be re-assigned before it
        if ok:
            reads = {a[5:-1] for a in atoms_of(want)}
            for s in ge.body:
                if s is _if_of(hit[0]):
                    break
                if isinstance(s, (ast.Assign, ast.AugAssign)) and any(dotted(t) in reads for t in (s.targets if isinstance(s, ast.Assign) else [s.target])):
                    ok = False
                if isinstance(s, ast.If) and any(isinstance(x, ast.Assign) and any(dotted(t) in reads for t in x.targets) for x in ast.walk(s)):
                    ok = False
        res.add("C13.R2", f"{ge.relpath}::{ge.qualname}::guard {label}", ok, f"rejected before the scan: {show(want)}" if ok else f"the option combination `{show(want)}` is no longer rejected (on the caller's values) before the architecture is built", where(ge, ge.node), kind="decision-table")
    rel = [c for c in calls_in(ge.node) if is_attr_call(c, "relative_to")]
    ok = len(rel) >= 1 and gcfg.dominates(stmt_of(rel[0]), stmt_of(gen[0])) and not conds(ge, rel[0]) and not any(isinstance(a, (ast.Try,)) for a in ancestors(rel[0]))
    res.add("C13.R2", f"{ge.relpath}::{ge.qualname}::module_path inside root_path", ok, "module_path.relative_to(root_path) (raising for a path outside the root) precedes the scan" if ok else "a module_path outside root_path is no longer rejected before the scan", where(ge, ge.node), kind="dominance")
    # Rule._set_modules
    sm = rule.methods.get("_set_modules")
    raises = [r for r in own_nodes(sm.node) if isinstance(r, ast.Raise)]
    stores = [s for s in own_nodes(sm.node) if isinstance(s, ast.Assign) and dotted(s.targets[0]).startswith("self._configuration.")]
    ok = bool(raises) and any(equivalent(guard_formula(sm, r), atom("self._modules_to_check_to_be_specified_next is None")) for r in raises) and stores and all(cfg_of(sm).dominates(_if_of(raises[0]), s) for s in stores)
    res.add("C13.R2", f"{sm.relpath}::{sm.qualname}::subject or object first", ok, "module lists are stored only after `modules_that()` / an import type selected a side" if ok else "a module list can be stored before a rule subject or object was announced", where(sm, sm.node), kind="dominance")
    # diagram tags
    pp = repo.cls(DIAGRAM_PARSER, "PumlParser")
    rm = pp.methods.get("_remove_content_outside_start_and_end_tags")
    if rm is None:
        raise AnalysisError("PumlParser._remove_content_outside_start_and_end_tags not found")
    rets = [s for s in own_nodes(rm.node) if isinstance(s, ast.Return)]
    raises = [r for r in own_nodes(rm.node) if isinstance(r, ast.Raise)]
    mvar = None
    for s in own_nodes(rm.node):
        if isinstance(s, ast.Assign) and isinstance(s.value, ast.Call) and (repo.resolve_name(rm.module, s.value.func) or "").startswith("re."):
            if (repo.resolve_name(rm.module, s.value.func) or "") in ("re.search", "re.match", "re.fullmatch"):
                mvar = dotted(s.targets[0])
    mtrue = to_formula(ast.Name(id=mvar or "_", ctx=ast.Load()), copy_prop(rm))
    ok = mvar is not None and len(raises) == 1 and all(implies(guard_formula(rm, r), mtrue) for r in rets) and implies(guard_formula(rm, raises[0]), f_not(mtrue)) and "ParsingError" in exception_class_name(repo, rm, raises[0].exc) and not any(isinstance(r.value, ast.Constant) for r in rets)
    res.add("C13.R2", f"{rm.relpath}::{rm.qualname}::missing tags raise", ok, "a file without @startuml/@enduml raises PumlParsingError" if ok else "a diagram without start/end tags no longer raises a parsing error on the no-match path", where(rm, rm.node), kind="dominance")


# --------------------------------------------------------------------------- R3 / R4


VERDICT_SITES = {(MATCHER, "RuleMatcher.match"), (MULTI, "MultipleRuleApplier.assert_applies")}
GRAPH_ACCESS = {"successors", "predecessors", "get_edge_data", "direct_successor_nodes", "direct_predecessor_nodes", "parent_child_relationship", "neighbors", "in_edges", "out_edges"}
LOOKUP_ERRORS = {"KeyError", "LookupError", "IndexError", "NetworkXError", "NetworkXException", "NodeNotFound", "ValueError", "TypeError", "AttributeError", "RuntimeError"}


def assert_statements(repo: Repo) -> list[tuple[FuncInfo | None, ast.Assert, str]]:
    out = []
    for mod in repo.modules.values():
        for n in ast.walk(mod.tree):
            if isinstance(n, ast.Assert):
                out.append((repo.func_of(n), n, mod.relpath))
    return out


def run_r3_r4(repo: Repo, res: Result) -> None:
    n = 0
    for f in repo.all_functions():
        for r in own_nodes(f.node):
            if not isinstance(r, ast.Raise):
                continue
            name = exception_class_name(repo, f, r.exc)
            n += 1
            is_ae = is_assertion_error(repo, name)
            site_ok = (f.module.name, f.qualname) in VERDICT_SITES
            ok = (not is_ae) or site_ok
            res.add("C13.R3", repo.key(f, r), ok, f"raises {name.split('.')[-1]}" + (" (verdict site)" if is_ae else ""), where(f, r), nontrivial=is_ae, kind="effect") if ok else res.add(
                "C13.R3", repo.key(f, r), False, f"{f.qualname} raises AssertionError (`{norm(r, 80)}`): a configuration / lookup problem would be indistinguishable from an architectural violation", where(f, r), kind="effect"
            )
            if r.exc is None and not any(isinstance(a, ast.ExceptHandler) for a in ancestors(r)):
                res.add("C13.R3", repo.key(f, r) + " [bare raise]", False, "bare `raise` outside a handler", where(f, r))
    found_sites = {(f.module.name, f.qualname) for f in repo.all_functions() for r in own_nodes(f.node) if isinstance(r, ast.Raise) and is_assertion_error(repo, exception_class_name(repo, f, r.exc))}
    for s in sorted(VERDICT_SITES):
        res.add("C13.R3", f"{s[0]}::{s[1]}::verdict site present", s in found_sites, "verdict site raises AssertionError" if s in found_sites else f"{s[1]} no longer raises AssertionError: violations cannot be signalled", kind="effect")
    res.floor("C13.R3", 20, n)
    asserts = assert_statements(repo)
    for f, a, rel in asserts:
        res.add("C13.R3", (repo.key(f, a) if f else f"{rel}::<module>::{norm(a)}"), False, f"`{norm(a, 80)}`: an `assert` statement raises AssertionError for a non-architectural reason (and disappears under -O)", f"{rel}:{a.lineno}", kind="effect")
    res.add("C13.R3", "src::no assert statement", not asserts, f"{len(repo.modules)} modules contain no `assert` statement", kind="effect")
    # positive fixture for the assert / broad-except detectors
    import shutil, tempfile
    from pathlib import Path

    fx = Path(__file__).resolve().parents[1] / "fixtures" / "raises_and_handlers.py"
    tmp = Path(tempfile.mkdtemp(prefix="pta-fixture-"))
    try:
        (tmp / "src" / "pytestarch").mkdir(parents=True)
        shutil.copy(fx, tmp / "src" / "pytestarch" / "fixture_raises.py")
        frepo = Repo(tmp)
        if len(assert_statements(frepo)) != 1 or len([h for h in handlers(frepo) if handler_verdict(frepo, *h)[0] is False]) != 3:
            raise AnalysisError("C13 fixture: assert / handler detectors do not recognise engine/fixtures/raises_and_handlers.py")
        res.add("C13.R4", "fixture::engine/fixtures/raises_and_handlers.py", True, "positive fixture recognised (1 assert, 3 offending handlers)", nontrivial=False)
    finally:
        shutil.rmtree(tmp, ignore_errors=True)
    hs = handlers(repo)
    for f, h in hs:
        ok, detail = handler_verdict(repo, f, h)
        res.add("C13.R4", repo.key(f, h) + f" [{_try_key(h)}]", ok, detail, where(f, h), kind="effect")
    res.floor("C13.R4", 4, len(hs))


def handlers(repo: Repo) -> list[tuple[FuncInfo, ast.ExceptHandler]]:
    out = []
    for f in repo.all_functions():
        for n in own_nodes(f.node):
            if isinstance(n, ast.ExceptHandler):
                out.append((f, n))
    return out


def _try_key(h: ast.ExceptHandler) -> str:
    t = parent(h)
    return norm(t.body[0], 60) if isinstance(t, ast.Try) and t.body else ""


def handler_verdict(repo: Repo, f: FuncInfo, h: ast.ExceptHandler) -> tuple[bool, str]:
    T = types_of(repo)
    types_ = []
    if h.type is None:
        types_ = ["<bare>"]
    else:
        for e in (h.type.elts if isinstance(h.type, ast.Tuple) else [h.type]):
            types_.append((repo.resolve_name(f.module, e) or dotted(e)).split(".")[-1])
    t = parent(h)
    body = t.body if isinstance(t, ast.Try) else []
    repo_calls = []
    graph_access = []
    for s in body:
        for c in ast.walk(s):
            if isinstance(c, ast.Call):
                cs, how = T.callees(f, c, byname_fallback=False)
                if cs:
                    repo_calls.append(norm(c, 50))
                if isinstance(c.func, ast.Attribute) and c.func.attr in GRAPH_ACCESS:
                    graph_access.append(norm(c, 50))
            if isinstance(c, ast.Subscript) and "graph" in norm(c.value).lower():
                graph_access.append(norm(c, 50))
    if any(x in ("<bare>", "Exception", "BaseException") for x in types_):
        return False, f"broad handler `except {', '.join(types_)}` in {f.qualname}: configuration and lookup errors raised below it are swallowed or turned into something else"
    if "AssertionError" in types_:
        if (f.module.name, f.qualname) != (MULTI, "MultipleRuleApplier.assert_applies"):
            return False, f"{f.qualname} catches AssertionError: a violated rule can be turned into a pass"
        return True, "AssertionError is caught only by the aggregating applier (see C07.R2)"
    if any(x in LOOKUP_ERRORS for x in types_):
        if repo_calls or graph_access:
            return False, f"`except {', '.join(types_)}` in {f.qualname} wraps {', '.join((graph_access + repo_calls)[:3])}: the lookup error that rejects an unknown module name is swallowed and a verdict is produced"
        return True, f"`except {', '.join(types_)}` wraps only builtin container operations ({_try_key(h)})"
    return True, f"`except {', '.join(types_)}` does not interfere with configuration or lookup errors"


# --------------------------------------------------------------------------- R5 / R7


def run_r5_r7(repo: Repo, res: Result, inl: Inliner) -> None:
    beh = inl.behavior
    v = beh.methods.get("_validate")
    init = beh.methods.get("__init__")
    if v is None or init is None:
        raise AnalysisError("BehaviorRequirement._validate / __init__ not found")
    raises = [r for r in own_nodes(v.node) if isinstance(r, ast.Raise)]
    got = f_or([inl.conds(v, r) for r in raises])
    want = f_and([atom("should_not"), f_or([atom("should"), atom("should_only")])])
    extra = atoms_of(got) - set(ATOMS)
    ok = not extra and equivalent(got, want)
    res.add("C13.R5", f"{v.relpath}::{v.qualname}::contradictory verbs", ok, "raises exactly when should_not is combined with should / should_only (all 16 assignments)" if ok else f"BehaviorRequirement._validate raises under `{show(got)}`, required: `{show(want)}` (should_not combined with another verb must be rejected)", where(v, v.node), kind="decision-table")
    calls = [c for c in calls_in(init.node) if is_attr_call(c, "_validate")]
    ok = len(calls) == 1 and cfg_of(init).dominates(stmt_of(calls[0]), EXIT) and not conds(init, calls[0])
    res.add("C13.R5", f"{init.relpath}::{init.qualname}::validate on construction", ok, "_validate runs unconditionally when the requirement is built" if ok else "BehaviorRequirement can be built without _validate having run", where(init, init.node), kind="dominance")
    for r in raises:
        name = exception_class_name(repo, v, r.exc)
        res.add("C13.R5", repo.key(v, _if_of(r)) + " [error class]", not is_assertion_error(repo, name), f"raises {name.split('.')[-1]}", where(v, r), nontrivial=False)
    # R7
    rule = repo.cls(RULE, "Rule")
    rv = rule.methods.get("_assert_required_configuration_present")
    raises = [r for r in own_nodes(rv.node) if isinstance(r, ast.Raise)]
    if not raises:
        raise AnalysisError("Rule._assert_required_configuration_present raises nothing")
    c = "self._configuration."
    want = f_or([
        f_not(f_or([atom(f"bool({c}should)"), atom(f"bool({c}should_only)"), atom(f"bool({c}should_not)")])),
        atom(f"{c}import_ is None"),
        f_not(atom(f"bool({c}modules_to_check)")),
        f_not(atom(f"bool({c}modules_to_check_against)")),
    ])
    got_all = [guard_formula(rv, r) for r in raises]
    ok = any(equivalent(g, want) for g in got_all)
    if not ok:
        # which required part is missing?
        first = got_all[0]
        missing = []
        for label, part in (("verb", want[1][0]), ("import type", want[1][1]), ("subject", want[1][2]), ("object", want[1][3])):
            if not implies(part, first):
                missing.append(label)
        detail = f"the required-configuration check raises under `{show(first)}`" + (f": a rule without {', '.join(missing)} is not rejected" if missing else ": it is not exactly 'subject, verb, import type or object missing'")
    else:
        detail = "raises exactly when subject, verb, import type or object is missing"
    res.add("C13.R7", f"{rv.relpath}::{rv.qualname}::required parts", ok, detail, where(rv, rv.node), kind="decision-table")
    for r in raises:
        name = exception_class_name(repo, rv, r.exc)
        res.add("C13.R7", repo.key(rv, _if_of(r)) + " [error class]", name.endswith("ImproperlyConfigured"), f"raises {name.split('.')[-1]}", where(rv, r), nontrivial=False)
    # the 'anything' guard: raise iff anything and not should_not
    reach = [f for f in reachable_funcs(repo, [rule.methods["assert_applies"]], byname=False) if f.cls is rule]
    want2 = f_and([atom(f"bool({c}rule_object_anything)"), f_not(atom(f"bool({c}should_not)"))])
    all_guards = f_or([guard_formula(f, r) for f in reach for r in own_nodes(f.node) if isinstance(r, ast.Raise) and not is_assertion_error(repo, exception_class_name(repo, f, r.exc))])
    hit = implies(want2, all_guards)
    res.add("C13.R7", f"{rule.module.relpath}::Rule::anything only with should_not", bool(hit), "'anything' with a verb other than should_not raises" if hit else "no guard rejects 'anything' combined with should / should_only", kind="decision-table")


# --------------------------------------------------------------------------- R6


def run_r6(repo: Repo, res: Result) -> None:
    n = 0
    for m in S.models(repo):
        fi = m.fi
        cfg = cfg_of(fi)
        params = fi.param_names[1:]
        for p in params:
            ann = norm(next(a.annotation for a in fi.params if a.arg == p)) if next(a for a in fi.params if a.arg == p).annotation is not None else ""
            is_set = ann.startswith("set[")
            lookups = []
            for c in calls_in(fi.node):
                if isinstance(c.func, ast.Name) and c.func.id == S.SUBMODULES and len(c.args) == 2:
                    a = dotted(c.args[1])
                    if a == p:
                        lookups.append((c, "direct"))
                    elif is_set:
                        for lp in loops_around(c, fi.node):
                            if isinstance(lp, ast.For) and dotted(lp.target) == a and dotted(lp.iter) == p:
                                lookups.append((c, lp))
            n += 1
            if is_set:
                good = [(c, lp) for c, lp in lookups if lp != "direct" and cfg.dominates(lp, EXIT)]
                ok = bool(good)
                if ok:
                    # inside the loop the lookup may only be skipped for the element equal to the subject (looked up on its own)
                    c, lp = good[0]
                    extra = conds(fi, c)[len(conds(fi, lp)):]
                    subj = [q for q in params if q != p][0]
                    for e, pol in extra:
                        f = to_formula(e)
                        a_, b_ = sorted([dotted(lp.target), subj])
                        if not (equivalent(f if pol else f_not(f), f_not(atom(f"{a_} == {b_}")))):
                            ok = False
                detail = f"every element of `{p}` is looked up in the graph (raising for an unknown module) on every path" if ok else f"an element of `{p}` can escape the raising graph lookup {S.SUBMODULES}(graph, element): a misspelt module name yields a verdict"
            elif fi.name == S.SUBMODULES:
                # the worklist starts with the module's node and the first iteration expands it
                ok = _first_iteration_lookup(fi, m, p)
                detail = f"the node of `{p}` is expanded by the raising accessor in the first iteration" if ok else f"`{p}` may not reach the raising accessor"
            else:
                direct = [c for c, kind_ in lookups if kind_ == "direct" and cfg.dominates(stmt_of(c), EXIT)]
                ok = bool(direct) or (m.role == "explicit" and p == params[0] and _first_iteration_lookup(fi, m, p) and cfg.dominates(m.loop, EXIT) and _no_return_before(fi, m.loop))
                detail = f"`{p}` reaches a raising graph lookup on every path before the function returns" if ok else f"a path through {fi.name} returns without `{p}` having been looked up in the graph: a rule naming a module that does not exist gets a verdict instead of a lookup error"
            res.add("C13.R6", f"{fi.relpath}::{fi.qualname}::lookup of {p}", ok, detail, where(fi, fi.node), kind="dominance")
    res.floor("C13.R6", 7, n)
    # the accessors raise for unknown nodes: bare sorted(graph.successors(node)), no guard, no handler
    g = repo.cls(NXGRAPH, "NetworkxGraph")
    for name, lib in ((S.SUCC, "successors"), (S.PRED, "predecessors")):
        m = g.methods.get(name)
        if m is None:
            raise AnalysisError(f"NetworkxGraph.{name} not found")
        body = [s for s in m.body if not (isinstance(s, ast.Expr) and isinstance(s.value, ast.Constant))]
        ok = len(body) == 1 and isinstance(body[0], ast.Return) and any(is_attr_call(c, lib) and dotted(c.args[0]) == m.param_names[1] for c in ast.walk(body[0]) if isinstance(c, ast.Call) and c.args)
        res.add("C13.R6", f"{m.relpath}::{m.qualname}::raising accessor", ok, f"returns the {lib} of the node directly (networkx raises for a node that is not in the graph)" if ok else f"{name} no longer hands the node straight to networkx' {lib}(): an unknown node may yield an empty result instead of an error", where(m, m.node), kind="structural")
    # layer names: raising subscript per requested layer
    lr = repo.cls(LAYER_RULE, "LayerRule")
    gm = lr.methods.get("_get_all_modules_in_layers")
    la = repo.cls(LAYER_RULE, "LayeredArchitecture")
    gi = la.methods.get("__getitem__")
    if gm is None or gi is None:
        raise AnalysisError("LayerRule._get_all_modules_in_layers / LayeredArchitecture.__getitem__ not found")
    p = gm.param_names[1]
    ok = False
    for node in own_nodes(gm.node):
        if isinstance(node, ast.Subscript) and dotted(node.value) == "self._architecture" and isinstance(node.slice, ast.Name):
            for lp in loops_around(node, gm.node):
                for tgt, it in ([(lp.target, lp.iter)] if isinstance(lp, ast.For) else [(g_.target, g_.iter) for g_ in lp.generators] if hasattr(lp, "generators") else []):
                    if dotted(tgt) == node.slice.id and dotted(it) == p:
                        ok = True
    res.add("C13.R6", f"{gm.relpath}::{gm.qualname}::every requested layer is looked up", ok, "each requested layer name indexes the architecture (raising for an undefined layer)" if ok else "a requested layer name is not used to index the architecture: a rule naming a layer that was never defined gets a verdict", where(gm, gm.node), kind="structural")
    rets = [s for s in own_nodes(gi.node) if isinstance(s, ast.Return)]
    ok = len(rets) == 1 and isinstance(rets[0].value, ast.Subscript) and dotted(rets[0].value.slice) == gi.param_names[1]
    res.add("C13.R6", f"{gi.relpath}::{gi.qualname}::raising subscript", ok, "undefined layer names raise KeyError" if ok else "LayeredArchitecture.__getitem__ no longer raises for undefined layers", where(gi, gi.node), kind="structural")


def _no_return_before(fi: FuncInfo, loop: ast.AST) -> bool:
    for s in fi.body:
        if s is loop:
            return True
        if any(isinstance(x, ast.Return) for x in ast.walk(s)):
            return False
    return True


def _first_iteration_lookup(fi: FuncInfo, m: S.SearchModel, p: str) -> bool:
    """`W = [node(p)]`, V = set(), and nothing but the visited test precedes the neighbour lookup in the loop body."""
    node_vars = {p}
    for s in own_nodes(fi.node):
        if isinstance(s, ast.Assign) and isinstance(s.value, ast.Call) and dotted(s.value.func) == "get_node" and dotted(s.value.args[0]) == p:
            node_vars.add(dotted(s.targets[0]))
        if isinstance(s, ast.Assign) and isinstance(s.value, ast.Attribute) and dotted(s.value.value) == p and s.value.attr == "identifier":
            node_vars.add(dotted(s.targets[0]))
    init = [s for s in fi.body if isinstance(s, ast.Assign) and dotted(s.targets[0]) == m.worklist]
    if len(init) != 1 or not (isinstance(init[0].value, ast.List) and len(init[0].value.elts) == 1 and dotted(init[0].value.elts[0]) in node_vars):
        return False
    vinit = [s for s in fi.body if isinstance(s, ast.Assign) and dotted(s.targets[0]) == (m.visited or "")]
    if m.visited and not (len(vinit) == 1 and isinstance(vinit[0].value, ast.Call) and dotted(vinit[0].value.func) == "set" and not vinit[0].value.args):
        return False
    # conditions under which the neighbour lookup is skipped: only the visited test
    for e, pol in conds(fi, m.neighbour_call):
        if e is m.loop.test:
            continue
        t = norm(e)
        if not (m.visited and t == f"{m.popped} in {m.visited}" and pol is False):
            return False
    return True


def run(repo: Repo) -> Result:
    res = Result("C13")
    res.explanation = (
        "Decides, per method and per guard (not per call history), that undefined or incomplete specifications are rejected before a verdict can "
        "exist: (R1) no rewrite that precedes a validator makes one of its guards unsatisfiable; (R2) validators, None-guards, option guards and "
        "relative_to dominate evaluation / dereferences / state writes; (R3) AssertionError is raised only at the two verdict sites and src/ has "
        "no assert statement; (R4) no broad handler and no lookup-error handler around graph accesses or validators; (R5) contradictory verbs "
        "raise exactly when should_not meets another verb; (R6) every subject and object reaches a raising graph lookup on every path, the "
        "accessors hand nodes straight to networkx, every requested layer name indexes the architecture; (R7) the required-configuration "
        "formula is exactly 'subject, verb, import type or object missing' plus the 'anything only with should_not' guard."
    )
    res.not_decided = "arbitrary call sequences: histories that defeat a guard through state the guard does not read are only caught when that state is in the guard's formula (see C16.R2)."
    res.trusted_base = ["networkx raises NetworkXError for successors/predecessors of a missing node", "pathlib.Path.relative_to raises ValueError", "engine CFG dominance and guard formulas"]
    inl = Inliner(repo)
    run_r1(repo, res)
    run_r2(repo, res)
    run_r3_r4(repo, res)
    run_r5_r7(repo, res, inl)
    run_r6(repo, res)
    return res
