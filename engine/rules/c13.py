"""C13 - undefined or incomplete specifications never produce a verdict.

All rules are decided on *symbolic runs* of public entry points (rules/c13_sym.py): the entry point is interpreted with symbolic
object state, private helpers are followed inter-procedurally, and the rule asks whether an outcome that would be a verdict
(normal return, call into an AssertionError site) is consistent with an invalid specification.  Private names, helper
structure, early returns, table-driven validators and setattr/getattr spellings do not matter; fields are found by the
*role* the public fluent API gives them (`should()` writes the 'should' flag, `from_file()` writes the diagram path, ...).

  C13.R1  validation before rewrite: no rewrite of the configuration that precedes a check removes what the check must see
  C13.R2  must-pass-through: on no path does an incomplete / contradictory Rule, LayerRule, DiagramRule or architecture request
          reach evaluation (validators, None-guards, option guards, relative_to, diagram tags)
  C13.R3  who may raise AssertionError: only raises that depend on evaluation results (or re-raise caught verdicts); no `assert`
  C13.R4  handler inventory: no broad handler, no lookup-error handler around graph accesses or validators
  C13.R5  contradictory verbs: should_not combined with should / should_only is rejected (requirement class and rule pipeline)
  C13.R6  unknown names reach a raising lookup on every path (searches down to networkx' successors/predecessors, layer names)
  C13.R7  the required-configuration check covers subject, verb, import type and object
"""

from __future__ import annotations

import ast

from core.guards import TRUE, Formula, atom, atoms_of, f_and, f_not, f_or, show
from core.loader import AnalysisError, ClassInfo, FuncInfo, Repo, ancestors, header, norm, own_nodes, parent
from core.report import Result
from core.types import members

from . import c13_sym as S
from .c13_sym import Coll, Const, Opq, Phi, Ref, exception_class_name, implies_path, is_assertion_error, key, sat_path
from .common import callees_of, conds, dotted, reachable_funcs, types_of, where

PKG = "pytestarch"


class Ctx:
    def __init__(self, repo: Repo) -> None:
        self.repo = repo
        self.T = types_of(repo)
        self._sites: set[str] | None = None
        self._reach: dict[str, bool] = {}

    # public API anchors -----------------------------------------------------------
    def public_class(self, name: str) -> ClassInfo:
        fq = self.repo._canonical(f"{PKG}.{name}")
        ci = self.repo.classes.get(fq)
        if ci is None:
            cands = [c for c in self.repo.classes.values() if c.name == name]
            if len(cands) != 1:
                raise AnalysisError(f"public class {PKG}.{name} not found")
            ci = cands[0]
        return ci

    def public_func(self, name: str) -> FuncInfo:
        fq = self.repo._canonical(f"{PKG}.{name}")
        modname, _, fn = fq.rpartition(".")
        m = self.repo.modules.get(modname)
        if m is None or fn not in m.functions:
            raise AnalysisError(f"public function {PKG}.{name} not found")
        return m.functions[fn]

    def method(self, ci: ClassInfo, name: str) -> FuncInfo:
        m = self.repo.lookup_method(ci, name)
        if m is None or m.is_abstract:
            raise AnalysisError(f"public method {ci.name}.{name} not found")
        return m

    # verdict sites ------------------------------------------------------------------
    @property
    def sites(self) -> set[str]:
        """Functions with an own `raise AssertionError` (the places where a verdict is signalled)."""
        if self._sites is None:
            self._sites = set()
            for f in self.repo.all_functions():
                for n in own_nodes(f.node):
                    if isinstance(n, ast.Raise) and n.exc is not None and is_assertion_error(self.repo, exception_class_name(self.repo, f, n.exc)):
                        self._sites.add(f.fq)
        return self._sites

    def reaches_site(self, f: FuncInfo) -> bool:
        if f.fq not in self._reach:
            self._reach[f.fq] = any(g.fq in self.sites for g in reachable_funcs(self.repo, [f], byname=False))
        return self._reach[f.fq]

    def stop(self, callees: list[FuncInfo]) -> bool:
        if any(c.fq in self.sites for c in callees):
            return True
        return len(callees) > 1 and any(self.reaches_site(c) for c in callees)

    def run(self, fi: FuncInfo, init=None, descend=None, stop="default") -> S.Sym:
        return S.run(self.repo, fi, stop=self.stop if stop == "default" else stop, descend=descend, init=init)


def bad_outcomes(sym: S.Sym) -> list[S.Outcome]:
    """Outcomes that amount to a verdict: the entry returns normally, a verdict site is entered, or AssertionError is raised."""
    out = []
    for o in sym.outcomes:
        if o.kind in ("return", "verdict"):
            out.append(o)
        elif o.kind == "raise" and is_assertion_error(sym.repo, o.exc):
            out.append(o)
    return out


def rejections(sym: S.Sym) -> list[S.Outcome]:
    return [o for o in sym.outcomes if o.kind == "raise" and not is_assertion_error(sym.repo, o.exc)]


def swallowed(sym: S.Sym, ev: S.Event, catching: set[str], bad: list[S.Outcome] | None = None) -> str | None:
    """Name of a handler around `ev` that catches its error and can complete normally (fall through / return / go on to a
    verdict); a handler that always raises (re-raise, conversion into another exception) does not swallow the error."""
    for n, i, types in getattr(ev, "handler_entries", ()):
        if set(types) & catching and sym.handler_swallows.get((n, i), True):
            return ", ".join(sorted(set(types) & catching))
    return None


def where_o(o: S.Outcome) -> str:
    return f"{o.ctx.relpath}:{getattr(o.node, 'lineno', 0)}" if o.ctx is not None else ""


def describe_outcome(o: S.Outcome) -> str:
    if o.kind == "verdict":
        return f"the call `{norm(o.node, 60)}` in {o.ctx.qualname} (enters the verdict site {o.callee.split('::')[-1]})"
    if o.kind == "return":
        return f"the normal return of {o.ctx.qualname}" + (f" (`{header(o.node)}`)" if isinstance(o.node, ast.Return) else "")
    return f"`{norm(o.node, 60)}` in {o.ctx.qualname}"


def must(path, ev_path) -> bool:
    """Every run that takes `path` has taken `ev_path` (the event happened on it)."""
    ev_path = tuple(ev_path)
    if tuple(path[: len(ev_path)]) == ev_path:
        return True
    return implies_path(path, S.conj(ev_path))


def consistent(o: S.Outcome, want: Formula) -> bool:
    return sat_path(o.path, want)


def final_writes(sym: S.Sym, prefix: str = "self.") -> dict[str, S.Val]:
    """Attribute keys (below `prefix`) with the value they have when the entry returns normally (only unconditional ones)."""
    rets = [o for o in sym.outcomes if o.kind == "return"]
    out: dict[str, S.Val] = {}
    for i, o in enumerate(rets):
        cur = {k: v for k, v in (o.store or {}).items() if k.startswith(prefix) and not isinstance(v, S.CollState)}
        if i == 0:
            out = cur
        else:
            out = {k: v for k, v in out.items() if cur.get(k) == v}
    return out


# --------------------------------------------------------------------------- roles of the Rule configuration


FLUENT_VERBS = ("should", "should_only", "should_not")


def rule_roles(ctx: Ctx, res: Result) -> dict[str, str] | None:
    """role -> attribute key, derived from what the public fluent methods of `Rule` write."""
    rule = ctx.public_class("Rule")

    def writes(name: str, init=None) -> dict[str, S.Val]:
        return final_writes(ctx.run(ctx.method(rule, name), init=init))

    roles: dict[str, str] = {}
    problems: list[str] = []
    w = {n: writes(n) for n in (*FLUENT_VERBS, "modules_that", "import_modules_that", "be_imported_by_modules_that", "import_modules_except_modules_that", "import_anything")}
    for v in FLUENT_VERBS:
        ks = [k for k, val in w[v].items() if val == Const(True)]
        if len(ks) == 1:
            roles[v] = ks[0]
        else:
            problems.append(f"{v}() sets {ks or 'no flag'}")
    imp, rev = w["import_modules_that"], w["be_imported_by_modules_that"]
    ks = [k for k, val in imp.items() if val == Const(True) and rev.get(k) == Const(False)]
    if len(ks) == 1:
        roles["import"] = ks[0]
    else:
        problems.append(f"import_modules_that()/be_imported_by_modules_that() differ in {ks or 'no flag'}")
    ks = [k for k, val in w["modules_that"].items() if isinstance(val, Const) and isinstance(imp.get(k), Const) and imp[k] != val and rev.get(k) == imp[k]]
    if len(ks) == 1:
        roles["side"] = ks[0]
    else:
        problems.append(f"modules_that()/import_modules_that() switch {ks or 'no side marker'}")
    ks = [k for k, val in w["import_modules_except_modules_that"].items() if val == Const(True) and k not in imp]
    if len(ks) == 1:
        roles["except"] = ks[0]
    else:
        problems.append(f"import_modules_except_modules_that() additionally sets {ks or 'nothing'}")
    ks = [k for k, val in w["import_anything"].items() if val == Const(True) and k not in imp]
    if len(ks) == 1:
        roles["anything"] = ks[0]
    else:
        problems.append(f"import_anything() additionally sets {ks or 'nothing'}")
    if "side" in roles:
        for role, side_val in (("subject", w["modules_that"][roles["side"]]), ("object", imp[roles["side"]])):
            def init(sym: S.Sym, st: S.State, side_val=side_val) -> None:
                st.store[roles["side"]] = side_val

            ww = writes("are_named", init)
            ks = [k for k, val in ww.items() if k != roles["side"] and not isinstance(val, Const)]
            if len(ks) == 1:
                roles[role] = ks[0]
            else:
                problems.append(f"are_named() with the {role} side selected stores into {ks or 'nothing'}")
    if problems:
        res.undecide("C13.R7", f"{rule.module.relpath}::Rule::fluent API roles", "cannot tell which fields the fluent API writes: " + "; ".join(problems), rule.module.relpath)
        return None
    return roles


def initial_formula(ctx: Ctx, ci: ClassInfo, k: str) -> Formula | None:
    """Formula over the atoms of attribute `k` that holds while `k` still has the value the constructor gave it
    (None -> `k is None`, other falsy constants -> `not bool(k)`); None when the initial value is not such a constant."""
    init = ctx.repo.lookup_method(ci, "__init__")
    if init is None:
        return None
    cache = ctx.__dict__.setdefault("_init_runs", {})
    if init.fq not in cache:
        cache[init.fq] = ctx.run(init, stop=None)
    sym = cache[init.fq]
    rets = [o for o in sym.outcomes if o.kind == "return"]
    if len(rets) != 1:
        return None
    v = current_value(sym, rets[0].store or {}, k)
    if isinstance(v, Const) and v.value is None:
        return atom(f"{k} is None")
    if isinstance(v, Const) and not v.value:
        return f_not(atom(f"bool({k})"))
    cs = (rets[0].store or {}).get(key(v)) if isinstance(v, Coll) else None
    if cs is not None and cs.exact and not cs.items:
        return f_not(atom(f"bool({k})"))
    return None


def current_value(sym: S.Sym, store: dict, k: str) -> S.Val:
    """Value found under the attribute chain `k` (e.g. self._configuration.should) in the given store."""
    parts = k.split(".")
    st = S.State({}, dict(store), [])
    v: S.Val = Opq(parts[0], frozenset({parts[0]}), kind="param")
    for a in parts[1:]:
        v = sym.get_attr(v, a, st)
    return v


def rewritten_under(sym: S.Sym, o: S.Outcome, want: Formula, keys: list[str]) -> str | None:
    """A role key whose value at outcome `o` is not the caller's value on some assignment satisfying want and the path."""
    for k in keys:
        v = current_value(sym, o.store or {}, k)
        alts = v.alts if isinstance(v, Phi) else ((TRUE, v),)
        for c, a in alts:
            if not (isinstance(a, Opq) and a.key == k) and sat_path(o.path, f_and([c, want])):
                return k
    return None


def run_rule_pipeline(ctx: Ctx, res: Result, roles: dict[str, str] | None) -> None:
    repo = ctx.repo
    rule = ctx.public_class("Rule")
    if roles is None:
        return
    aa = ctx.method(rule, "assert_applies")
    sym = ctx.run(aa)
    bad = bad_outcomes(sym)
    if not any(o.kind == "verdict" for o in bad):
        res.undecide("C13.R2", repo.key(aa, "evaluation point"), "no call into an AssertionError site is reachable from Rule.assert_applies: the evaluation point was not recognised", where(aa, aa.node))
        return
    b = lambda r: atom(f"bool({roles[r]})")  # noqa: E731
    verb = f_or([b(v) for v in FLUENT_VERBS])
    init = {r: initial_formula(ctx, rule, roles[r]) for r in ("import", "subject", "object", *FLUENT_VERBS, "anything")}
    unknown = [r for r, f in init.items() if f is None]
    if unknown:
        res.undecide("C13.R7", f"{aa.relpath}::Rule::initial configuration", f"Rule.__init__ does not give {', '.join(unknown)} a recognisable empty initial value (None / False / empty)", where(aa, aa.node))
        return
    no_verb = f_and([init[v] for v in FLUENT_VERBS])
    wants: list[tuple[str, str, Formula, list[str]]] = [
        ("C13.R7", "missing verb", no_verb, [roles[v] for v in FLUENT_VERBS]),
        ("C13.R7", "missing import type", init["import"], [roles["import"]]),
        ("C13.R7", "missing subject", f_and([f_not(b("anything")), f_not(b("subject"))]), [roles["subject"]]),
        ("C13.R7", "missing object", f_and([f_not(b("anything")), f_not(b("object"))]), [roles["object"]]),
        ("C13.R1", "'anything' with a verb other than should_not", f_and([b("anything"), f_not(b("should_not"))]), [roles["anything"], roles["should_not"]]),
        ("C13.R5", "should_not combined with another verb", f_and([b("should_not"), f_or([b("should"), b("should_only")])]), [roles[v] for v in FLUENT_VERBS]),
    ]
    rej = rejections(sym)
    dominance_ok = True
    beh_ok = run_behavior_class(ctx, res, sym, roles)
    for rid, label, want, keys in wants:
        construct = f"{aa.relpath}::Rule.assert_applies::rejects {label}"
        hits = [o for o in bad if consistent(o, want)]
        if rid == "C13.R5" and not beh_ok:
            continue  # consequence of the violated requirement-class obligation reported above
        if not hits:
            res.add(rid, construct, True, f"no evaluation, normal return or AssertionError is possible with {label} (`{show(want)}`)", where(aa, aa.node), kind="decision-table")
            continue
        o = hits[0]
        k = rewritten_under(sym, o, want, keys)
        others = f_and([f_not(w2) for _r, l2, w2, _k in wants if l2 != label])
        rejected_somewhere = any((atoms_of(want) & atoms_of(r.cond)) and (sat_path(r.path, f_and([want, others])) or sat_path(r.path, want) and rid != "C13.R7") for r in rej)
        if k is not None:
            rule_id = "C13.R1"
            detail = f"`{k.split('.')[-1]}` is rewritten before the check that must see the caller's value: with {label} (`{show(want)}`) {describe_outcome(o)} is reached - the invalid specification is evaluated instead of rejected"
        elif rejected_somewhere or rid == "C13.R5":
            rule_id = "C13.R2"
            dominance_ok = False
            detail = f"with {label} (`{show(want)}`) {describe_outcome(o)} is reached before / without the check that rejects it"
        else:
            rule_id = rid
            detail = f"no check rejects {label}: with `{show(want)}` {describe_outcome(o)} is reached"
        res.add(rule_id, construct, False, detail, where_o(o), kind="dominance")
    res.add("C13.R2", f"{aa.relpath}::Rule.assert_applies::validation dominates evaluation", dominance_ok, "every rejecting check lies on all paths to the evaluation" if dominance_ok else "a verdict can be reached on a path that bypasses a rejecting check (see the obligations above)", where(aa, aa.node), kind="dominance")


def run_behavior_class(ctx: Ctx, res: Result, pipeline: S.Sym, roles: dict[str, str]) -> bool:
    """C13.R5 on the class that receives the three verb flags in its constructor (BehaviorRequirement by role)."""
    repo = ctx.repo
    verb_keys = {roles[v]: v for v in FLUENT_VERBS}
    target = None
    for ev in pipeline.events:
        if ev.kind != "ctor":
            continue
        ci = repo.classes.get(ev.name)
        init = repo.lookup_method(ci, "__init__") if ci else None
        post = repo.lookup_method(ci, "__post_init__") if ci else None
        if init is None and post is None:
            continue
        call = ev.node
        if not isinstance(call, ast.Call):
            continue
        params = init.param_names[1:] if init is not None else [a for c in reversed(repo.mro(ci)) for a in c.ann_attrs]
        bound: dict[str, str] = {}
        for i, a in enumerate(ev.args[: len(call.args)]):
            if i < len(params) and isinstance(a, (Opq, Phi)):
                for k in verb_keys:
                    if key(a) == k or (isinstance(a, Phi) and all(key(x) == k for _c, x in a.alts)):
                        bound[verb_keys[k]] = params[i]
        for kw, a in zip(call.keywords, ev.args[len(call.args):]):
            for k in verb_keys:
                if key(a) == k and kw.arg:
                    bound[verb_keys[k]] = kw.arg
        if len(bound) == 3:
            target = (ci, init, bound)
            break
    if target is None:
        return True  # no separate requirement class: the pipeline obligation alone decides
    ci, init, bound = target
    if init is None:
        init = repo.lookup_method(ci, "__post_init__")
        self_name = init.param_names[0]
        bound = {k: f"{self_name}.{v}" for k, v in bound.items()}  # dataclass: the constructor arguments are the fields
    sym = ctx.run(init, stop=None)
    p = lambda v: atom(f"bool({bound[v]})")  # noqa: E731
    want = f_and([p("should_not"), f_or([p("should"), p("should_only")])])
    hits = [o for o in sym.outcomes if o.kind == "return" and consistent(o, want)]
    bad_cls = [o for o in sym.outcomes if o.kind == "raise" and is_assertion_error(repo, o.exc)]
    ok = not hits and not bad_cls
    construct = f"{init.relpath}::{ci.name}::contradictory verbs"
    if ok:
        res.add("C13.R5", construct, True, f"constructing {ci.name} with should_not and should / should_only raises ({', '.join(sorted({o.exc.split('.')[-1] for o in rejections(sym)}))})", where(init, init.node), kind="decision-table")
    elif bad_cls:
        res.add("C13.R5", construct, False, f"{ci.name} signals contradictory verbs with AssertionError", where_o(bad_cls[0]), kind="decision-table")
    else:
        o = hits[0]
        rj = f_or([r.cond for r in rejections(sym)])
        known = {f"bool({q})" for q in init.param_names} | {f"{q} is None" for q in init.param_names} | {f"bool({v})" for v in bound.values()} | {f"{v} is None" for v in bound.values()}
        foreign = sorted(a for a in atoms_of(rj) if a not in known)
        if foreign:
            # the conditions under which the constructor raises are not expressed over its arguments: a value travelled
            # through something the symbolic run does not model, the decision table cannot be read off
            res.undecide("C13.R5", construct, f"the conditions under which {ci.name} rejects its arguments depend on values the symbolic run could not relate to the constructor arguments ({', '.join(foreign[:3])}): the decision table of the verb check was not extracted", where(init, init.node))
            return True
        res.add("C13.R5", construct, False, f"{ci.name} can be constructed with should_not combined with another verb: it raises under `{show(rj)[:200]}`, required: `{show(want)}` (should_not combined with should / should_only must be rejected)", where_o(o), kind="decision-table")
    return ok


# --------------------------------------------------------------------------- R2: subject or object first


MODULE_SPECIFIERS = ("are_named", "are_sub_modules_of", "have_name_matching", "have_name_containing")


def run_side_guard(ctx: Ctx, res: Result, roles: dict[str, str] | None) -> None:
    """A module list given before `modules_that()` / an import type selected a side must be rejected."""
    if roles is None:
        return
    rule = ctx.public_class("Rule")
    want = initial_formula(ctx, rule, roles["side"])
    if want is None:
        res.undecide("C13.R2", f"{rule.module.relpath}::Rule::side marker", "Rule.__init__ does not give the subject/object marker a recognisable empty initial value", rule.module.relpath)
        return
    for name in MODULE_SPECIFIERS:
        m = ctx.repo.lookup_method(rule, name)
        if m is None or m.is_abstract:
            continue
        sym = ctx.run(m)
        if not any(o.kind == "return" for o in sym.outcomes):
            res.undecide("C13.R2", f"{m.relpath}::Rule.{name}::subject or object first", f"Rule.{name} never returns normally in the symbolic run: the method was not understood", where(m, m.node))
            continue
        hits = [o for o in bad_outcomes(sym) if consistent(o, want)]
        ok = not hits
        res.add(
            "C13.R2",
            f"{m.relpath}::Rule.{name}::subject or object first",
            ok,
            f"{name}() raises while neither a rule subject nor a rule object has been announced" if ok else f"{name}() can complete ({describe_outcome(hits[0])}) although no rule subject or object was announced (`{show(want)}`): an object given before a subject is accepted",
            where_o(hits[0]) if hits else where(m, m.node),
            kind="dominance",
        )


# --------------------------------------------------------------------------- R2 / R6: LayerRule


def _ref_of_class(v: S.Val, fq: str) -> bool:
    if isinstance(v, Ref):
        return v.cls == fq
    if isinstance(v, Phi):
        return any(_ref_of_class(a, fq) for _c, a in v.alts)
    return False


def run_layer_rule(ctx: Ctx, res: Result) -> None:
    repo = ctx.repo
    lr = ctx.public_class("LayerRule")
    rule = ctx.public_class("Rule")
    based_on = ctx.method(lr, "based_on")
    layers_that = ctx.method(lr, "layers_that")
    # roles: the attribute that receives the architecture, the attribute that receives the freshly created module rule
    arch_keys = [k for k, v in final_writes(ctx.run(based_on)).items() if isinstance(v, Opq) and v.kind == "param"]
    rule_keys = [k for k, v in final_writes(ctx.run(layers_that)).items() if _ref_of_class(v, rule.fq)]
    if len(arch_keys) != 1 or len(rule_keys) != 1:
        res.undecide("C13.R2", f"{lr.module.relpath}::LayerRule::state roles", f"cannot tell where based_on() stores the architecture ({arch_keys}) / layers_that() the module rule ({rule_keys})", lr.module.relpath)
        return
    k_arch, k_rule = arch_keys[0], rule_keys[0]
    no_rule = initial_formula(ctx, lr, k_rule) or atom(f"{k_rule} is None")
    no_arch = initial_formula(ctx, lr, k_arch) or atom(f"{k_arch} is None")
    n = 0
    for name, m in sorted(lr.methods.items()):
        if name.startswith("_") or m.is_property or m.is_abstract:
            continue
        if m is based_on:
            want, label = f_not(no_arch), "a second based_on()"
        elif m is layers_that:
            want, label = no_arch, "layers_that() before based_on()"
        else:
            want, label = no_rule, f"{name}() before layers_that()"
        sym = ctx.run(m)
        if not bad_outcomes(sym):
            res.undecide("C13.R2", f"{m.relpath}::LayerRule.{name}::ordering guard", f"LayerRule.{name} neither returns nor evaluates in the symbolic run: the method was not understood", where(m, m.node))
            continue
        hits = [o for o in bad_outcomes(sym) if consistent(o, want)]
        n += 1
        ok = not hits
        res.add(
            "C13.R2",
            f"{m.relpath}::LayerRule.{name}::ordering guard",
            ok,
            f"{label} raises a configuration error" if ok else f"{label} is not rejected: with `{show(want)}` {describe_outcome(hits[0])} is reached - the incomplete call chain continues (or fails with an unspecific error) instead of raising a configuration error",
            where_o(hits[0]) if hits else where(m, m.node),
            kind="dominance",
        )
    res.floor("C13.R2.layer", 4, n)
    # R6: every requested layer name indexes the architecture with a raising subscript
    an = ctx.method(lr, "are_named")
    p = an.param_names[1]
    sym = ctx.run(an)
    rets = [o for o in sym.outcomes if o.kind == "return"]
    ok, detail = False, "are_named() never uses a requested layer name as a raising subscript of the layer definition: a rule naming a layer that was never defined gets a verdict"
    evidence = False  # something was seen that looks a requested layer name up without raising for an unknown one
    for ev in sym.events:
        if ev.args and ev.args[0] is not None and sym.deps(ev.args[0]) == frozenset({p}) and ((ev.kind == "call" and ev.name in ("get", "setdefault", "pop", "__contains__")) or ev.kind == "member"):
            evidence = True
            detail = f"`{norm(ev.node, 50)}` in {ev.ctx.qualname} looks a requested layer name up without raising for an undefined one, and no raising subscript of the layer definition is evaluated for every requested layer: a rule naming a layer that was never defined gets a verdict"
    for ev in sym.events:
        if ev.kind != "subscript" or not ev.args:
            continue
        idx = ev.args[0]
        if isinstance(idx, Opq) and idx.deps == frozenset({p}) and idx.kind not in ("elem", "param"):
            evidence = True  # e.g. layers[0]: one particular name only
            detail = f"`{norm(ev.node, 50)}` is not evaluated for every requested layer: a rule naming a layer that was never defined can get a verdict"
        if not (isinstance(idx, Opq) and idx.kind in ("elem", "param") and idx.deps == frozenset({p})):
            continue
        if not any(m_[0] == "b" and m_[1] == "dict" for m_ in members(ev.recv_type)):
            continue
        evidence = True
        if swallowed(sym, ev, {"KeyError", "LookupError", "Exception", "BaseException", "<bare>"}, bad_outcomes(sym)):
            detail = f"the KeyError of `{norm(ev.node, 50)}` for an undefined layer is caught and are_named() carries on"
            continue
        if idx.kind == "param":
            good = all(must(o.path, ev.path) for o in rets)
        else:
            loops = [lc for lc in ev.loops if lc.elem is not None and idx.key.startswith(lc.elem.key)]
            good = bool(loops) and loops[0].elem.meta and loops[0].elem.meta[0] == p and all(must(o.path, loops[0].pre_path) for o in rets) and must(tuple(loops[0].pre_path) + (loops[0].iter_atom,), ev.path)
        if good:
            ok, detail = True, f"each requested layer name is looked up with `{norm(ev.node, 50)}` (KeyError for an undefined layer) on every path"
            break
        detail = f"`{norm(ev.node, 50)}` is not evaluated for every requested layer on every path: a rule naming a layer that was never defined can get a verdict"
    hand = _handoffs(sym, p) if not ok and not evidence else []
    if not rets:
        res.undecide("C13.R6", repo.key(an, "layer lookup"), "LayerRule.are_named never returns normally in the symbolic run", where(an, an.node))
    elif hand:
        res.undecide("C13.R6", f"{an.relpath}::LayerRule.are_named::every requested layer is looked up", f"the requested layer names are handed to `{norm(hand[0].node, 60)}` in {hand[0].ctx.qualname}, which the symbolic run could not follow, and no lookup of a layer name was seen at all: the lookup may happen in there", where(hand[0].ctx, hand[0].node))
    else:
        res.add("C13.R6", f"{an.relpath}::LayerRule.are_named::every requested layer is looked up", ok, detail, where(an, an.node), kind="dominance")


# --------------------------------------------------------------------------- R2: DiagramRule (file check, start/end tags)


START_TAG, END_TAG = "@startuml", "@enduml"


def _const_texts(deps: frozenset) -> str:
    return " ".join(sorted(d[6:] for d in deps if d.startswith("const:")))


def _uninterpreted_tests(sym: S.Sym, path, k: str) -> list[str]:
    """Atoms on `path` by which the symbolic run recorded a test of the search position `k` (or of arithmetic on it) that it
    could not relate to 'found' / 'not found': whatever such a test guards is not evidence."""
    return [n for c in path for n in atoms_of(c) if k in sym.uninterpreted.get(n, ())]


def run_diagram_rule(ctx: Ctx, res: Result) -> None:
    repo = ctx.repo
    dr = ctx.public_class("DiagramRule")
    from_file = ctx.method(dr, "from_file")
    aa = ctx.method(dr, "assert_applies")
    file_keys = [k for k, v in final_writes(ctx.run(from_file)).items() if isinstance(v, Opq) and v.kind == "param"]
    if len(file_keys) != 1:
        res.undecide("C13.R2", f"{dr.module.relpath}::DiagramRule::state roles", f"cannot tell where from_file() stores the diagram path ({file_keys})", dr.module.relpath)
        return
    k_file = file_keys[0]
    sym = ctx.run(aa)
    bad = bad_outcomes(sym)
    if not any(o.kind == "verdict" for o in bad):
        res.undecide("C13.R2", repo.key(aa, "evaluation point"), "no call into an AssertionError site is reachable from DiagramRule.assert_applies", where(aa, aa.node))
        return
    want = initial_formula(ctx, dr, k_file) or atom(f"{k_file} is None")
    hits = [o for o in bad if consistent(o, want)]
    # reading the diagram without a path is no configuration error either: the check has to come before the file is opened
    opened = [ev for ev in sym.events if ev.kind == "call" and ev.name == "open" and sat_path(ev.path, want)]
    ok = not hits and not opened
    if ok:
        detail = "a diagram rule without a file raises before the diagram is read or evaluated"
    elif opened:
        detail = f"`{norm(opened[0].node, 50)}` in {opened[0].ctx.qualname} runs although no diagram file was given (`{show(want)}`): the missing file is not rejected with a configuration error before parsing"
    else:
        detail = f"a diagram rule without a file is not rejected: with `{show(want)}` {describe_outcome(hits[0])} is reached"
    res.add("C13.R2", f"{aa.relpath}::DiagramRule.assert_applies::file check dominates parsing", ok, detail, where_o(hits[0]) if hits else where(aa, aa.node), kind="dominance")
    # start / end tags: for each tag, a search whose "tag absent" outcome leads to a raise and to no verdict
    KINDS = ("search", "find", "index", "partsep", "split", "contains")
    searches = [ev for ev in sym.events if ev.kind == "call" and isinstance(ev.result, Opq) and ev.result.kind in KINDS]
    tagged = [ev for ev in searches if START_TAG in _const_texts(ev.result.deps) or END_TAG in _const_texts(ev.result.deps)]
    construct = f"{dr.module.relpath}::DiagramRule.assert_applies::missing tags raise"
    if not tagged:
        res.undecide("C13.R2", construct, f"no search of the diagram text for {START_TAG} / {END_TAG} (re.search / re.match / str.find / index / partition / split / in) is reachable from DiagramRule.assert_applies: the tag extraction was not recognised", where(aa, aa.node))
        return

    def absent(ev: S.Event) -> Formula:
        r = ev.result
        if r.kind == "search":
            return atom(f"{r.key} is None")
        if r.kind in ("partsep", "contains"):
            return f_not(atom(f"bool({r.key})"))
        return atom(f"notfound({r.key})")

    def judge(ev: S.Event) -> tuple[bool, S.Outcome | None]:
        """(the 'tag absent' outcome of this search is rejected and reaches no verdict, an escaping verdict if any)"""
        if ev.result.kind == "index":
            if swallowed(sym, ev, {"ValueError", "Exception", "BaseException", "<bare>"}, bad):
                return False, None
            esc = [o for o in bad if not must(o.path, ev.path)]
            return not esc, (esc[0] if esc else None)
        nf = absent(ev)
        esc = [o for o in bad if consistent(o, nf)]
        return (not esc and any(sat_path(x.path, nf) for x in rejections(sym))), (esc[0] if esc else None)

    verdicts = {id(ev): judge(ev) for ev in tagged}
    problems: list[tuple[str, str, str]] = []
    covered_by: dict[str, S.Event] = {}
    for tag in (START_TAG, END_TAG):
        # the searches *for* the tag (the tag is part of the needle / pattern).  A later search whose range or receiver was
        # computed from such a search says something about the tag only through the constraints the symbolic run attaches
        # to it (partition of an empty rest, a range clamped to empty) - a result that merely depends on it proves nothing:
        # `text.rfind(start, 0, text.rfind(end) - 1)` searches an end-relative range when the end tag is absent
        cands = [ev for ev in tagged if tag in _const_texts(ev.result.meta[0] if ev.result.meta else ev.result.deps)]
        good = [ev for ev in cands if verdicts[id(ev)][0]]
        if good:
            covered_by[tag] = good[0]
            continue
        own = [ev for ev in cands if tag in _const_texts(ev.result.meta[0] if ev.result.meta else frozenset())] or cands
        blamed = [ev for ev in own if verdicts[id(ev)][1] is not None]
        if blamed:
            ev = blamed[0]
            o = verdicts[id(ev)][1]
            loc_ = f"{ev.ctx.relpath}:{getattr(ev.node, 'lineno', 0)}"
            if _uninterpreted_tests(sym, o.path, ev.result.key):
                problems.append((tag, "?", ""))  # a test of the search result that the model could not interpret guards the verdict: no evidence
            elif must(o.path, ev.path):
                problems.append((tag, f"when `{norm(ev.node, 60)}` in {ev.ctx.qualname} does not find {tag}, {describe_outcome(o)} is still reached (the 'not found' outcome of this search is never tested): a diagram without {tag} no longer raises a parsing error", loc_))
            else:
                problems.append((tag, f"{describe_outcome(o)} is reachable on a path on which the search for {tag} (`{norm(ev.node, 50)}`) does not run in this call (`{show(ev.cond)[:100]}` does not hold): nothing rejects a diagram without {tag} there", loc_))
        elif own:
            problems.append((tag, "?", ""))
        else:
            problems.append((tag, "-", ""))
    real = [p_ for p_ in problems if p_[1] not in ("?", "-")]
    if real:
        res.add("C13.R2", construct, False, "; ".join(p_[1] for p_ in real), real[0][2], kind="dominance")
    elif problems:
        missing = [p_[0] for p_ in problems]
        res.undecide("C13.R2", construct, f"no recognised search of the diagram text depends on {' / '.join(missing)}, or its 'not found' outcome is not tested in a recognised way ({', '.join(norm(ev.node, 40) for ev in tagged[:3])})", where(aa, aa.node))
    else:
        evs = list({id(e_): e_ for e_ in covered_by.values()}.values())
        raised = sorted({x.exc.split(".")[-1] for x in rejections(sym) for e_ in evs if e_.result.kind != "index" and sat_path(x.path, absent(e_))})
        res.add("C13.R2", construct, True, f"a diagram without {START_TAG} / {END_TAG} ({', '.join('`' + norm(e_.node, 40) + '`' for e_ in evs)} finds nothing) raises {', '.join(raised) or 'the error of the search itself'} and reaches no verdict", where(aa, aa.node), kind="dominance")
    _tag_order(sym, res, dr, aa, tagged, bad)
    _end_relative_bounds(sym, res, dr, aa, tagged, bad)


def _position_lower_bound(path, pos: Opq) -> int:
    """Smallest value the search position `pos` can have under `path` (as far as the path says): -1 = 'not found' possible."""
    import re

    lb = 0 if pos.kind == "index" or implies_path(path, f_not(atom(f"notfound({pos.key})"))) else -1
    if lb == 0:
        for c in path:
            for n in atoms_of(c):
                m = re.fullmatch(re.escape(pos.key) + r" Gt (\d+)", n)
                if m and int(m.group(1)) + 1 > lb and implies_path(path, atom(n)):
                    lb = int(m.group(1)) + 1
    return lb


def _end_relative_bounds(sym: S.Sym, res: Result, dr: ClassInfo, aa: FuncInfo, tagged: list[S.Event], bad: list[S.Outcome]) -> None:
    """`text.rfind(start, 0, end - 1)`: a negative upper bound counts from the END of the text.  When the bound is computed
    from an earlier search position that may be too small (not found = -1, or found at an index below the displacement) the
    search looks behind that position: a start tag behind the only end tag is 'found' and the file gets a verdict."""
    construct = f"{dr.module.relpath}::DiagramRule.assert_applies::bounded tag search"
    for b in tagged:
        if not (b.result.kind in ("find", "index") and b.name in S.STR_SEARCH and len(b.args) == 3 and isinstance(b.args[2], Opq)):
            continue
        hi = b.args[2]
        pos, d = (hi, 0) if hi.kind in ("find", "index") else (hi.meta if hi.kind == "offset" else (None, 0))
        if pos is None or not any(t in _const_texts(pos.deps) for t in (START_TAG, END_TAG)):
            continue
        lb = _position_lower_bound(b.path, pos)
        if lb + d >= 0:
            continue
        for o in bad:
            if not must(o.path, b.path):
                continue
            names = [n for c in o.path for n in atoms_of(c)]
            if any(pos.key in sym.uninterpreted.get(n, ()) or b.result.key in sym.uninterpreted.get(n, ()) for n in names):
                continue  # a later test relates the result to the earlier position (or could not be interpreted): no evidence
            if sat_path(o.path, atom(f"notfound({pos.key})")) and pos.kind == "find":
                continue  # the missing tag itself still reaches the verdict: reported by 'missing tags raise'
            res.add(
                "C13.R2",
                construct,
                False,
                f"the upper bound `{norm(b.node.args[2], 40)}` of `{norm(b.node, 60)}` in {b.ctx.qualname} is negative when the earlier tag is found at index {lb}{' or not at all' if lb < 0 else ''}: python then counts the bound from the end of the text, the search looks behind the earlier position, and a file whose {START_TAG} only follows its {END_TAG} (no tagged body) reaches {describe_outcome(o)} instead of raising a parsing error",
                f"{b.ctx.relpath}:{getattr(b.node, 'lineno', 0)}",
                kind="dominance",
            )
            return
    res.add("C13.R2", construct, True, "no tag search is bounded by a position that can make the bound negative (end-relative)", where(aa, aa.node), nontrivial=False, kind="dominance")


def _tag_order(sym: S.Sym, res: Result, dr: ClassInfo, aa: FuncInfo, tagged: list[S.Event], bad: list[S.Outcome]) -> None:
    """A file in which @enduml only occurs before @startuml has no tagged body.  Pattern / partition / bounded searches order the
    tags by construction; two *independent* position searches over the same text (neither range depends on the other result)
    whose positions cut the body out of the text must be related to each other (a comparison, a test of the slice, a further
    search involving both tags) on every path to a verdict."""
    construct = f"{dr.module.relpath}::DiagramRule.assert_applies::start tag before end tag"

    def needle(ev: S.Event) -> str:
        return _const_texts(ev.result.meta[0]) if ev.result.meta else ""

    pos = [ev for ev in tagged if ev.result.kind in ("find", "index") and ev.name in S.STR_SEARCH and ev.recv is not None]
    starts = [ev for ev in pos if START_TAG in needle(ev) and END_TAG not in _const_texts(ev.result.deps)]
    ends = [ev for ev in pos if END_TAG in needle(ev) and START_TAG not in _const_texts(ev.result.deps)]
    slices = [ev for ev in sym.events if ev.kind == "slice" and ev.recv is not None and len(ev.args) == 2 and ev.args[0] is not None and ev.args[1] is not None]
    for a in starts:
        for b in ends:
            if key(a.recv) != key(b.recv):
                continue
            cut = [sl for sl in slices if key(sl.recv) == key(a.recv) and a.result.key in key(sl.args[0]) and b.result.key in key(sl.args[1])]
            for sl in cut:
                for o in bad:
                    if not (must(o.path, sl.path) and must(o.path, a.path) and must(o.path, b.path)):
                        continue
                    related = any(a.result.key in n and b.result.key in n for c in o.path for n in atoms_of(c))
                    related = related or any(sl.result.key in n for c in o.path for n in atoms_of(c))
                    related = related or any(ev is not a and ev is not b and START_TAG in _const_texts(ev.result.deps) and END_TAG in _const_texts(ev.result.deps) and must(o.path, ev.path) for ev in tagged)
                    if related:
                        continue
                    res.add(
                        "C13.R2",
                        construct,
                        False,
                        f"`{norm(a.node, 50)}` and `{norm(b.node, 50)}` in {a.ctx.qualname} look for the two tags independently of each other and `{norm(sl.node, 60)}` cuts the text between the two positions, but nothing on the way to {describe_outcome(o)} relates the positions: a file whose only {END_TAG} precedes {START_TAG} (no tagged body) yields an empty diagram and a verdict instead of a parsing error",
                        f"{sl.ctx.relpath}:{getattr(sl.node, 'lineno', 0)}",
                        kind="dominance",
                    )
                    return
    res.add("C13.R2", construct, True, "the tag positions are ordered by construction (one pattern / a search bounded by the other position) or compared before the body is used", where(aa, aa.node), nontrivial=False, kind="dominance")


# --------------------------------------------------------------------------- R2: entry point options


def run_entry_point(ctx: Ctx, res: Result) -> None:
    ge = ctx.public_func("get_evaluable_architecture")
    params = ge.param_names
    needed = ["root_path", "module_path", "exclusions", "exclude_external_libraries", "regex_exclusions", "external_exclusions", "regex_external_exclusions"]
    if any(p not in params for p in needed):
        raise AnalysisError(f"public signature of get_evaluable_architecture changed: {params}")
    # helpers of the entry point are followed wherever they live; the scan / graph machinery itself is not interpreted
    sym = ctx.run(ge, descend=lambda caller, callee: callee.module is ge.module or "eval_structure" not in callee.module.name)
    rets = [o for o in sym.outcomes if o.kind in ("return", "verdict")]
    if not rets:
        res.undecide("C13.R2", f"{ge.relpath}::get_evaluable_architecture::returns", "no normal return found in the symbolic run", where(ge, ge.node))
        return
    b = lambda p: atom(f"bool({p})")  # noqa: E731
    expected = {
        "exclusions xor regex_exclusions": f_and([b("regex_exclusions"), b("exclusions")]),
        "external_exclusions xor regex_external_exclusions": f_and([b("regex_external_exclusions"), b("external_exclusions")]),
        "external patterns need included externals": f_and([b("exclude_external_libraries"), f_or([b("external_exclusions"), b("regex_external_exclusions")])]),
    }
    known = {f"bool({q})" for q in params} | {f"{q} is None" for q in params}
    for label, want in expected.items():
        hits = [o for o in rets if consistent(o, want)]
        ae = [o for o in sym.outcomes if o.kind == "raise" and is_assertion_error(ctx.repo, o.exc) and consistent(o, want)]
        ok = not hits and not ae
        if hits and not ae:
            # a configuration error is raised under a condition the run could not express over the options (a value went
            # through something it does not model) and that condition is compatible with the invalid combination: no evidence
            def opaque(a: str) -> bool:
                # the result of a call that was not followed, or a value that has nothing to do with the options; a plain
                # comparison of an option with something else (`exclusions != DEFAULT`) is an understood extra condition
                inner = a[5:-1] if a.startswith("bool(") and a.endswith(")") else a
                return "(" in inner or not any(q in inner for q in params)

            vague = [r for r in rejections(sym) if consistent(r, want) and any(opaque(a) for a in atoms_of(r.cond) - known)]
            if vague:
                res.undecide("C13.R2", f"{ge.relpath}::{ge.qualname}::guard {label}", f"`{norm(vague[0].node, 60)}` is raised under `{show(vague[0].cond)[:160]}`, which the symbolic run could not relate to the options: it cannot tell whether `{show(want)}` is rejected", where_o(vague[0]))
                continue
        res.add(
            "C13.R2",
            f"{ge.relpath}::{ge.qualname}::guard {label}",
            ok,
            f"rejected before the architecture is built: {show(want)}" if ok else f"the option combination `{show(want)}` (on the caller's values) is no longer rejected: {describe_outcome((hits or ae)[0])} is reached",
            where_o((hits or ae)[0]) if (hits or ae) else where(ge, ge.node),
            kind="decision-table",
        )
    # module_path outside root_path: pathlib's relative_to (raises ValueError) on every path, uncaught
    rel = [ev for ev in sym.events if ev.kind == "call" and ev.name == "relative_to" and ev.recv is not None and "module_path" in sym.deps(ev.recv) and ev.args and "root_path" in sym.deps(ev.args[0])]
    ok, detail = False, "module_path.relative_to(root_path) is no longer evaluated: a module_path outside root_path is not rejected before the scan"
    for ev in rel:
        if swallowed(sym, ev, {"ValueError", "Exception", "BaseException", "<bare>"}, rets):
            detail = f"the ValueError of `{norm(ev.node, 50)}` is caught and the scan goes ahead: a module_path outside root_path is tolerated"
            continue
        esc = [o for o in rets if not must(o.path, ev.path)]
        if not esc:
            ok, detail = True, f"`{norm(ev.node, 50)}` (ValueError for a module_path outside root_path) is evaluated on every path to the scan"
            break
        detail = f"`{norm(ev.node, 50)}` is evaluated only under `{show(ev.cond)[:120]}`: {describe_outcome(esc[0])} is reachable without it, a module_path outside root_path is tolerated"
    res.add("C13.R2", f"{ge.relpath}::{ge.qualname}::module_path inside root_path", ok, detail, where(ge, ge.node), kind="dominance")


# --------------------------------------------------------------------------- R6: unknown names reach a raising lookup


QUERY_METHODS = ("get_dependencies", "any_dependencies_from_dependents_to_modules_other_than_dependent_upons", "any_other_dependencies_on_dependent_upons_than_from_dependents")
CATCHES_LOOKUP = {"NetworkXError", "NetworkXException", "NodeNotFound", "KeyError", "LookupError", "Exception", "BaseException", "<bare>"}


def _filter_kind(ctx: Ctx, fi: FuncInfo, p: str) -> str | None:
    """'scalar' / 'collection' for parameters typed (collections of) module filters, 'graph' for the graph parameter."""
    try:
        t = ctx.T.param_type(fi, p)
    except Exception:  # noqa: BLE001
        return None
    def is_filter(m) -> bool:
        if m[0] != "cls":
            return False
        ci = ctx.repo.classes.get(m[1])
        return ci is not None and any(c.name in ("ModuleFilter",) for c in ctx.repo.mro(ci))
    def is_graph(m) -> bool:
        if m[0] != "cls":
            return False
        ci = ctx.repo.classes.get(m[1])
        return ci is not None and any(c.name == "AbstractGraph" for c in ctx.repo.mro(ci))
    ms = members(t)
    if any(is_graph(m) for m in ms):
        return "graph"
    if any(is_filter(m) for m in ms):
        return "scalar"
    for m in ms:
        if m[0] == "b" and m[1] in ("set", "frozenset", "list", "seq", "iter", "tuple") and m[2] and any(is_filter(x) for a in m[2] for x in members(a)):
            return "collection"
    return None


def search_functions(ctx: Ctx) -> list[FuncInfo]:
    """Module-level searches that the query methods of the EvaluableArchitecture implementation hand module filters to."""
    repo = ctx.repo
    proto = ctx.public_class("EvaluableArchitecture")
    impls = [c for c in repo.classes.values() if c is not proto and proto in repo.mro(c) and all((m := repo.lookup_method(c, q)) is not None and not m.is_abstract for q in QUERY_METHODS)]
    out: list[FuncInfo] = []
    for c in impls:
        seen: list[FuncInfo] = []
        work = [repo.lookup_method(c, q) for q in QUERY_METHODS]
        while work:
            f = work.pop()
            if f in seen:
                continue
            seen.append(f)
            for g in callees_of(repo, f, byname=False):
                if g.cls is c or (g.outer is not None and g.cls is c):
                    work.append(g)
                elif g.cls is None and g.outer is None and g not in out:
                    kinds = [_filter_kind(ctx, g, p) for p in g.param_names]
                    if "graph" in kinds and ("scalar" in kinds or "collection" in kinds):
                        out.append(g)
    return out


def _is_raising_lookup(ev: S.Event) -> bool:
    return ev.kind == "call" and ev.name in S.RAISING_NX and any(m[0] == "lib" and m[1].startswith("networkx") for m in members(ev.recv_type))


def _nx_typed(ctx: Ctx, f: FuncInfo, e: ast.expr) -> bool:
    try:
        t = ctx.T.expr(f, e)
    except Exception:  # noqa: BLE001
        return False
    return any(m[0] == "lib" and m[1].startswith("networkx") for m in members(t))


def graph_tables(ctx: Ctx, ci: ClassInfo) -> dict[str, str]:
    """Fields of a graph class that are lookup tables *of the graph*: assigned only while the object is constructed, from an
    expression over the networkx graph the class wraps (its adjacency / nodes / edges), and never changed afterwards.  A key
    found in such a table is a node (an edge) of the graph.  field -> text of the defining expression."""
    cache = ctx.__dict__.setdefault("_graph_tables", {})
    if ci.fq in cache:
        return cache[ci.fq]
    init = ctx.repo.lookup_method(ci, "__init__")
    methods = [m for c in ctx.repo.mro(ci) for m in [*c.methods.values(), *c.extra_methods] if not isinstance(m.node, ast.Lambda)]
    # methods that only run during construction: __init__ and private helpers it (transitively) calls that nothing else calls
    ctor_only = {init.fq} if init is not None else set()
    changed = True
    while changed:
        changed = False
        for m in methods:
            if m.fq in ctor_only or not m.name.startswith("_") or m.name.startswith("__"):
                continue
            callers = [g for g in methods if any(isinstance(c, ast.Call) and isinstance(c.func, ast.Attribute) and c.func.attr == m.name for c in ast.walk(g.node))]
            if callers and all(g.fq in ctor_only for g in callers):
                ctor_only.add(m.fq)
                changed = True
    stores: dict[str, list[tuple[FuncInfo, ast.expr | None]]] = {}
    mutated: set[str] = set()
    for m in methods:
        if not m.param_names:
            continue
        me = m.param_names[0]
        is_me = lambda x: isinstance(x, ast.Attribute) and isinstance(x.value, ast.Name) and x.value.id == me  # noqa: E731
        for n in own_nodes(m.node):
            if isinstance(n, (ast.Assign, ast.AnnAssign)):
                for t in (n.targets if isinstance(n, ast.Assign) else [n.target]):
                    if is_me(t):
                        stores.setdefault(t.attr, []).append((m, n.value))
            elif isinstance(n, ast.AugAssign) and is_me(n.target):
                mutated.add(n.target.attr)
            elif isinstance(n, ast.Call) and isinstance(n.func, ast.Attribute) and n.func.attr in S.COLL_MUTATORS and is_me(n.func.value) and m.fq not in ctor_only:
                mutated.add(n.func.value.attr)
            elif isinstance(n, ast.Subscript) and isinstance(n.ctx, (ast.Store, ast.Del)) and is_me(n.value) and m.fq not in ctor_only:
                mutated.add(n.value.attr)
            elif isinstance(n, ast.Delete):
                for t in n.targets:
                    if is_me(t):
                        mutated.add(t.attr)
    out: dict[str, str] = {}
    for field, sts in stores.items():
        if field in mutated or not all(m.fq in ctor_only and v is not None for m, v in sts):
            continue
        if all(any(isinstance(x, ast.Attribute) and _nx_typed(ctx, m, x) for x in ast.walk(v)) for m, v in sts):
            if not any(_nx_typed(ctx, m, v) for m, v in sts):  # the wrapped graph itself is not a table
                out[field] = norm(sts[0][1], 50)
    cache[ci.fq] = out
    return out


def _table_of(ctx: Ctx, ev: S.Event, recv_node: ast.expr | None) -> str | None:
    """Name of the graph table (see graph_tables) that `recv_node` - the container expression of the event - denotes."""
    f = ev.ctx
    if f is None or f.cls is None or not isinstance(recv_node, ast.Attribute) or not f.param_names:
        return None
    if not (isinstance(recv_node.value, ast.Name) and recv_node.value.id == f.param_names[0]):
        return None
    return recv_node.attr if recv_node.attr in graph_tables(ctx, f.cls) else None


def certifiers(ctx: Ctx, sym: S.Sym, p: str) -> list[tuple[S.Event, Formula, str]]:
    """Events that prove that the value derived from parameter `p` names something the graph knows, each with the condition
    under which it has happened AND has proved it, and a description:
      * networkx' raising successors / predecessors / neighbors (unknown node: NetworkXError) - unless a handler around the
        call swallowed the error (`exc#n.i` = handler i of try n was entered);
      * a hit in a lookup table of the graph (graph_tables): `table[k]` that did not raise into a swallowing handler,
        `table.get(k)` that is not None, `k in table` that holds."""
    out: list[tuple[S.Event, Formula, str]] = []

    def not_swallowed(ev: S.Event, catching: set[str]) -> Formula:
        return f_and([f_not(atom(f"exc#{n}.{i}")) for n, i, types in getattr(ev, "handler_entries", ()) if set(types) & catching and sym.handler_swallows.get((n, i), True)])

    for ev in sym.events:
        if not ev.args or ev.args[0] is None or sym.deps(ev.args[0]) != frozenset({p}):
            continue
        if _is_raising_lookup(ev):
            out.append((ev, f_and([ev.cond, not_swallowed(ev, CATCHES_LOOKUP)]), f"networkx' raising {ev.name}()"))
        elif ev.kind == "subscript" and isinstance(ev.node, ast.Subscript) and (t := _table_of(ctx, ev, ev.node.value)):
            out.append((ev, f_and([ev.cond, not_swallowed(ev, {"KeyError", "LookupError", "Exception", "BaseException", "<bare>"})]), f"a hit in the graph's lookup table {t}"))
        elif ev.kind == "call" and ev.name == "get" and len(ev.args) == 1 and isinstance(ev.node, ast.Call) and isinstance(ev.node.func, ast.Attribute) and isinstance(ev.result, Opq) and (t := _table_of(ctx, ev, ev.node.func.value)):
            out.append((ev, f_and([ev.cond, f_not(atom(f"{ev.result.key} is None"))]), f"a hit in the graph's lookup table {t}"))
        elif ev.kind == "member" and isinstance(ev.node, ast.Compare) and len(ev.node.comparators) == 1 and isinstance(ev.result, S.BoolV) and (t := _table_of(ctx, ev, ev.node.comparators[0])):
            out.append((ev, f_and([ev.cond, ev.result.f]), f"a hit in the graph's lookup table {t}"))
    return out


def _handoffs(sym: S.Sym, p: str) -> list[S.Event]:
    """Calls the symbolic run could not follow that received (a value derived from) `p`: the lookup may happen in there."""
    out = []
    for ev in sym.events:
        if ev.kind != "call" or not isinstance(ev.result, Opq) or ev.result.kind != "call" or _is_raising_lookup(ev):
            continue
        vals = [a for a in [*ev.args, ev.recv] if a is not None]
        if not any(p in sym.deps(a) for a in vals):
            continue
        ms = members(ev.recv_type)
        if ev.recv_type[0] == "fn" or any(m[0] == "cls" for m in ms) or (ev.recv is None and ev.recv_type == ("unknown",)):
            out.append(ev)
    return out


def run_lookups(ctx: Ctx, res: Result) -> None:
    repo = ctx.repo
    funcs = search_functions(ctx)
    n = 0
    for fi in funcs:
        sym = ctx.run(fi, stop=None)
        rets = [o for o in sym.outcomes if o.kind == "return"]
        if not rets:
            res.undecide("C13.R6", repo.key(fi, "returns"), "no normal return found in the symbolic run", where(fi, fi.node))
            continue
        kinds = {p: _filter_kind(ctx, fi, p) for p in fi.param_names}
        scalars = [p for p, k in kinds.items() if k == "scalar"]
        for p, k in kinds.items():
            if k not in ("scalar", "collection"):
                continue
            n += 1
            certs = certifiers(ctx, sym, p)
            mine = [ev for ev, _c, _d in certs]
            live = [(ev, c, d) for ev, c, d in certs if S.sat(c)]
            ok, detail, loc = False, "", where(fi, fi.node)
            if k == "scalar":
                direct = [(ev, c, d) for ev, c, d in live if not ev.loops]
                proved = f_or([c for _ev, c, _d in direct])
                failing = [o for o in rets if not implies_path(o.path, proved)]
                ok = not failing
                if ok:
                    detail = f"`{p}` reaches {' / '.join(sorted({d for _e, _c, d in direct}))} on every path before the function returns"
                else:
                    o = failing[0]
                    loc = where_o(o)
                    detail = f"{describe_outcome(o)} is reachable without `{p}` having been handed to a raising graph lookup"
            else:
                good = None
                filtered_out = None
                by_loop: dict[int, list] = {}
                for ev, c, d in live:
                    if ev.loops:
                        by_loop.setdefault(ev.loops[0].n, []).append((ev, c, d))
                for group in by_loop.values():
                    lc = group[0][0].loops[0]
                    if lc.elem is None or not lc.elem.meta or lc.elem.meta[0] != p:
                        continue
                    skip = f_or([atom("{} == {}".format(*sorted([lc.elem.key, q]))) for q in scalars])
                    if lc.filt is not None and S.sat(f_and([f_not(lc.filt[1]), f_not(skip)])):
                        filtered_out = (group[0][0], lc)
                        continue  # the loop runs over a filtered copy that drops more than the elements equal to a scalar filter
                    inside = [(ev, c, d) for ev, c, d in group if len(ev.loops) == 1]
                    if all(not o.loops and must(o.path, lc.pre_path) for o in rets) and inside and implies_path(tuple(lc.pre_path) + (lc.iter_atom, f_not(skip)), _iteration_proves(lc, inside)):
                        good = inside[0]
                        break
                ok = good is not None
                if ok:
                    detail = f"every element of `{p}` is handed to {" / ".join(sorted({d for _e, _c, d in inside}))} on every path (skipped at most when equal to {' / '.join(scalars) or 'nothing'}, which is looked up itself)"
                else:
                    detail = f"an element of `{p}` can escape the raising graph lookup"
                    if filtered_out is not None:
                        detail += f": the loop `{header(filtered_out[1].node)[:60]}` only sees the elements that satisfy `{show(filtered_out[1].filt[1])[:160]}`, which drops more than the element equal to {' / '.join(scalars) or 'a scalar filter'}"
            if not ok:
                hand = _handoffs(sym, p)
                if not mine and hand:
                    res.undecide("C13.R6", f"{fi.relpath}::{fi.qualname}::lookup of {p}", f"`{p}` is handed to `{norm(hand[0].node, 60)}` in {hand[0].ctx.qualname}, which the symbolic run could not follow, and no graph lookup of it was seen: the lookup may happen in there", where(hand[0].ctx, hand[0].node))
                    continue
                if mine and not live:
                    detail += f": the error of `{norm(mine[0].node, 50)}` for an unknown node is caught by a handler ({', '.join(sorted(set(mine[0].handlers) & CATCHES_LOOKUP))})"
                elif live:
                    detail += f" (the lookup `{norm(live[0][0].node, 40)}` in {live[0][0].ctx.qualname} only happens under `{show(live[0][1])[:160]}`)"
                detail += " - a rule naming a module that does not exist gets a verdict instead of a lookup error"
            res.add("C13.R6", f"{fi.relpath}::{fi.qualname}::lookup of {p}", ok, detail, loc, kind="dominance")
    res.floor("C13.R6", 3, n)


def _iteration_proves(lc: S.LoopCtx, inside: list) -> Formula:
    """Disjunction of the conditions (relative to the whole path) under which one iteration of `lc` has certified its element."""
    return f_or([c for _ev, c, _d in inside])


# --------------------------------------------------------------------------- R3 / R4: who raises AssertionError, who catches what


GRAPH_ACCESS = {"successors", "predecessors", "get_edge_data", "direct_successor_nodes", "direct_predecessor_nodes", "parent_child_relationship", "neighbors", "in_edges", "out_edges"}
LOOKUP_ERRORS = {"KeyError", "LookupError", "IndexError", "NetworkXError", "NetworkXException", "NodeNotFound", "ValueError", "TypeError", "AttributeError", "RuntimeError"}


class VerdictTaint:
    """Which values derive from an evaluation ('EV': anything computed from / with an EvaluableArchitecture argument) or from a
    caught AssertionError ('AE').  Flow-insensitive per function, fields per class, inter-procedural through resolved calls,
    deliberately generous (any call that receives a tainted value returns a tainted value)."""

    def __init__(self, repo: Repo) -> None:
        self.repo = repo
        self.T = types_of(repo)
        self.names: dict[str, dict[str, frozenset]] = {}  # function -> local name -> tags
        self.fields: dict[tuple[str, str], frozenset] = {}
        self.rets: dict[str, frozenset] = {}
        self.changed = True
        self._nodes: dict[str, list] = {}
        self._callees: dict[int, list] = {}
        proto = [c for c in repo.classes.values() if c.name == "EvaluableArchitecture"]
        self.ev_classes = {c.fq for c in repo.classes.values() if any(p in repo.mro(c) for p in proto)}
        for f in repo.all_functions():
            env: dict[str, frozenset] = {}
            if not isinstance(f.node, ast.Lambda):
                for prm in f.params:
                    try:
                        t = self.T.param_type(f, prm.arg)
                    except Exception:  # noqa: BLE001
                        t = ("unknown",)
                    if any(m[0] == "cls" and m[1] in self.ev_classes for m in members(t)):
                        env[prm.arg] = frozenset({"EV"})
            for n in own_nodes(f.node):
                if isinstance(n, ast.ExceptHandler) and n.name and n.type is not None:
                    tys = [(repo.resolve_name(f.module, e) or dotted(e)).split(".")[-1] for e in (n.type.elts if isinstance(n.type, ast.Tuple) else [n.type])]
                    if "AssertionError" in tys:
                        env[n.name] = frozenset({"AE"})
            if f.name == "__exit__" and f.cls is not None and f.outer is None and len(f.param_names) >= 3:
                # a context manager of the repository that swallows AssertionError: the pending exception it is handed
                # is a caught verdict, exactly like the name bound by `except AssertionError as e`
                sw = S.exit_suppresses(repo, f.cls) or []
                if {"AssertionError", "<bare>", "Exception", "BaseException"} & set(sw):
                    for prm in f.param_names[1:3]:
                        env[prm] = env.get(prm, frozenset()) | frozenset({"AE"})
            self.names[f.fq] = env
        rounds = 0
        while self.changed and rounds < 12:
            self.changed = False
            rounds += 1
            for f in repo.all_functions():
                self._function(f)

    def _join(self, table: dict, k, tags: frozenset) -> None:
        if tags and not tags <= table.get(k, frozenset()):
            table[k] = table.get(k, frozenset()) | tags
            self.changed = True

    def tags(self, f: FuncInfo, e: ast.AST | None) -> frozenset:
        if e is None:
            return frozenset()
        env = self.names.get(f.fq, {})
        out = frozenset()
        for n in ast.walk(e):
            if isinstance(n, ast.Name) and isinstance(n.ctx, ast.Load):
                out |= env.get(n.id, frozenset())
                if f.outer is not None:
                    out |= self.names.get(f.outer.fq, {}).get(n.id, frozenset())
            elif isinstance(n, ast.Attribute) and isinstance(n.ctx, ast.Load) and isinstance(n.value, ast.Name) and n.value.id in ("self", "cls") and f.cls is not None:
                for c in self.repo.mro(f.cls):
                    out |= self.fields.get((c.fq, n.attr), frozenset())
            elif isinstance(n, ast.Attribute) and isinstance(n.ctx, ast.Load) and self.fields:
                # a field of another object of the repository (`log.messages` with `log = _ViolationLog()`)
                for cfq in self._classes_of(f, n.value):
                    out |= self.fields.get((cfq, n.attr), frozenset())
            elif isinstance(n, ast.Call):
                for c in self.callees(f, n):
                    out |= self.rets.get(c.fq, frozenset())
        return out

    def _classes_of(self, f: FuncInfo, e: ast.expr) -> list[str]:
        """Repository classes (with their ancestors) an expression may be an instance of, by static typing."""
        k = id(e)
        cache = self.__dict__.setdefault("_cls_cache", {})
        if k not in cache:
            out: list[str] = []
            if not isinstance(f.node, ast.Lambda) or f.outer is not None:
                try:
                    t = self.T.expr(f, e)
                except Exception:  # noqa: BLE001
                    t = ("unknown",)
                for m in members(t):
                    ci = self.repo.classes.get(m[1]) if m[0] == "cls" else None
                    if ci is not None:
                        out += [c.fq for c in self.repo.mro(ci) if c.fq not in out]
            cache[k] = out
        return cache[k]

    def callees(self, f: FuncInfo, n: ast.Call) -> list[FuncInfo]:
        k = id(n)
        if k not in self._callees:
            try:
                cs, _how = self.T.callees(f, n, byname_fallback=False)
            except Exception:  # noqa: BLE001
                cs = []
            self._callees[k] = cs
        return self._callees[k]

    def _bind(self, f: FuncInfo, target: ast.AST, tags: frozenset) -> None:
        if not tags:
            return
        for n in ast.walk(target):
            if isinstance(n, ast.Name):
                self._join(self.names[f.fq], n.id, tags)
            elif isinstance(n, ast.Attribute) and isinstance(n.value, ast.Name) and n.value.id == "self" and f.cls is not None:
                self._join(self.fields, (f.cls.fq, n.attr), tags)

    def _function(self, f: FuncInfo) -> None:
        if f.fq not in self._nodes:
            self._nodes[f.fq] = [n for n in own_nodes(f.node) if isinstance(n, (ast.Assign, ast.AnnAssign, ast.AugAssign, ast.NamedExpr, ast.For, ast.AsyncFor, ast.comprehension, ast.With, ast.AsyncWith, ast.Return, ast.Yield, ast.YieldFrom, ast.Call))]
        for n in self._nodes[f.fq]:
            if isinstance(n, ast.Assign):
                t = self.tags(f, n.value)
                for tg in n.targets:
                    self._bind(f, tg, t)
            elif isinstance(n, (ast.AnnAssign, ast.AugAssign, ast.NamedExpr)) and n.value is not None:
                self._bind(f, n.target, self.tags(f, n.value))
            elif isinstance(n, (ast.For, ast.AsyncFor)):
                self._bind(f, n.target, self.tags(f, n.iter))
            elif isinstance(n, ast.comprehension):
                self._bind(f, n.target, self.tags(f, n.iter))
            elif isinstance(n, (ast.With, ast.AsyncWith)):
                for it in n.items:
                    if it.optional_vars is not None:
                        self._bind(f, it.optional_vars, self.tags(f, it.context_expr))
            elif isinstance(n, ast.Return) and n.value is not None:
                self._join(self.rets, f.fq, self.tags(f, n.value))
            elif isinstance(n, (ast.Yield, ast.YieldFrom)) and n.value is not None:
                self._join(self.rets, f.fq, self.tags(f, n.value))
            elif isinstance(n, ast.Call):
                argt = frozenset()
                for a in [*n.args, *[k.value for k in n.keywords]]:
                    argt |= self.tags(f, a)
                if isinstance(n.func, ast.Attribute):
                    recv_t = self.tags(f, n.func.value)
                    if n.func.attr in S.COLL_MUTATORS and argt:
                        self._bind(f, n.func.value, argt)  # x.append(tainted) taints x
                    argt_all = argt | recv_t
                else:
                    argt_all = argt
                for c in self.callees(f, n):
                    params = c.param_names[1:] if (c.is_method and not c.is_staticmethod) else c.param_names
                    for i, a in enumerate(n.args):
                        if i < len(params):
                            self._join(self.names.setdefault(c.fq, {}), params[i], self.tags(f, a))
                    for k in n.keywords:
                        if k.arg in c.param_names:
                            self._join(self.names.setdefault(c.fq, {}), k.arg, self.tags(f, k.value))
                    # a call that receives evaluation data yields evaluation data
                    self._join(self.rets, c.fq, frozenset())
        if isinstance(f.node, ast.Lambda):
            self._join(self.rets, f.fq, self.tags(f, f.node.body))

    def expr(self, f: FuncInfo, e: ast.AST | None) -> frozenset:
        """Tags of an expression, calls with tainted inputs included."""
        if e is None:
            return frozenset()
        out = self.tags(f, e)
        for n in ast.walk(e):
            if isinstance(n, ast.Call):
                for a in [*n.args, *[k.value for k in n.keywords], *([n.func.value] if isinstance(n.func, ast.Attribute) else [])]:
                    out |= self.tags(f, a)
        return out


def assert_statements(repo: Repo) -> list[tuple[FuncInfo | None, ast.Assert, str]]:
    out = []
    for mod in repo.modules.values():
        for n in ast.walk(mod.tree):
            if isinstance(n, ast.Assert):
                out.append((repo.func_of(n), n, mod.relpath))
    return out


class Catch:
    """One place where exceptions raised by a block of statements can be swallowed: an `except` clause, or a `with` block whose
    context manager suppresses them (contextlib.suppress, a repository class whose __exit__ can return a truthy value)."""

    def __init__(self, f: FuncInfo, node: ast.AST, types: list[str], body: list[ast.stmt], named: bool, converts: bool, shown: str) -> None:
        self.f, self.node, self.types, self.body, self.named, self.converts, self.shown = f, node, types, body, named, converts, shown

    @property
    def first(self) -> str:
        return norm(self.body[0], 60) if self.body else ""


def handlers(repo: Repo) -> list[Catch]:
    from core.cfg import exit_kinds

    T = types_of(repo)
    out = []
    for f in repo.all_functions():
        for n in own_nodes(f.node):
            if isinstance(n, ast.ExceptHandler):
                t = parent(n)
                types_ = _handler_types(repo, f, n)
                converts = exit_kinds(n.body) == {"raise"} and not any(isinstance(r, ast.Raise) and r.exc is not None and is_assertion_error(repo, exception_class_name(repo, f, r.exc)) for b in n.body for r in ast.walk(b))
                out.append(Catch(f, n, types_, t.body if isinstance(t, ast.Try) else [], n.name is not None, converts, f"`except {', '.join(types_)}`"))
            elif isinstance(n, (ast.With, ast.AsyncWith)):
                for it in n.items:
                    types_ = S.suppress_call_types(repo, f, it.context_expr)
                    if types_ is not None:
                        if types_:
                            out.append(Catch(f, n, types_, n.body, False, False, f"`with {norm(it.context_expr, 50)}`"))
                        continue
                    try:
                        t = T.expr(f, it.context_expr)
                    except Exception:  # noqa: BLE001
                        continue
                    for m in members(t):
                        ci = repo.classes.get(m[1]) if m[0] == "cls" else None
                        sw = S.exit_suppresses(repo, ci) if ci is not None else None
                        if sw:
                            ex = repo.lookup_method(ci, "__exit__")
                            named = any(isinstance(x, ast.Name) and isinstance(x.ctx, ast.Load) and x.id in ex.param_names[1:3] for x in own_nodes(ex.node))
                            out.append(Catch(f, n, sw, n.body, named, False, f"`with {norm(it.context_expr, 40)}` ({ci.name}.__exit__ swallows {', '.join(sw)})"))
    return out


def _handler_types(repo: Repo, f: FuncInfo, h: ast.ExceptHandler) -> list[str]:
    if h.type is None:
        return ["<bare>"]
    return [(repo.resolve_name(f.module, e) or dotted(e)).split(".")[-1] for e in (h.type.elts if isinstance(h.type, ast.Tuple) else [h.type])]


def assertion_raises(repo: Repo) -> list[tuple[FuncInfo, ast.Raise]]:
    return [(f, r) for f in repo.all_functions() for r in own_nodes(f.node) if isinstance(r, ast.Raise) and r.exc is not None and is_assertion_error(repo, exception_class_name(repo, f, r.exc))]


def handler_verdict(repo: Repo, taint: VerdictTaint, h: Catch) -> tuple[bool, str]:
    T = types_of(repo)
    f, types_, shown = h.f, h.types, h.shown
    repo_calls = []
    graph_access = []
    for s in h.body:
        for c in ast.walk(s):
            if isinstance(c, ast.Call):
                try:
                    cs, how = T.callees(f, c, byname_fallback=False)
                except Exception:  # noqa: BLE001
                    cs = []
                if cs:
                    repo_calls.append(norm(c, 50))
                if isinstance(c.func, ast.Attribute) and c.func.attr in GRAPH_ACCESS:
                    graph_access.append(norm(c, 50))
            if isinstance(c, ast.Subscript) and "graph" in norm(c.value).lower():
                graph_access.append(norm(c, 50))
    if h.converts and "AssertionError" not in types_:
        return True, f"{shown} always re-raises (as a non-AssertionError exception): nothing is swallowed"
    if any(x in ("<bare>", "Exception", "BaseException") for x in types_):
        return False, f"broad handler {shown} in {f.qualname}: configuration and lookup errors raised below it are swallowed or turned into something else"
    if "AssertionError" in types_:
        # legitimate only where the caught verdict is passed on: some AssertionError raise of the same class / function depends on it
        scope = [(g, r) for g, r in assertion_raises(repo) if g is f or (f.cls is not None and g.cls is f.cls)]
        passed_on = [(g, r) for g, r in scope if "AE" in (taint.expr(g, r.exc) | frozenset().union(*[taint.expr(g, e) for e, _p in conds(g, r)] or [frozenset()]))]
        if not passed_on or not h.named:
            return False, f"{f.qualname} catches AssertionError ({shown}) without passing the caught verdict on in an AssertionError of its own: a violated rule can be turned into a pass"
        return True, f"the AssertionError caught by {shown} is passed on by `{norm(passed_on[0][1], 60)}` in {passed_on[0][0].qualname} (aggregation, see C07.R2)"
    if any(x in LOOKUP_ERRORS for x in types_):
        if repo_calls or graph_access:
            return False, f"{shown} in {f.qualname} wraps {', '.join((graph_access + repo_calls)[:3])}: the lookup error that rejects an unknown module name is swallowed and a verdict is produced"
        return True, f"{shown} wraps only builtin container operations ({h.first})"
    others = [x for x in types_ if not is_assertion_error(repo, x)]
    if isinstance(h.node, (ast.With, ast.AsyncWith)) and (repo_calls or graph_access):
        return False, f"{shown} in {f.qualname} wraps {', '.join((graph_access + repo_calls)[:3])} and silently drops {', '.join(others)}: a configuration error raised in the block no longer reaches the caller"
    return True, f"{shown} does not interfere with configuration or lookup errors"


def run_r3_r4(ctx: Ctx, res: Result) -> None:
    repo = ctx.repo
    taint = VerdictTaint(repo)
    n = 0
    for f in repo.all_functions():
        for r in own_nodes(f.node):
            if not isinstance(r, ast.Raise):
                continue
            n += 1
            if r.exc is None:
                if not any(isinstance(a, ast.ExceptHandler) for a in ancestors(r)):
                    res.add("C13.R3", repo.key(f, r) + " [bare raise]", False, "bare `raise` outside a handler", where(f, r))
                continue
            name = exception_class_name(repo, f, r.exc)
            if not is_assertion_error(repo, name):
                res.add("C13.R3", repo.key(f, r), True, f"raises {name.split('.')[-1]}", where(f, r), nontrivial=False, kind="effect")
                continue
            tg = taint.expr(f, r.exc)
            for e, _pol in conds(f, r):
                tg |= taint.expr(f, e)
            ok = bool(tg)
            res.add(
                "C13.R3",
                repo.key(f, r),
                ok,
                f"raises AssertionError from {'evaluation results' if 'EV' in tg else 'caught verdicts'} (verdict site)" if ok else f"{f.qualname} raises AssertionError (`{norm(r, 80)}`) although neither its condition nor its message derives from an evaluation: a configuration / lookup problem would be indistinguishable from an architectural violation",
                where(f, r),
                kind="effect",
            )
    res.floor("C13.R3", 5, n)
    asserts = assert_statements(repo)
    for f, a, rel in asserts:
        res.add("C13.R3", (repo.key(f, a) if f else f"{rel}::<module>::{norm(a)}"), False, f"`{norm(a, 80)}`: an `assert` statement raises AssertionError for a non-architectural reason (and disappears under -O)", f"{rel}:{a.lineno}", kind="effect")
    res.add("C13.R3", "src::no assert statement", not asserts, f"{len(repo.modules)} modules contain no `assert` statement", kind="effect")
    # positive fixture for the assert / handler detectors (their expected count on the real tree is zero)
    import shutil
    import tempfile
    from pathlib import Path

    fx = Path(__file__).resolve().parents[1] / "fixtures" / "raises_and_handlers.py"
    tmp = Path(tempfile.mkdtemp(prefix="pta-fixture-"))
    try:
        (tmp / "src" / "pytestarch").mkdir(parents=True)
        shutil.copy(fx, tmp / "src" / "pytestarch" / "fixture_raises.py")
        shutil.copy(fx.with_name("suppressing_managers.py"), tmp / "src" / "pytestarch" / "fixture_managers.py")
        frepo = Repo(tmp)
        ftaint = VerdictTaint(frepo)
        offending = [h for h in handlers(frepo) if handler_verdict(frepo, ftaint, h)[0] is False]
        if len(assert_statements(frepo)) != 1 or sorted(h.f.name for h in offending if isinstance(h.node, ast.ExceptHandler)) != ["check", "swallow", "verdict_to_pass"]:
            raise AnalysisError("C13 fixture: assert / handler detectors do not recognise engine/fixtures/raises_and_handlers.py")
        if sorted(h.f.name for h in offending if not isinstance(h.node, ast.ExceptHandler)) != ["suppress_everything", "swallow_all", "verdict_dropped"] or len([h for h in handlers(frepo) if not isinstance(h.node, ast.ExceptHandler)]) != 4:
            raise AnalysisError("C13 fixture: the detector of suppressing context managers does not recognise engine/fixtures/suppressing_managers.py")
        res.add("C13.R4", "fixture::engine/fixtures/raises_and_handlers.py", True, "positive fixture recognised (1 assert, 3 offending handlers)", nontrivial=False)
        res.add("C13.R4", "fixture::engine/fixtures/suppressing_managers.py", True, "positive fixture recognised (3 offending `with` blocks: swallowing __exit__, suppress(Exception), suppress(AssertionError); 1 harmless suppress(KeyError); a non-suppressing manager is no handler)", nontrivial=False)
    finally:
        shutil.rmtree(tmp, ignore_errors=True)
    for h in handlers(repo):
        ok, detail = handler_verdict(repo, taint, h)
        res.add("C13.R4", repo.key(h.f, h.node) + f" [{h.first}]", ok, detail, where(h.f, h.node), kind="effect")


def run(repo: Repo) -> Result:
    res = Result("C13")
    res.explanation = (
        "Decides, per public entry point (not per call history), that undefined or incomplete specifications are rejected before a verdict "
        "can exist. The entry points are interpreted symbolically (rules/c13_sym.py: private helpers followed, literal tables unrolled, "
        "first worklist iteration peeled); an obligation holds when no normal return / entry into an AssertionError site / AssertionError "
        "raise is consistent with the invalid specification: (R7) Rule without verb, import type, subject or object; (R1) 'anything' with "
        "a verb other than should_not, and no rewrite of the configuration hides a value from a later check; (R5) should_not with another "
        "verb (requirement class and pipeline); (R2) module lists before a side was selected, LayerRule methods before layers_that / "
        "based_on, DiagramRule without file or tags (each tag's own search must reject its absence; two independently found tag positions "
        "must be related before the text between them is used), invalid option combinations and module_path outside root_path of "
        "get_evaluable_architecture; (R6) every module filter handed to a search reaches networkx' raising successors/predecessors on "
        "every path, every requested layer name is a raising subscript; (R3) AssertionError is raised only from evaluation results or "
        "caught verdicts, no assert statement; (R4) no broad handler, no lookup-error handler around graph accesses or repo calls, caught "
        "AssertionErrors are passed on - `with` blocks whose context manager swallows exceptions (contextlib.suppress, a repository class "
        "whose __exit__ can return a truthy value) count as handlers, in the symbolic runs as well."
    )
    res.not_decided = "arbitrary call sequences: each obligation is about one call of one public method on an arbitrary object state; histories that defeat a check through state the check does not read are out of scope (see C16.R2). Regex filters: C11.R2."
    res.trusted_base = [
        "networkx raises NetworkXError for successors/predecessors of a missing node",
        "pathlib.Path.relative_to raises ValueError",
        "dict subscripts raise KeyError",
        "the symbolic executor over-approximates path conditions (unknown constructs become free atoms / havoc)",
    ]
    ctx = Ctx(repo)

    def contained(rule: str, what: str, fn, *args):
        """A symbolic run that gives up (recursion depth, path condition too large) leaves the obligations of this group
        undecided - the other groups are still decided."""
        try:
            return fn(ctx, res, *args)
        except AnalysisError as e:
            res.undecide(rule, f"src::{what}", f"the symbolic run gave up: {e}", "")
            return None

    roles = contained("C13.R7", "Rule fluent API roles", rule_roles)
    contained("C13.R2", "Rule.assert_applies pipeline", run_rule_pipeline, roles)
    contained("C13.R2", "Rule side guard", run_side_guard, roles)
    contained("C13.R2", "LayerRule", run_layer_rule)
    contained("C13.R2", "DiagramRule", run_diagram_rule)
    contained("C13.R2", "get_evaluable_architecture", run_entry_point)
    contained("C13.R3", "raises and handlers", run_r3_r4)
    contained("C13.R6", "graph lookups", run_lookups)
    return res
