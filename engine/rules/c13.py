"""C13 - undefined or incomplete specifications never produce a verdict.

All rules are decided on *symbolic runs* of public entry points (rules/c13_sym.py): the entry point is interpreted with symbolic
object state, private helpers are followed inter-procedurally, and the rule asks whether an outcome that would be a verdict
(normal return, call into an AssertionError site) is consistent with an invalid specification.  Private names, helper
structure, early returns, table-driven validators and setattr/getattr spellings do not matter; fields are found by the
*role* the public fluent API gives them (`should()` writes the 'should' flag, `from_file()` writes the diagram path, ...).

  C13.R1  validation before rewrite: no rewrite of the configuration that precedes a check removes what the check must see
  C13.R2  must-pass-through: on no path does an incomplete / contradictory Rule, LayerRule, DiagramRule or architecture request
          reach evaluation (validators, None-guards, option guards, relative_to, diagram tags)
  C13.R3  who may raise AssertionError: only raises that depend on evaluation results (or re-raise caught verdicts); no `assert`
  C13.R4  handler inventory: no broad handler, no lookup-error handler around graph accesses or validators
  C13.R5  contradictory verbs: should_not combined with should / should_only is rejected (requirement class and rule pipeline)
  C13.R6  unknown names reach a raising lookup on every path (searches down to networkx' successors/predecessors, layer names)
  C13.R7  the required-configuration check covers subject, verb, import type and object
"""

from __future__ import annotations

import ast

from core.guards import FALSE, TRUE, Formula, atom, atoms_of, f_and, f_not, f_or, show
from core.loader import AnalysisError, ClassInfo, FuncInfo, Repo, ancestors, header, norm, own_nodes, parent
from core.report import Result
from core.types import members

from . import c13_sym as S
from .c13_sym import Coll, Const, Opq, Phi, Ref, exception_bases, exception_class_name, implies, is_assertion_error, key, sat
from .common import callees_of, conds, dotted, reachable_funcs, types_of, where

PKG = "pytestarch"


class Ctx:
    def __init__(self, repo: Repo) -> None:
        self.repo = repo
        self.T = types_of(repo)
        self._sites: set[str] | None = None
        self._reach: dict[str, bool] = {}

    # public API anchors -----------------------------------------------------------
    def public_class(self, name: str) -> ClassInfo:
        fq = self.repo._canonical(f"{PKG}.{name}")
        ci = self.repo.classes.get(fq)
        if ci is None:
            cands = [c for c in self.repo.classes.values() if c.name == name]
            if len(cands) != 1:
                raise AnalysisError(f"public class {PKG}.{name} not found")
            ci = cands[0]
        return ci

    def public_func(self, name: str) -> FuncInfo:
        fq = self.repo._canonical(f"{PKG}.{name}")
        modname, _, fn = fq.rpartition(".")
        m = self.repo.modules.get(modname)
        if m is None or fn not in m.functions:
            raise AnalysisError(f"public function {PKG}.{name} not found")
        return m.functions[fn]

    def method(self, ci: ClassInfo, name: str) -> FuncInfo:
        m = self.repo.lookup_method(ci, name)
        if m is None or m.is_abstract:
            raise AnalysisError(f"public method {ci.name}.{name} not found")
        return m

    # verdict sites ------------------------------------------------------------------
    @property
    def sites(self) -> set[str]:
        """Functions with an own `raise AssertionError` (the places where a verdict is signalled)."""
        if self._sites is None:
            self._sites = set()
            for f in self.repo.all_functions():
                for n in own_nodes(f.node):
                    if isinstance(n, ast.Raise) and n.exc is not None and is_assertion_error(self.repo, exception_class_name(self.repo, f, n.exc)):
                        self._sites.add(f.fq)
        return self._sites

    def reaches_site(self, f: FuncInfo) -> bool:
        if f.fq not in self._reach:
            self._reach[f.fq] = any(g.fq in self.sites for g in reachable_funcs(self.repo, [f], byname=False))
        return self._reach[f.fq]

    def stop(self, callees: list[FuncInfo]) -> bool:
        if any(c.fq in self.sites for c in callees):
            return True
        return len(callees) > 1 and any(self.reaches_site(c) for c in callees)

    def run(self, fi: FuncInfo, init=None, descend=None, stop="default") -> S.Sym:
        return S.run(self.repo, fi, stop=self.stop if stop == "default" else stop, descend=descend, init=init)


def bad_outcomes(sym: S.Sym) -> list[S.Outcome]:
    """Outcomes that amount to a verdict: the entry returns normally, a verdict site is entered, or AssertionError is raised."""
    out = []
    for o in sym.outcomes:
        if o.kind in ("return", "verdict"):
            out.append(o)
        elif o.kind == "raise" and is_assertion_error(sym.repo, o.exc):
            out.append(o)
    return out


def rejections(sym: S.Sym) -> list[S.Outcome]:
    return [o for o in sym.outcomes if o.kind == "raise" and not is_assertion_error(sym.repo, o.exc)]


def where_o(o: S.Outcome) -> str:
    return f"{o.ctx.relpath}:{getattr(o.node, 'lineno', 0)}" if o.ctx is not None else ""


def describe_outcome(o: S.Outcome) -> str:
    if o.kind == "verdict":
        return f"the call `{norm(o.node, 60)}` in {o.ctx.qualname} (enters the verdict site {o.callee.split('::')[-1]})"
    if o.kind == "return":
        return f"the normal return of {o.ctx.qualname}" + (f" (`{header(o.node)}`)" if isinstance(o.node, ast.Return) else "")
    return f"`{norm(o.node, 60)}` in {o.ctx.qualname}"


def consistent(o: S.Outcome, want: Formula) -> bool:
    return sat(f_and([o.cond, want]))


def final_writes(sym: S.Sym, prefix: str = "self.") -> dict[str, S.Val]:
    """Attribute keys (below `prefix`) with the value they have when the entry returns normally (only unconditional ones)."""
    rets = [o for o in sym.outcomes if o.kind == "return"]
    out: dict[str, S.Val] = {}
    for i, o in enumerate(rets):
        cur = {k: v for k, v in (o.store or {}).items() if k.startswith(prefix) and not isinstance(v, S.CollState)}
        if i == 0:
            out = cur
        else:
            out = {k: v for k, v in out.items() if cur.get(k) == v}
    return out


# --------------------------------------------------------------------------- roles of the Rule configuration


FLUENT_VERBS = ("should", "should_only", "should_not")


def rule_roles(ctx: Ctx, res: Result) -> dict[str, str] | None:
    """role -> attribute key, derived from what the public fluent methods of `Rule` write."""
    rule = ctx.public_class("Rule")

    def writes(name: str, init=None) -> dict[str, S.Val]:
        return final_writes(ctx.run(ctx.method(rule, name), init=init))

    roles: dict[str, str] = {}
    problems: list[str] = []
    w = {n: writes(n) for n in (*FLUENT_VERBS, "modules_that", "import_modules_that", "be_imported_by_modules_that", "import_modules_except_modules_that", "import_anything")}
    for v in FLUENT_VERBS:
        ks = [k for k, val in w[v].items() if val == Const(True)]
        if len(ks) == 1:
            roles[v] = ks[0]
        else:
            problems.append(f"{v}() sets {ks or 'no flag'}")
    imp, rev = w["import_modules_that"], w["be_imported_by_modules_that"]
    ks = [k for k, val in imp.items() if val == Const(True) and rev.get(k) == Const(False)]
    if len(ks) == 1:
        roles["import"] = ks[0]
    else:
        problems.append(f"import_modules_that()/be_imported_by_modules_that() differ in {ks or 'no flag'}")
    ks = [k for k, val in w["modules_that"].items() if val == Const(True) and imp.get(k) == Const(False)]
    if len(ks) == 1:
        roles["side"] = ks[0]
    else:
        problems.append(f"modules_that()/import_modules_that() switch {ks or 'no side marker'}")
    ks = [k for k, val in w["import_modules_except_modules_that"].items() if val == Const(True) and k not in imp]
    if len(ks) == 1:
        roles["except"] = ks[0]
    else:
        problems.append(f"import_modules_except_modules_that() additionally sets {ks or 'nothing'}")
    ks = [k for k, val in w["import_anything"].items() if val == Const(True) and k not in imp]
    if len(ks) == 1:
        roles["anything"] = ks[0]
    else:
        problems.append(f"import_anything() additionally sets {ks or 'nothing'}")
    if "side" in roles:
        for role, flag in (("subject", True), ("object", False)):
            def init(sym: S.Sym, st: S.State, flag=flag) -> None:
                st.store[roles["side"]] = Const(flag)

            ww = writes("are_named", init)
            ks = [k for k, val in ww.items() if k != roles["side"] and not isinstance(val, Const)]
            if len(ks) == 1:
                roles[role] = ks[0]
            else:
                problems.append(f"are_named() with the {'subject' if flag else 'object'} side selected stores into {ks or 'nothing'}")
    if problems:
        res.undecide("C13.R7", f"{rule.module.relpath}::Rule::fluent API roles", "cannot tell which fields the fluent API writes: " + "; ".join(problems), rule.module.relpath)
        return None
    return roles


def current_value(sym: S.Sym, store: dict, k: str) -> S.Val:
    """Value found under the attribute chain `k` (e.g. self._configuration.should) in the given store."""
    parts = k.split(".")
    st = S.State({}, dict(store), [])
    v: S.Val = Opq(parts[0], frozenset({parts[0]}), kind="param")
    for a in parts[1:]:
        v = sym.get_attr(v, a, st)
    return v


def rewritten_under(sym: S.Sym, o: S.Outcome, want: Formula, keys: list[str]) -> str | None:
    """A role key whose value at outcome `o` is not the caller's value on some assignment satisfying want and the path."""
    for k in keys:
        v = current_value(sym, o.store or {}, k)
        alts = v.alts if isinstance(v, Phi) else ((TRUE, v),)
        for c, a in alts:
            if not (isinstance(a, Opq) and a.key == k) and sat(f_and([c, o.cond, want])):
                return k
    return None


def run_rule_pipeline(ctx: Ctx, res: Result) -> None:
    repo = ctx.repo
    rule = ctx.public_class("Rule")
    roles = rule_roles(ctx, res)
    if roles is None:
        return
    aa = ctx.method(rule, "assert_applies")
    sym = ctx.run(aa)
    bad = bad_outcomes(sym)
    if not any(o.kind == "verdict" for o in bad):
        res.undecide("C13.R2", repo.key(aa, "evaluation point"), "no call into an AssertionError site is reachable from Rule.assert_applies: the evaluation point was not recognised", where(aa, aa.node))
        return
    b = lambda r: atom(f"bool({roles[r]})")  # noqa: E731
    verb = f_or([b(v) for v in FLUENT_VERBS])
    wants: list[tuple[str, str, Formula, list[str]]] = [
        ("C13.R7", "missing verb", f_not(verb), [roles[v] for v in FLUENT_VERBS]),
        ("C13.R7", "missing import type", atom(f"{roles['import']} is None"), [roles["import"]]),
        ("C13.R7", "missing subject", f_and([f_not(b("anything")), f_not(b("subject"))]), [roles["subject"]]),
        ("C13.R7", "missing object", f_and([f_not(b("anything")), f_not(b("object"))]), [roles["object"]]),
        ("C13.R1", "'anything' with a verb other than should_not", f_and([b("anything"), f_not(b("should_not"))]), [roles["anything"], roles["should_not"]]),
        ("C13.R5", "should_not combined with another verb", f_and([b("should_not"), f_or([b("should"), b("should_only")])]), [roles[v] for v in FLUENT_VERBS]),
    ]
    rej = rejections(sym)
    dominance_ok = True
    beh_ok = run_behavior_class(ctx, res, sym, roles)
    for rid, label, want, keys in wants:
        construct = f"{aa.relpath}::Rule.assert_applies::rejects {label}"
        hits = [o for o in bad if consistent(o, want)]
        if rid == "C13.R5" and not beh_ok:
            continue  # consequence of the violated requirement-class obligation reported above
        if not hits:
            res.add(rid, construct, True, f"no evaluation, normal return or AssertionError is possible with {label} (`{show(want)}`)", where(aa, aa.node), kind="decision-table")
            continue
        o = hits[0]
        k = rewritten_under(sym, o, want, keys)
        others = f_and([f_not(w2) for _r, l2, w2, _k in wants if l2 != label])
        rejected_somewhere = any(sat(f_and([r.cond, want, others])) or sat(f_and([r.cond, want])) and rid != "C13.R7" for r in rej)
        if k is not None:
            rule_id = "C13.R1"
            detail = f"`{k.split('.')[-1]}` is rewritten before the check that must see the caller's value: with {label} (`{show(want)}`) {describe_outcome(o)} is reached - the invalid specification is evaluated instead of rejected"
        elif rejected_somewhere or rid == "C13.R5":
            rule_id = "C13.R2"
            dominance_ok = False
            detail = f"with {label} (`{show(want)}`) {describe_outcome(o)} is reached before / without the check that rejects it"
        else:
            rule_id = rid
            detail = f"no check rejects {label}: with `{show(want)}` {describe_outcome(o)} is reached"
        res.add(rule_id, construct, False, detail, where_o(o), kind="dominance")
    res.add("C13.R2", f"{aa.relpath}::Rule.assert_applies::validation dominates evaluation", dominance_ok, "every rejecting check lies on all paths to the evaluation" if dominance_ok else "a verdict can be reached on a path that bypasses a rejecting check (see the obligations above)", where(aa, aa.node), kind="dominance")


def run_behavior_class(ctx: Ctx, res: Result, pipeline: S.Sym, roles: dict[str, str]) -> bool:
    """C13.R5 on the class that receives the three verb flags in its constructor (BehaviorRequirement by role)."""
    repo = ctx.repo
    verb_keys = {roles[v]: v for v in FLUENT_VERBS}
    target = None
    for ev in pipeline.events:
        if ev.kind != "ctor":
            continue
        ci = repo.classes.get(ev.name)
        init = repo.lookup_method(ci, "__init__") if ci else None
        if init is None:
            continue
        call = ev.node
        params = init.param_names[1:]
        bound: dict[str, str] = {}
        for i, a in enumerate(ev.args[: len(call.args)]):
            if i < len(params) and isinstance(a, (Opq, Phi)):
                for k in verb_keys:
                    if key(a) == k or (isinstance(a, Phi) and all(key(x) == k for _c, x in a.alts)):
                        bound[verb_keys[k]] = params[i]
        for kw, a in zip(call.keywords, ev.args[len(call.args):]):
            for k in verb_keys:
                if key(a) == k and kw.arg:
                    bound[verb_keys[k]] = kw.arg
        if len(bound) == 3:
            target = (ci, init, bound)
            break
    if target is None:
        return True  # no separate requirement class: the pipeline obligation alone decides
    ci, init, bound = target
    sym = ctx.run(init, stop=None)
    p = lambda v: atom(f"bool({bound[v]})")  # noqa: E731
    want = f_and([p("should_not"), f_or([p("should"), p("should_only")])])
    hits = [o for o in sym.outcomes if o.kind == "return" and consistent(o, want)]
    bad_cls = [o for o in sym.outcomes if o.kind == "raise" and is_assertion_error(repo, o.exc)]
    ok = not hits and not bad_cls
    construct = f"{init.relpath}::{ci.name}::contradictory verbs"
    if ok:
        res.add("C13.R5", construct, True, f"constructing {ci.name} with should_not and should / should_only raises ({', '.join(sorted({o.exc.split('.')[-1] for o in rejections(sym)}))})", where(init, init.node), kind="decision-table")
    elif bad_cls:
        res.add("C13.R5", construct, False, f"{ci.name} signals contradictory verbs with AssertionError", where_o(bad_cls[0]), kind="decision-table")
    else:
        o = hits[0]
        rj = f_or([r.cond for r in rejections(sym)])
        res.add("C13.R5", construct, False, f"{ci.name} can be constructed with should_not combined with another verb: it raises under `{show(rj)[:200]}`, required: `{show(want)}` (should_not combined with should / should_only must be rejected)", where_o(o), kind="decision-table")
    return ok


# --------------------------------------------------------------------------- R2: subject or object first


MODULE_SPECIFIERS = ("are_named", "are_sub_modules_of", "have_name_matching", "have_name_containing")


def run_side_guard(ctx: Ctx, res: Result, roles: dict[str, str] | None) -> None:
    """A module list given before `modules_that()` / an import type selected a side must be rejected."""
    if roles is None:
        return
    rule = ctx.public_class("Rule")
    want = atom(f"{roles['side']} is None")
    for name in MODULE_SPECIFIERS:
        m = ctx.repo.lookup_method(rule, name)
        if m is None or m.is_abstract:
            continue
        sym = ctx.run(m)
        hits = [o for o in bad_outcomes(sym) if consistent(o, want)]
        ok = not hits
        res.add(
            "C13.R2",
            f"{m.relpath}::Rule.{name}::subject or object first",
            ok,
            f"{name}() raises while neither a rule subject nor a rule object has been announced" if ok else f"{name}() can complete ({describe_outcome(hits[0])}) although no rule subject or object was announced (`{show(want)}`): an object given before a subject is accepted",
            where_o(hits[0]) if hits else where(m, m.node),
            kind="dominance",
        )


# --------------------------------------------------------------------------- R2 / R6: LayerRule


def _ref_of_class(v: S.Val, fq: str) -> bool:
    if isinstance(v, Ref):
        return v.cls == fq
    if isinstance(v, Phi):
        return any(_ref_of_class(a, fq) for _c, a in v.alts)
    return False


def run_layer_rule(ctx: Ctx, res: Result) -> None:
    repo = ctx.repo
    lr = ctx.public_class("LayerRule")
    rule = ctx.public_class("Rule")
    based_on = ctx.method(lr, "based_on")
    layers_that = ctx.method(lr, "layers_that")
    # roles: the attribute that receives the architecture, the attribute that receives the freshly created module rule
    arch_keys = [k for k, v in final_writes(ctx.run(based_on)).items() if isinstance(v, Opq) and v.kind == "param"]
    rule_keys = [k for k, v in final_writes(ctx.run(layers_that)).items() if _ref_of_class(v, rule.fq)]
    if len(arch_keys) != 1 or len(rule_keys) != 1:
        res.undecide("C13.R2", f"{lr.module.relpath}::LayerRule::state roles", f"cannot tell where based_on() stores the architecture ({arch_keys}) / layers_that() the module rule ({rule_keys})", lr.module.relpath)
        return
    k_arch, k_rule = arch_keys[0], rule_keys[0]
    no_rule, no_arch = atom(f"{k_rule} is None"), atom(f"{k_arch} is None")
    n = 0
    for name, m in sorted(lr.methods.items()):
        if name.startswith("_") or m.is_property or m.is_abstract:
            continue
        if m is based_on:
            want, label = f_not(no_arch), "a second based_on()"
        elif m is layers_that:
            want, label = no_arch, "layers_that() before based_on()"
        else:
            want, label = no_rule, f"{name}() before layers_that()"
        sym = ctx.run(m)
        hits = [o for o in bad_outcomes(sym) if consistent(o, want)]
        n += 1
        ok = not hits
        res.add(
            "C13.R2",
            f"{m.relpath}::LayerRule.{name}::ordering guard",
            ok,
            f"{label} raises a configuration error" if ok else f"{label} is not rejected: with `{show(want)}` {describe_outcome(hits[0])} is reached - the incomplete call chain continues (or fails with an unspecific error) instead of raising a configuration error",
            where_o(hits[0]) if hits else where(m, m.node),
            kind="dominance",
        )
    res.floor("C13.R2.layer", 4, n)
    # R6: every requested layer name indexes the architecture with a raising subscript
    an = ctx.method(lr, "are_named")
    p = an.param_names[1]
    sym = ctx.run(an)
    rets = [o for o in sym.outcomes if o.kind == "return"]
    ok, detail = False, f"are_named() never uses a requested layer name as a raising subscript of the layer definition: a rule naming a layer that was never defined gets a verdict"
    for ev in sym.events:
        if ev.kind != "subscript" or not ev.args:
            continue
        idx = ev.args[0]
        if not (isinstance(idx, Opq) and idx.kind in ("elem", "param") and idx.deps == frozenset({p})):
            continue
        if not any(m_[0] == "b" and m_[1] == "dict" for m_ in members(ev.recv_type)):
            continue
        if any(h in ("KeyError", "LookupError", "Exception", "BaseException", "<bare>") for h in ev.handlers):
            detail = f"the KeyError of `{norm(ev.node, 50)}` for an undefined layer is caught"
            continue
        if idx.kind == "param":
            good = all(implies(o.cond, ev.cond) for o in rets)
        else:
            loops = [lc for lc in ev.loops if lc.elem is not None and lc.elem.key == idx.key.split("[")[0] or (lc.elem is not None and idx.key.startswith(lc.elem.key))]
            good = bool(loops) and loops[0].elem.meta and loops[0].elem.meta[0] == p and all(implies(o.cond, S.conj(loops[0].pre_path)) for o in rets) and implies(f_and([S.conj(loops[0].pre_path), loops[0].iter_atom]), ev.cond)
        if good:
            ok, detail = True, f"each requested layer name is looked up with `{norm(ev.node, 50)}` (KeyError for an undefined layer) on every path"
            break
        detail = f"`{norm(ev.node, 50)}` is not evaluated for every requested layer on every path: a rule naming a layer that was never defined can get a verdict"
    if not rets:
        res.undecide("C13.R6", repo.key(an, "layer lookup"), "LayerRule.are_named never returns normally in the symbolic run", where(an, an.node))
    else:
        res.add("C13.R6", f"{an.relpath}::LayerRule.are_named::every requested layer is looked up", ok, detail, where(an, an.node), kind="dominance")


def run(repo: Repo) -> Result:
    res = Result("C13")
    ctx = Ctx(repo)
    roles = rule_roles(ctx, res)
    run_side_guard(ctx, res, roles)
    run_layer_rule(ctx, res)
    return res
