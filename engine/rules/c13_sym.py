"""Merge-based symbolic execution of repository functions (used by the C13 rules; nothing from /repo is executed).

A function is *interpreted* over symbolic values: parameters and unread attributes are opaque values identified by a canonical
key (`self._configuration.should`, `elem(dependents).identifier`), conditions become propositional formulas over atoms of
these keys (`bool(K)`, `K is None`, `K1 == K2`, `K in C`), branches are executed on both sides and merged (phi values), calls
of uniquely resolved repo functions are interpreted inter-procedurally (bounded depth, no recursion), literal tables are
unrolled (`for a, b in ((..), (..))`, comprehensions over them), the first iteration of `while W:` is peeled when `W` is
known to be non-empty, other loops are executed once abstractly (havoc).

The run yields
  outcomes : normal returns / explicit raises (class resolved) / "verdict" points (calls that may reach an AssertionError site),
             each with the path condition under which it happens,
  events   : library calls, raising subscripts, collection mutations, membership tests - each with the path condition, the
             enclosing abstract loops and the enclosing exception handlers.

Rules ask questions such as "is there a normal return whose path condition is consistent with `self._rule is None`?" or
"does every normal return imply the condition of a `successors(<value derived from p>)` call?".  Extract-method, inline,
early-return, table-driven and setattr/getattr refactorings leave the answers unchanged.
"""

from __future__ import annotations

import ast
import itertools
from dataclasses import dataclass, field, replace as dc_replace
from typing import Callable

from core.guards import FALSE, TRUE, Formula, atom, atoms_of, evaluate, f_and, f_not, f_or, show
from core.loader import AnalysisError, ClassInfo, FuncInfo, Repo, header, norm, own_nodes
from core.types import members

from .common import dotted, types_of

MAX_ATOMS = 20
MAX_DEPTH = 7
MAX_UNROLL = 24

# --------------------------------------------------------------------------- formulas


def _none_constraints(names: list[str]) -> list[tuple[str, str]]:
    """Pairs (`K is None`, `bool(K)`) that cannot both hold."""
    out = []
    s = set(names)
    for n in names:
        if n.endswith(" is None"):
            b = f"bool({n[: -len(' is None')]})"
            if b in s:
                out.append((n, b))
    return out


def _src(f: Formula, idx: dict[str, int]) -> str:
    tag = f[0]
    if tag == "const":
        return "True" if f[1] else "False"
    if tag == "atom":
        return f"e[{idx[f[1]]}]"
    if tag == "not":
        return f"(not {_src(f[1], idx)})"
    sep = " and " if tag == "and" else " or "
    return "(" + sep.join(_src(g, idx) for g in f[1]) + ")" if f[1] else ("True" if tag == "and" else "False")


_sat_cache: dict[str, bool] = {}


def sat(f: Formula, constraints: Formula = TRUE) -> bool:
    """Satisfiability by enumeration of the atoms (formulas are compiled to Python expressions; results are cached)."""
    if f == FALSE or constraints == FALSE:
        return False
    names = sorted(atoms_of(f) | atoms_of(constraints))
    if not names:
        return evaluate(f, {}) and evaluate(constraints, {})
    if len(names) > MAX_ATOMS:
        raise AnalysisError(f"path condition over {len(names)} atoms exceeds the enumeration bound {MAX_ATOMS}")
    idx = {n: i for i, n in enumerate(names)}
    parts = [_src(f, idx)]
    if constraints != TRUE:
        parts.append(_src(constraints, idx))
    for a, b in _none_constraints(names):
        parts.append(f"(not (e[{idx[a]}] and e[{idx[b]}]))")
    src = " and ".join(parts)
    ck = f"{len(names)}|{src}"
    hit = _sat_cache.get(ck)
    if hit is not None:
        return hit
    fn = eval("lambda e: " + src)  # noqa: S307 - the source is generated above from formula constructors only (e[i] / and / or / not)
    res = False
    for values in itertools.product((False, True), repeat=len(names)):
        if fn(values):
            res = True
            break
    if len(_sat_cache) < 20000:
        _sat_cache[ck] = res
    return res


def cone(path, goal_atoms: set[str]) -> list[Formula]:
    """Conjuncts of `path` that share atoms (transitively) with `goal_atoms`.  The other conjuncts are over disjoint atoms and
    cannot influence the satisfiability of path AND goal as long as the path itself is satisfiable (which every fork checks)."""
    items = [(c, atoms_of(c)) for c in path]
    keep: list[Formula] = []
    atoms = set(goal_atoms)
    for a in list(atoms):
        if a.endswith(" is None"):
            atoms.add(f"bool({a[: -len(' is None')]})")
        elif a.startswith("bool(") and a.endswith(")"):
            atoms.add(f"{a[5:-1]} is None")
    changed = True
    rest = items
    while changed:
        changed = False
        nxt = []
        for c, at in rest:
            if not at:
                if c == FALSE:
                    keep.append(c)
                continue
            if at & atoms:
                keep.append(c)
                for a in at:
                    atoms.add(a)
                    if a.endswith(" is None"):
                        atoms.add(f"bool({a[: -len(' is None')]})")
                    elif a.startswith("bool(") and a.endswith(")"):
                        atoms.add(f"{a[5:-1]} is None")
                changed = True
            else:
                nxt.append((c, at))
        rest = nxt
    return keep


def sat_path(path, goal: Formula) -> bool:
    """sat(AND(path) AND goal) for a path that is known to be satisfiable on its own."""
    if goal == FALSE or any(c == FALSE for c in path):
        return False
    return sat(f_and([*cone(path, atoms_of(goal)), goal]))


def implies_path(path, goal: Formula) -> bool:
    return not sat_path(path, f_not(goal))


def implies(a: Formula, b: Formula, constraints: Formula = TRUE) -> bool:
    return not sat(f_and([a, f_not(b)]), constraints)


def conj(path: list[Formula] | tuple) -> Formula:
    return f_and(list(path))


# --------------------------------------------------------------------------- values


class Val:
    pass


@dataclass(frozen=True)
class Const(Val):
    value: object


@dataclass(frozen=True)
class Opq(Val):
    key: str
    deps: frozenset = frozenset()
    kind: str = ""  # param | attr | elem | call | search | find | len | ...
    meta: tuple = ()
    complete_of: str | None = None  # key of the collection this value is a complete re-collection of


@dataclass(frozen=True)
class BoolV(Val):
    f: tuple
    deps: frozenset = frozenset()

    def __hash__(self) -> int:
        return hash(repr(self.f))


@dataclass(frozen=True)
class Ref(Val):
    oid: int
    cls: str | None = None


@dataclass(frozen=True)
class Coll(Val):
    oid: int


@dataclass(frozen=True)
class Phi(Val):
    alts: tuple  # ((Formula, Val), ...)

    def __hash__(self) -> int:
        return hash(tuple(key(v) for _c, v in self.alts))


@dataclass(frozen=True)
class FnV(Val):
    fi: FuncInfo
    recv: Val | None = None
    closure: object = None
    raw: bool = False  # do not route through the function's decorators

    def __hash__(self) -> int:
        return hash(self.fi.fq)


@dataclass(frozen=True)
class ClsV(Val):
    fq: str


@dataclass(frozen=True)
class KwArgs(Val):
    items: tuple  # ((name, Val), ...)

    def __hash__(self) -> int:
        return hash(tuple(k for k, _v in self.items))


@dataclass(frozen=True)
class CollState:
    kind: str  # list | set | tuple | dict
    items: tuple = ()  # ((Val, Formula), ...)
    exact: bool = True
    ver: int = 0
    complete_of: str | None = None
    deps: frozenset = frozenset()
    filt: tuple | None = None  # (element value, Formula): the collection holds exactly the elements of `complete_of` satisfying the formula


def key(v: Val) -> str:
    if isinstance(v, Const):
        return repr(v.value)
    if isinstance(v, Opq):
        return v.key
    if isinstance(v, BoolV):
        return "b:" + show(v.f)
    if isinstance(v, Ref):
        return f"#{v.oid}"
    if isinstance(v, Coll):
        return f"#c{v.oid}"
    if isinstance(v, Phi):
        return "phi(" + "|".join(key(a) for _c, a in v.alts) + ")"
    if isinstance(v, FnV):
        return v.fi.fq
    if isinstance(v, ClsV):
        return v.fq
    return "?"


def mk_phi(alts: list[tuple[Formula, Val]]) -> Val:
    flat: list[tuple[Formula, Val]] = []
    for c, v in alts:
        if c == FALSE:
            continue
        if isinstance(v, Phi):
            for c2, v2 in v.alts:
                flat.append((f_and([c, c2]), v2))
        else:
            flat.append((c, v))
    if not flat:
        return Opq("<undefined>")
    first = flat[0][1]
    if all(v == first for _c, v in flat):
        return first
    # group equal values
    groups: list[tuple[list[Formula], Val]] = []
    for c, v in flat:
        for g in groups:
            if g[1] == v:
                g[0].append(c)
                break
        else:
            groups.append(([c], v))
    return Phi(tuple((f_or(cs), v) for cs, v in groups))


# --------------------------------------------------------------------------- run records


@dataclass
class LoopCtx:
    n: int
    iter_atom: Formula
    pre_path: tuple
    it: Val | None
    node: ast.AST
    kind: str  # for | while | comp
    elem: Val | None = None
    test_val: Val | None = None
    filt: tuple | None = None  # filter of the iterated collection (see CollState.filt)


@dataclass
class Event:
    kind: str  # call | subscript | mutate | in | ctor
    name: str
    args: tuple
    recv: Val | None
    path: tuple
    loops: tuple
    handlers: tuple
    ctx: FuncInfo
    node: ast.AST
    recv_type: tuple = ("unknown",)
    result: Val | None = None

    @property
    def cond(self) -> Formula:
        return conj(self.path)


@dataclass
class Outcome:
    kind: str  # return | raise | verdict
    path: tuple
    exc: str = ""
    value: Val | None = None
    ctx: FuncInfo | None = None
    node: ast.AST | None = None
    store: dict | None = None
    loops: tuple = ()
    callee: str = ""

    @property
    def cond(self) -> Formula:
        return conj(self.path)


class State:
    __slots__ = ("vars", "store", "path")

    def __init__(self, vars: dict, store: dict, path: list) -> None:
        self.vars = vars
        self.store = store
        self.path = path

    def fork(self, extra: Formula | None = None) -> "State":
        p = list(self.path)
        if extra is not None and extra != TRUE:
            p.append(extra)
        return State(dict(self.vars), dict(self.store), p)

    @property
    def cond(self) -> Formula:
        return conj(self.path)


@dataclass
class Frame:
    fi: FuncInfo
    returns: list = field(default_factory=list)  # (State, Val)
    yields: list = field(default_factory=list)  # (Val, tuple path) of an eagerly interpreted generator
    yields_exact: bool = True
    base_path_len: int = 0
    base_loops: int = 0


@dataclass
class HandlerCtx:
    node: ast.Try
    types: list  # list[list[str]] per handler
    caught: list = field(default_factory=list)  # (handler index, State, exc class)
    n: int = 0  # the atom `exc#<n>.<i>` stands for "handler i was entered because something in the body raised"


class _Signal(Exception):
    pass


# --------------------------------------------------------------------------- exception classes


def exception_class_name(repo: Repo, fi: FuncInfo, exc: ast.expr | None) -> str:
    if exc is None:
        return "<re-raise>"
    e = exc.func if isinstance(exc, ast.Call) else exc
    fq = repo.resolve_name(fi.module, e) if isinstance(e, (ast.Name, ast.Attribute)) else None
    return fq or dotted(e) or norm(e)


def exception_bases(repo: Repo, name: str) -> set[str]:
    """Short names of the class and all its (repo and external) ancestors."""
    out = {name.split(".")[-1]}
    ci = repo.classes.get(name)
    if ci is not None:
        for c in repo.mro(ci):
            out.add(c.name)
            for b in c.bases:
                out.add(b.split(".")[-1])
        out |= {"Exception", "BaseException"}
    elif name.split(".")[-1] not in ("BaseException", "KeyboardInterrupt", "SystemExit", "GeneratorExit"):
        out |= {"Exception", "BaseException"}
        short = name.split(".")[-1]
        out |= {"KeyError": {"LookupError"}, "IndexError": {"LookupError"}, "NetworkXError": {"NetworkXException"}, "NodeNotFound": {"NetworkXException"}}.get(short, set())
    return out


def is_assertion_error(repo: Repo, name: str) -> bool:
    return "AssertionError" in exception_bases(repo, name)


_exit_cache: dict[tuple[int, str], list[str] | None] = {}


def exit_suppresses(repo: Repo, ci: ClassInfo) -> list[str] | None:
    """Short names of the exception classes a `with <instance of ci>:` block swallows: `__exit__` can return a truthy value
    while an exception is pending.  ["<bare>"] when no isinstance / issubclass test of the pending exception is implied by
    the condition of such a return (anything is swallowed); None when `__exit__` never suppresses (or ci has none)."""
    ck = (id(repo), ci.fq)
    if ck in _exit_cache:
        return _exit_cache[ck]
    from core.guards import implies as g_implies, satisfiable

    from .common import guard_formula, truth

    out: list[str] | None = None
    f = repo.lookup_method(ci, "__exit__")
    if f is not None and not f.is_abstract and not isinstance(f.node, ast.Lambda):
        params = f.param_names
        t, v = (params[1], params[2]) if len(params) >= 3 and f.node.args.vararg is None else ("", "")
        tests: list[tuple[Formula, list[str]]] = []
        for n in own_nodes(f.node):
            if isinstance(n, ast.Call) and isinstance(n.func, ast.Name) and n.func.id in ("issubclass", "isinstance") and len(n.args) == 2 and isinstance(n.args[0], ast.Name) and n.args[0].id in (t, v) and t:
                xs = n.args[1].elts if isinstance(n.args[1], ast.Tuple) else [n.args[1]]
                names = [(repo.resolve_name(f.module, x) or dotted(x) or norm(x)).split(".")[-1] for x in xs]
                tests.append((atom(norm(n)) if n.func.id == "isinstance" else atom(f"bool({norm(n)})"), names))
        pending = f_and([f for x in (t, v) if x for f in (f_not(atom(f"{x} is None")), atom(f"bool({x})"))])
        caught: list[str] = []
        for r in own_nodes(f.node):
            if not isinstance(r, ast.Return) or r.value is None or (isinstance(r.value, ast.Constant) and not r.value.value):
                continue
            g = f_and([guard_formula(f, r), truth(f, r.value), pending])
            if not satisfiable(g):
                continue
            hit = [names for a, names in tests if g_implies(g, a)]
            if not hit:
                caught = ["<bare>"]
                break
            caught += min(hit, key=len)
        out = sorted(set(caught)) or None
    _exit_cache[ck] = out
    return out


def suppress_call_types(repo: Repo, ctx: FuncInfo, e: ast.expr) -> list[str] | None:
    """`contextlib.suppress(A, B)` as a context expression: the short names of A, B."""
    if isinstance(e, ast.Call) and isinstance(e.func, (ast.Name, ast.Attribute)) and (repo.resolve_name(ctx.module, e.func) or dotted(e.func)) == "contextlib.suppress":
        return [(repo.resolve_name(ctx.module, x) or dotted(x) or norm(x)).split(".")[-1] for x in e.args]
    return None


def is_generator(fi: FuncInfo) -> bool:
    return any(isinstance(n, (ast.Yield, ast.YieldFrom)) for n in own_nodes(fi.node))


RAISING_NX = {"successors", "predecessors", "neighbors"}
STR_SEARCH = {"find", "rfind", "index", "rindex"}
RE_SEARCH = {"re.search", "re.match", "re.fullmatch"}
COLL_MUTATORS = {"append", "add", "extend", "update", "insert", "appendleft", "remove", "discard", "pop", "clear", "popleft", "sort", "reverse", "setdefault", "difference_update", "intersection_update"}
COMPLETE_BUILTINS = {"list", "set", "tuple", "frozenset", "sorted", "reversed"}
FULL_CONSUMERS = {"list", "set", "tuple", "frozenset", "sorted", "dict", "sum", "max", "min", "len", "Counter", "deque"}


CALLABLE_KINDS = {"attrgetter", "itemgetter", "methodcaller", "partial"}
OPERATOR_FUNCS = {"getitem", "not_", "truth", "is_", "is_not", "eq", "ne", "lt", "le", "gt", "ge", "contains", "attrgetter", "itemgetter", "methodcaller"}


class _Closure:
    def __init__(self, vars: dict) -> None:
        self.vars = vars


def _flip(op: ast.cmpop) -> ast.cmpop:
    return {ast.Lt: ast.Gt, ast.Gt: ast.Lt, ast.LtE: ast.GtE, ast.GtE: ast.LtE}.get(type(op), type(op))()


# --------------------------------------------------------------------------- the interpreter


class Sym:
    """One symbolic run of an entry function.  `stop` decides where interpretation ends with a "verdict" outcome,
    `descend` restricts inter-procedural interpretation."""

    def __init__(self, repo: Repo, stop: Callable[[list[FuncInfo]], bool] | None = None, descend: Callable[[FuncInfo, FuncInfo], bool] | None = None, max_depth: int = MAX_DEPTH) -> None:
        self.repo = repo
        self.T = types_of(repo)
        self.stop = stop
        self.descend = descend
        self.max_depth = max_depth
        self.outcomes: list[Outcome] = []
        self.events: list[Event] = []
        self.loops: list[LoopCtx] = []
        self.loop_log: list[LoopCtx] = []
        self.handlers: list[HandlerCtx] = []
        self.frames: list[Frame] = []
        self.loop_ctl: list[dict] = []
        self.eager: set[int] = set()  # call nodes whose generator result is consumed completely right away
        self.handler_swallows: dict[tuple[int, int], bool] = {}  # (try id, handler index) -> the handler can complete without raising
        self._n = 0
        self.notes: list[str] = []
        self.position_keys: list[str] = []  # keys of the results of str.find / rfind / index / rindex
        self.uninterpreted: dict[str, tuple] = {}  # free atom -> position keys it talks about (a test the model could not interpret)

    def fresh(self) -> int:
        self._n += 1
        return self._n

    # ------------------------------------------------------------------ value predicates
    def deps(self, v: Val, st: State | None = None) -> frozenset:
        if isinstance(v, (Opq, BoolV)):
            return v.deps
        if isinstance(v, Const):
            return frozenset({f"const:{v.value}"}) if isinstance(v.value, str) and v.value else frozenset()
        if isinstance(v, Phi):
            out = frozenset()
            for _c, a in v.alts:
                out |= self.deps(a, st)
            return out
        if isinstance(v, Coll) and st is not None:
            cs = st.store.get(key(v))
            if cs is not None:
                out = cs.deps
                for it, _c in cs.items:
                    out |= self.deps(it, st)
                return out
        if isinstance(v, FnV) and v.recv is not None:
            return self.deps(v.recv, st)
        return frozenset()

    def truth(self, v: Val, st: State) -> Formula:
        if isinstance(v, Const):
            return ("const", bool(v.value))
        if isinstance(v, BoolV):
            return v.f
        if isinstance(v, Opq):
            if v.kind == "len" and v.meta:
                return self.truth(v.meta[0], st)
            if v.kind == "offset":
                return f_not(self.eq(v.meta[0], Const(-v.meta[1]), st))  # `if position + 1:` - found
            if v.kind == "invert" and v.meta:
                return f_not(self.eq(v.meta[0], Const(-1), st))  # `if ~position:` - found
            if v.kind in ("find", "index"):
                return f_not(self.eq(v, Const(0), st))  # `if position:` - anything but index 0 (-1 is truthy)
            if v.kind in ("", "min", "max", "call"):
                return self._note_free(f"bool({v.key})", v)
            return atom(f"bool({v.key})")
        if isinstance(v, Phi):
            return f_or([f_and([c, self.truth(a, st)]) for c, a in v.alts])
        if isinstance(v, Coll):
            cs: CollState = st.store[key(v)]
            known = f_or([c for _it, c in cs.items])
            if cs.exact:
                return known
            return f_or([known, atom(f"bool({key(v)}v{cs.ver})")])
        if isinstance(v, Ref):
            ci = self.repo.classes.get(v.cls) if v.cls else None
            if ci is not None and (self.repo.lookup_method(ci, "__bool__") or self.repo.lookup_method(ci, "__len__")):
                return atom(f"bool({key(v)})")
            return TRUE
        return TRUE

    def _note_free(self, name: str, *vals: Val) -> Formula:
        """A free atom for a test the model does not interpret; remembered when it is about a search position."""
        ks = tuple(pk for pk in self.position_keys if any(pk in key(v) for v in vals))
        if ks:
            self.uninterpreted[name] = ks
        return atom(name)

    def is_none(self, v: Val, st: State) -> Formula:
        if isinstance(v, Const):
            return ("const", v.value is None)
        if isinstance(v, Opq):
            if v.kind in ("elem", "call-nonnull"):
                return atom(f"{v.key} is None")
            return atom(f"{v.key} is None")
        if isinstance(v, Phi):
            return f_or([f_and([c, self.is_none(a, st)]) for c, a in v.alts])
        return FALSE

    def eq(self, a: Val, b: Val, st: State) -> Formula:
        if isinstance(a, Phi):
            return f_or([f_and([c, self.eq(x, b, st)]) for c, x in a.alts])
        if isinstance(b, Phi):
            return f_or([f_and([c, self.eq(a, x, st)]) for c, x in b.alts])
        if isinstance(a, Const) and isinstance(b, Const):
            try:
                return ("const", bool(a.value == b.value))
            except Exception:  # noqa: BLE001
                return FALSE
        for x, y in ((a, b), (b, a)):
            if isinstance(x, Opq) and x.kind == "offset" and isinstance(y, Const) and isinstance(y.value, int) and not isinstance(y.value, bool):
                x, y = x.meta[0], Const(y.value - x.meta[1])  # position + d == n  <=>  position == n - d
            if isinstance(y, Const):
                if y.value is None:
                    return self.is_none(x, st)
                if y.value is True and isinstance(x, BoolV):
                    return x.f
                if y.value is False and isinstance(x, BoolV):
                    return f_not(x.f)
                if isinstance(x, Opq) and x.kind in ("find", "index") and isinstance(y.value, int) and not isinstance(y.value, bool) and y.value < (-1 if x.kind == "find" else 0):
                    return FALSE
                if isinstance(x, Opq) and x.kind == "index" and isinstance(y.value, int) and not isinstance(y.value, bool):
                    return atom(f"{x.key} == {y.value}")
                if isinstance(x, Opq) and x.kind == "find" and y.value == -1:
                    return atom(f"notfound({x.key})")
                if isinstance(x, Opq) and x.kind == "find" and isinstance(y.value, int) and not isinstance(y.value, bool) and y.value >= 0:
                    return f_and([atom(f"{x.key} == {y.value}"), f_not(atom(f"notfound({x.key})"))])
                if isinstance(x, Opq) and x.kind == "len" and x.meta and isinstance(x.meta[0], Opq) and x.meta[0].kind == "split" and y.value in (1, 2) and not isinstance(y.value, bool):
                    one = atom(f"notfound({x.meta[0].key})")
                    return one if y.value == 1 else f_not(one)
                if isinstance(x, Opq) and x.kind == "len" and x.meta and y.value == 0 and not isinstance(y.value, bool):
                    return f_not(self.truth(x.meta[0], st))
                if isinstance(x, Coll) and isinstance(y.value, (list, tuple)) and not y.value:
                    return f_not(self.truth(x, st))
            if isinstance(y, Coll) and isinstance(x, (Opq, Coll)):
                cs = st.store.get(key(y))
                if cs is not None and cs.exact and not cs.items:
                    return f_not(self.truth(x, st))  # x == [] / x == set()
        ka, kb = key(a), key(b)
        if ka == kb:
            return TRUE
        k1, k2 = sorted([ka, kb])
        return self._note_free(f"{k1} == {k2}", a, b)

    def contains(self, x: Val, c: Val, st: State) -> Formula:
        if isinstance(c, Phi):
            return f_or([f_and([cc, self.contains(x, a, st)]) for cc, a in c.alts])
        if isinstance(c, Coll):
            cs: CollState = st.store[key(c)]
            parts = [f_and([cond, self.eq(x, it, st)]) for it, cond in cs.items]
            if not cs.exact:
                parts.append(atom(f"{key(x)} in {key(c)}v{cs.ver}"))
            return f_or(parts)
        return atom(f"{key(x)} in {key(c)}")

    # ------------------------------------------------------------------ collections
    def new_coll(self, st: State, kind: str, items: list[tuple[Val, Formula]] | None = None, exact: bool = True, complete_of: str | None = None, deps: frozenset = frozenset(), filt: tuple | None = None) -> Coll:
        c = Coll(self.fresh())
        st.store[key(c)] = CollState(kind, tuple(items or ()), exact, 0, complete_of, deps, filt)
        return c

    def filt_of(self, v: Val, st: State) -> tuple | None:
        cs = self.coll_state(v, st)
        return cs.filt if cs is not None and cs.complete_of else None

    def coll_state(self, v: Val, st: State) -> CollState | None:
        return st.store.get(key(v)) if isinstance(v, Coll) else None

    def record_fields(self, ci: ClassInfo) -> list[str]:
        """Declared fields of a NamedTuple / dataclass in declaration order (base classes first)."""
        out: list[str] = []
        for c in reversed(self.repo.mro(ci)):
            for a in c.ann_attrs:
                if a not in out:
                    out.append(a)
        return out

    def is_namedtuple(self, ci: ClassInfo | None) -> bool:
        return ci is not None and any(b.split(".")[-1] == "NamedTuple" for c in self.repo.mro(ci) for b in c.bases)

    def exact_items(self, v: Val, st: State) -> list[tuple[Val, Formula]] | None:
        if isinstance(v, Ref) and v.cls and self.is_namedtuple(self.repo.classes.get(v.cls)):
            # a NamedTuple record is the tuple of its fields (unpacking, reversed(), *record, record[0])
            return [(st.store.get(f"{key(v)}.{f}", Opq(f"{key(v)}.{f}", kind="attr")), TRUE) for f in self.record_fields(self.repo.classes[v.cls])]
        cs = self.coll_state(v, st)
        if cs is not None and cs.exact and cs.kind != "dict":
            return list(cs.items)
        if cs is not None and cs.exact and cs.kind == "dict":
            ks = st.store.get(key(v) + ".keys")
            if ks is not None and len(ks) == len(cs.items):
                return [(k, c) for k, (_v, c) in zip(ks, cs.items)]
            if not cs.items:
                return []
        return None

    # ------------------------------------------------------------------ attribute store
    def classes_of(self, base: Val, node: ast.expr | None, ctx: FuncInfo | None) -> list[ClassInfo]:
        if isinstance(base, Ref) and base.cls:
            ci = self.repo.classes.get(base.cls)
            return [ci] if ci else []
        if isinstance(base, ClsV):
            return []
        out = []
        if node is not None and ctx is not None and not isinstance(base, (Const, Coll, BoolV)):
            sites = [(ctx, node)]
            if isinstance(base, Opq) and base.kind in ("attr", "param") and base.key in self.__dict__.get("_origin", {}):
                sites.append(self._origin[base.key])  # e.g. the result of a generic `_required(self._x, msg)` helper
            for c_, n_ in sites:
                try:
                    t = self.T.expr(c_, n_)
                except Exception:  # noqa: BLE001
                    t = ("unknown",)
                for m in members(t):
                    if m[0] == "cls":
                        ci = self.repo.classes.get(m[1])
                        if ci is not None and ci not in out:
                            out.append(ci)
                if out:
                    break
        return out

    def get_attr(self, base: Val, attr: str, st: State, node: ast.expr | None = None, ctx: FuncInfo | None = None) -> Val:
        """`node` is the expression of the base object inside `ctx` (for static typing)."""
        if isinstance(base, Phi):
            return mk_phi([(c, self.get_attr(a, attr, st, node, ctx)) for c, a in base.alts])
        if isinstance(base, ClsV):
            ci = self.repo.classes.get(base.fq)
            if ci is not None:
                m = self.repo.lookup_method(ci, attr)
                if m is not None:
                    return FnV(m, base if m.is_classmethod else None)
                for c in self.repo.mro(ci):
                    if attr in c.class_attrs:
                        return self.eval_in_module(c.module, c.class_attrs[attr], st)
            if attr == "__name__":
                return Const(base.fq.split(".")[-1])
            return Opq(f"{base.fq}.{attr}")
        if isinstance(base, (Const, BoolV, Coll, FnV)):
            return Opq(f"{key(base)}.{attr}", self.deps(base, st), kind="attr")
        skey = f"{key(base)}.{attr}"
        if skey in st.store:
            return st.store[skey]
        cls = self.classes_of(base, node, ctx)
        if len(cls) >= 1:
            impls = []
            for ci in cls:
                found = [m for m in self.repo.implementations(ci, attr)] if isinstance(base, Opq) else [self.repo.lookup_method(ci, attr)]
                for m in found:
                    if m is not None and m not in impls:
                        impls.append(m)
            concrete = [m for m in impls if not m.is_abstract] or impls
            if len(concrete) == 1:
                m = concrete[0]
                if m.is_property:
                    return self.call_function(m, base, [], {}, st, None, ctx)
                return FnV(m, base if not m.is_staticmethod else None)
            if impls:
                return Opq(skey, self.deps(base, st), kind="method")
            if isinstance(base, Ref) and len(cls) == 1:
                for c in self.repo.mro(cls[0]):
                    if attr in c.class_attrs:
                        return self.eval_in_module(c.module, c.class_attrs[attr], st)
        return Opq(skey, self.deps(base, st), kind="attr")

    def set_attr(self, base: Val, attr: Val | str, v: Val, st: State, cond: Formula = TRUE) -> None:
        if isinstance(attr, Phi):
            for c, a in attr.alts:
                self.set_attr(base, a, v, st, f_and([cond, c]))
            return
        if isinstance(attr, Const):
            attr = str(attr.value)
        if not isinstance(attr, str):
            self.notes.append("setattr with unknown attribute name")
            return
        if isinstance(base, Phi):
            for c, a in base.alts:
                self.set_attr(a, attr, v, st, f_and([cond, c]))
            return
        skey = f"{key(base)}.{attr}"
        if cond == TRUE:
            st.store[skey] = v
        else:
            old = st.store.get(skey) or Opq(skey, self.deps(base, st), kind="attr")
            st.store[skey] = mk_phi([(cond, v), (f_not(cond), old)])

    # ------------------------------------------------------------------ merging
    def merge(self, states: list[tuple[State, Formula]], base: State) -> State | None:
        """Join of fall-through states; each comes with the condition (relative to `base`) that selects it."""
        states = [(s, c) for s, c in states if s is not None]
        if not states:
            return None
        if len(states) == 1:
            return states[0][0]
        n = len(base.path)
        rests = [conj(s.path[n:]) for s, _c in states]
        whole = f_or(rests)
        path = list(base.path)
        if whole != TRUE and sat(f_not(whole)):
            path.append(whole)
        out = State({}, {}, path)
        for attr in ("vars", "store"):
            keys: list[str] = []
            for s, _c in states:
                for k in getattr(s, attr):
                    if k not in keys:
                        keys.append(k)
            tgt = getattr(out, attr)
            for k in keys:
                vals = [getattr(s, attr).get(k) for s, _c in states]
                present = [v for v in vals if v is not None]
                if all(v == present[0] for v in present) and (len(present) == len(vals) or isinstance(present[0], CollState) or attr == "vars" or k.startswith("#")):
                    tgt[k] = present[0]
                    continue
                if isinstance(present[0], (tuple, int)):
                    continue  # key table of a dict literal / lead count of a generator result that differs between the branches: dropped
                if isinstance(present[0], CollState):
                    tgt[k] = self._merge_coll([(v, r) for v, r in zip(vals, rests) if v is not None])
                    continue
                alts = []
                for (s, _c), v, r in zip(states, vals, rests):
                    if v is None:
                        v = Opq(k, kind="attr") if attr == "store" else Opq(f"<unbound {k}>")
                    alts.append((r, v))
                tgt[k] = mk_phi(alts)
        return out

    def _merge_coll(self, vs: list[tuple[CollState, Formula]]) -> CollState:
        first = vs[0][0]
        if len(vs) == 1:
            return first
        prefix = 0
        while all(len(v.items) > prefix for v, _r in vs) and all(v.items[prefix] == first.items[prefix] for v, _r in vs):
            prefix += 1
        items = list(first.items[:prefix])
        for v, r in vs:
            for it, c in v.items[prefix:]:
                items.append((it, f_and([c, r])))
        exact = all(v.exact for v, _r in vs)
        # an element removed on one side only cannot be expressed: give up exactness
        ver = max(v.ver for v, _r in vs) + (0 if all(v.ver == first.ver for v, _r in vs) else 1)
        return CollState(first.kind, tuple(items), exact, ver, first.complete_of if all(v.complete_of == first.complete_of for v, _r in vs) else None, frozenset().union(*[v.deps for v, _r in vs]))

    # ------------------------------------------------------------------ events
    def emit(self, kind: str, name: str, args: list[Val], recv: Val | None, st: State, ctx: FuncInfo, node: ast.AST, recv_type: tuple = ("unknown",), result: Val | None = None) -> Event:
        hs = tuple(t for h in self.handlers for ts in h.types for t in ts)
        ev = Event(kind, name, tuple(args), recv, tuple(st.path), tuple(self.loops), hs, ctx, node, recv_type, result)
        ev.handler_entries = tuple((h.n, i, tuple(ts)) for h in self.handlers for i, ts in enumerate(h.types))  # type: ignore[attr-defined]
        self.events.append(ev)
        return ev

    # ------------------------------------------------------------------ expressions
    def eval_in_module(self, mod, e: ast.expr, st: State) -> Val:
        """Module-level / class-level constant expressions (no locals)."""
        fake = FuncInfo(name="<module>", qualname="<module>", node=ast.Lambda(args=ast.arguments(posonlyargs=[], args=[], kwonlyargs=[], kw_defaults=[], defaults=[]), body=e), module=mod)
        try:
            return self.eval(e, State({}, st.store, list(st.path)), fake)
        except _Signal:
            raise
        except Exception:  # noqa: BLE001
            return Opq(norm(e, 60))

    def eval(self, e: ast.expr, st: State, ctx: FuncInfo) -> Val:
        m = getattr(self, "_e_" + type(e).__name__, None)
        if m is None:
            return Opq(f"<{type(e).__name__}:{norm(e, 40)}>")
        try:
            return m(e, st, ctx)
        except (AnalysisError, RecursionError):
            raise
        except Exception as ex:  # noqa: BLE001  - an expression shape the interpreter does not model: unknown value
            self.notes.append(f"{ctx.qualname}: `{norm(e, 50)}` not modelled ({type(ex).__name__}: {ex})")
            return Opq(f"<{norm(e, 40)}>#{self.fresh()}")

    def _e_Constant(self, e, st, ctx):
        return Const(e.value)

    def _e_Name(self, e, st, ctx):
        if e.id in st.vars:
            return st.vars[e.id]
        mod = ctx.module
        # closure variables
        if e.id in mod.constants and e.id not in mod.functions and e.id not in mod.classes:
            return self.eval_in_module(mod, mod.constants[e.id], st)
        if e.id in mod.functions:
            return FnV(mod.functions[e.id])
        if e.id in mod.classes:
            return ClsV(mod.classes[e.id].fq)
        fq = self.repo.resolve_name(mod, e)
        if fq:
            if fq in self.repo.classes:
                return ClsV(fq)
            modname, _, name = fq.rpartition(".")
            m2 = self.repo.modules.get(modname)
            if m2 is not None:
                if name in m2.functions:
                    return FnV(m2.functions[name])
                if name in m2.constants:
                    return self.eval_in_module(m2, m2.constants[name], st)
            return Opq(fq, kind="libref")
        if e.id in ("True", "False", "None"):
            return Const({"True": True, "False": False, "None": None}[e.id])
        return Opq(e.id, kind="builtin")

    def _e_Attribute(self, e, st, ctx):
        base = self.eval(e.value, st, ctx)
        if isinstance(base, Opq) and base.kind == "libref":
            return Opq(f"{base.key}.{e.attr}", kind="libref")
        v = self.get_attr(base, e.attr, st, e.value, ctx)
        if isinstance(v, Opq) and v.kind == "attr":
            # where the value was read: its static type there still describes it after it has travelled through untyped code
            self.__dict__.setdefault("_origin", {}).setdefault(v.key, (ctx, e))
        return v

    def _e_BoolOp(self, e, st, ctx):
        is_and = isinstance(e.op, ast.And)
        fs: list[Formula] = []
        deps = frozenset()
        saved = list(st.path)
        vals = []
        for v in e.values:
            val = self.eval(v, st, ctx)
            vals.append(val)
            t = self.truth(val, st)
            fs.append(t)
            deps |= self.deps(val, st)
            st.path.append(t if is_and else f_not(t))
        st.path[:] = saved
        return BoolV(f_and(fs) if is_and else f_or(fs), deps)

    def _e_UnaryOp(self, e, st, ctx):
        return self._unary(e.op, self.eval(e.operand, st, ctx), st)

    def _unary(self, op: ast.unaryop, v: Val, st: State) -> Val:
        e = ast.UnaryOp(op=op, operand=ast.Constant(value=None))
        if isinstance(e.op, ast.Not):
            return BoolV(f_not(self.truth(v, st)), self.deps(v, st))
        if isinstance(v, Phi):
            return mk_phi([(c, self._unary(op, a, st)) for c, a in v.alts])
        if isinstance(e.op, ast.USub) and isinstance(v, Const) and isinstance(v.value, (int, float)):
            return Const(-v.value)
        if isinstance(e.op, ast.Invert) and isinstance(v, Const) and isinstance(v.value, int):
            return Const(~v.value)
        if isinstance(e.op, ast.Invert) and isinstance(v, Opq) and v.kind == "find":
            return Opq(f"(Invert {key(v)})", self.deps(v, st), kind="invert", meta=(v,))
        return Opq(f"({type(e.op).__name__} {key(v)})", self.deps(v, st))

    def _e_IfExp(self, e, st, ctx):
        c = self.truth(self.eval(e.test, st, ctx), st)
        saved = list(st.path)
        st.path.append(c)
        a = self.eval(e.body, st, ctx)
        st.path[:] = saved + [f_not(c)]
        b = self.eval(e.orelse, st, ctx)
        st.path[:] = saved
        return mk_phi([(c, a), (f_not(c), b)])

    def _e_Compare(self, e, st, ctx):
        left = self.eval(e.left, st, ctx)
        parts = []
        deps = self.deps(left, st)
        for op, rn in zip(e.ops, e.comparators):
            right = self.eval(rn, st, ctx)
            deps |= self.deps(right, st)
            if isinstance(op, (ast.In, ast.NotIn)) and isinstance(left, Const) and isinstance(left.value, str) and left.value and isinstance(right, Opq):
                # substring test: a search of the text for the needle
                res = Opq(f"{left.value!r} in {right.key}", deps, kind="contains", meta=(self.deps(left, st), self.deps(right, st)))
                self.emit("call", "in", [left], right, st, ctx, e, ("b", "str", ()), res)
                f = atom(f"bool({res.key})")
                parts.append(f if isinstance(op, ast.In) else f_not(f))
            else:
                f = self.compare(left, op, right, st)
                if isinstance(op, (ast.In, ast.NotIn)) and isinstance(right, Opq) and f[0] in ("atom", "not"):
                    self.emit("member", "in", [left], right, st, ctx, e, ("unknown",), BoolV(f if isinstance(op, ast.In) else f_not(f), deps))
                parts.append(f)
            left = right
        return BoolV(f_and(parts), deps)

    def compare(self, a: Val, op: ast.cmpop, b: Val, st: State) -> Formula:
        if isinstance(op, (ast.Lt, ast.LtE, ast.Gt, ast.GtE)):
            # orderings distribute over conditional values (`pos = text.rfind(t) if ... else -1; if pos < 0:`)
            if isinstance(a, Phi):
                return f_or([f_and([c, self.compare(x, op, b, st)]) for c, x in a.alts])
            if isinstance(b, Phi):
                return f_or([f_and([c, self.compare(a, op, x, st)]) for c, x in b.alts])
        if isinstance(op, ast.Is):
            if isinstance(b, Const) and b.value is None:
                return self.is_none(a, st)
            if isinstance(a, Const) and a.value is None:
                return self.is_none(b, st)
            return self.eq(a, b, st)
        if isinstance(op, ast.IsNot):
            return f_not(self.compare(a, ast.Is(), b, st))
        if isinstance(op, ast.Eq):
            return self.eq(a, b, st)
        if isinstance(op, ast.NotEq):
            return f_not(self.eq(a, b, st))
        if isinstance(op, ast.In):
            return self.contains(a, b, st)
        if isinstance(op, ast.NotIn):
            return f_not(self.contains(a, b, st))
        # orderings: len(x) against 0 / 1, find-results against 0 / -1
        for x, y, o in ((a, b, op), (b, a, _flip(op))):
            if isinstance(y, Const) and isinstance(y.value, int) and not isinstance(y.value, bool):
                n = y.value
                if isinstance(x, Opq) and x.kind == "offset":
                    x, n = x.meta[0], n - x.meta[1]  # position + d OP n  ==  position OP n - d
                if isinstance(x, Opq) and x.kind == "len" and x.meta and isinstance(x.meta[0], Opq) and x.meta[0].kind == "split":
                    one = atom(f"notfound({x.meta[0].key})")
                    if (isinstance(o, ast.Lt) and n == 2) or (isinstance(o, ast.LtE) and n == 1):
                        return one
                    if (isinstance(o, ast.GtE) and n == 2) or (isinstance(o, ast.Gt) and n == 1):
                        return f_not(one)
                if isinstance(x, Opq) and x.kind == "len" and x.meta and isinstance(x.meta[0], Coll):
                    its = self.exact_items(x.meta[0], st)
                    if its is not None and len(its) <= 8:
                        # a collection whose elements are there under known conditions: len > m  <=>  some m + 1 of them hold
                        m, positive = {ast.Gt: (n, True), ast.GtE: (n - 1, True), ast.Lt: (n - 1, False), ast.LtE: (n, False)}[type(o)]
                        g = TRUE if m < 0 else f_or([f_and([c for _v, c in sub]) for sub in itertools.combinations(its, m + 1)])
                        return g if positive else f_not(g)
                if isinstance(x, Opq) and x.kind == "len" and x.meta:
                    t = self.truth(x.meta[0], st)
                    if (isinstance(o, ast.Gt) and n == 0) or (isinstance(o, ast.GtE) and n == 1):
                        return t
                    if (isinstance(o, ast.Lt) and n == 1) or (isinstance(o, ast.LtE) and n == 0):
                        return f_not(t)
                if isinstance(x, Opq) and x.kind in ("min", "max") and x.meta:
                    # min(a, b) < n: some operand is; min(a, b) > n: every operand is (max the other way round)
                    parts = [self.compare(arg, o, Const(n), st) for arg in x.meta]
                    some = isinstance(o, (ast.Lt, ast.LtE)) == (x.kind == "min")
                    return f_or(parts) if some else f_and(parts)
                if isinstance(x, Opq) and x.kind == "index":
                    # str.index / rindex yield a position >= 0 (they raise when the needle is absent)
                    m, positive = {ast.Gt: (n, True), ast.GtE: (n - 1, True), ast.Lt: (n - 1, False), ast.LtE: (n, False)}[type(o)]
                    g = TRUE if m < 0 else atom(f"{x.key} Gt {m}")
                    return g if positive else f_not(g)
                if isinstance(x, Opq) and x.kind == "find":
                    # str.find / rfind yield -1 ("not found") or a position >= 0; every ordering against an integer is
                    # normalised to `x > m`, which for m >= 0 holds only when the needle was found
                    nf = atom(f"notfound({x.key})")
                    m, positive = {ast.Gt: (n, True), ast.GtE: (n - 1, True), ast.Lt: (n - 1, False), ast.LtE: (n, False)}[type(o)]
                    g = TRUE if m < -1 else (f_not(nf) if m == -1 else f_and([atom(f"{x.key} Gt {m}"), f_not(nf)]))
                    return g if positive else f_not(g)
                if isinstance(x, Const) and isinstance(x.value, (int, float)):
                    try:
                        return ("const", bool({ast.Lt: x.value < n, ast.LtE: x.value <= n, ast.Gt: x.value > n, ast.GtE: x.value >= n}[type(o)]))
                    except Exception:  # noqa: BLE001
                        pass
        name = f"{key(a)} {type(op).__name__} {key(b)}"
        free = atom(name)
        # `a < b` between two find-results: b is a position (>= 0 > -1 is the only way to exceed a value >= -1)
        lo, hi = (a, b) if isinstance(op, ast.Lt) else ((b, a) if isinstance(op, ast.Gt) else (None, None))
        if isinstance(lo, Opq) and isinstance(hi, Opq) and lo.kind == "find" and hi.kind == "find":
            return f_and([free, f_not(atom(f"notfound({hi.key})"))])
        return self._note_free(name, a, b)

    def _e_JoinedStr(self, e, st, ctx):
        parts = []
        deps = frozenset()
        for v in e.values:
            if isinstance(v, ast.Constant):
                parts.append(Const(v.value))
            elif isinstance(v, ast.FormattedValue):
                val = self.eval(v.value, st, ctx)
                parts.append(val)
                deps |= self.deps(val, st)
        if all(isinstance(p, Const) for p in parts):
            return Const("".join(str(p.value) for p in parts))
        return Opq("f'" + "".join(str(p.value) if isinstance(p, Const) else "{" + key(p) + "}" for p in parts) + "'", deps, kind="str")

    def _e_BinOp(self, e, st, ctx):
        a = self.eval(e.left, st, ctx)
        b = self.eval(e.right, st, ctx)
        if isinstance(a, Const) and isinstance(b, Const):
            try:
                if isinstance(e.op, ast.Add):
                    return Const(a.value + b.value)
                if isinstance(e.op, ast.Sub):
                    return Const(a.value - b.value)
                if isinstance(e.op, ast.Mult):
                    return Const(a.value * b.value)
            except Exception:  # noqa: BLE001
                pass
        if isinstance(e.op, ast.Add):
            ia, ib = self.exact_items(a, st), self.exact_items(b, st)
            if ia is not None and ib is not None:
                return self.new_coll(st, st.store[key(a)].kind, ia + ib)
        deps = self.deps(a, st) | self.deps(b, st)
        if isinstance(e.op, ast.Sub) and self.complete_of(a, st) is not None:
            removed = self.exact_items(b, st)
            if removed is not None and all(isinstance(x, Opq) and x.kind == "param" for x, _c in removed):
                # P - {s}: every element of P except (elements equal to) the scalar parameter s
                return self.new_coll(st, "set", [], exact=False, complete_of=self.complete_of(a, st), deps=self.deps(a, st))
        if isinstance(a, Coll) or isinstance(b, Coll):
            items = (self.exact_items(a, st) or []) + (self.exact_items(b, st) or []) if isinstance(e.op, (ast.Add, ast.BitOr)) else []
            return self.new_coll(st, "list" if isinstance(e.op, ast.Add) else "set", items, exact=False, deps=deps)
        if isinstance(e.op, ast.Add) and isinstance(b, Opq) and b.kind in ("find", "index", "offset") and isinstance(a, Const):
            a, b = b, a  # 1 + position
        if isinstance(e.op, (ast.Add, ast.Sub)) and isinstance(a, Opq) and a.kind in ("find", "index", "offset") and isinstance(b, Const) and isinstance(b.value, int) and not isinstance(b.value, bool):
            # a search position moved by a constant: (position, displacement)
            base_pos, off = (a, 0) if a.kind in ("find", "index") else a.meta
            return Opq(f"({key(a)} {type(e.op).__name__} {key(b)})", deps, kind="offset", meta=(base_pos, off + (b.value if isinstance(e.op, ast.Add) else -b.value)))
        return Opq(f"({key(a)} {type(e.op).__name__} {key(b)})", deps)

    def _seq(self, e, st, ctx, kind):
        items = []
        exact = True
        deps = frozenset()
        for x in e.elts:
            if isinstance(x, ast.Starred):
                inner = self.eval(x.value, st, ctx)
                ii = self.exact_items(inner, st)
                if ii is None:
                    exact = False
                    deps |= self.deps(inner, st)
                else:
                    items += ii
            else:
                items.append((self.eval(x, st, ctx), TRUE))
        return self.new_coll(st, kind, items, exact, deps=deps)

    def _e_List(self, e, st, ctx):
        return self._seq(e, st, ctx, "list")

    def _e_Tuple(self, e, st, ctx):
        return self._seq(e, st, ctx, "tuple")

    def _e_Set(self, e, st, ctx):
        return self._seq(e, st, ctx, "set")

    def _e_Dict(self, e, st, ctx):
        deps = frozenset()
        keys, vals = [], []
        exact = True
        for k, v in zip(e.keys, e.values):
            vv = self.eval(v, st, ctx)
            deps |= self.deps(vv, st)
            if k is None:
                exact = False
                continue
            kv = self.eval(k, st, ctx)
            deps |= self.deps(kv, st)
            keys.append(kv)
            vals.append(vv)
        c = self.new_coll(st, "dict", [(v, TRUE) for v in vals] if exact else [], exact, deps=deps)
        if exact:
            st.store[key(c) + ".keys"] = tuple(keys)
        return c

    def _e_Lambda(self, e, st, ctx):
        fi = getattr(e, "_func", None)
        if fi is None:
            # a lambda outside any function (module-level table of predicates, class attribute, default value): the loader
            # indexes only lambdas nested in functions, so give it a function record of its own (one per lambda node)
            cache = self.__dict__.setdefault("_module_lambdas", {})
            fi = cache.get(id(e))
            if fi is None:
                fi = cache[id(e)] = FuncInfo(name="<lambda>", qualname=f"<module>.<lambda@{getattr(e, 'lineno', 0)}:{getattr(e, 'col_offset', 0)}>", node=e, module=ctx.module)
        return FnV(fi, None, _Closure(dict(st.vars)))

    def _e_NamedExpr(self, e, st, ctx):
        v = self.eval(e.value, st, ctx)
        self.assign(e.target, v, st, ctx)
        return v

    def _e_Starred(self, e, st, ctx):
        return self.eval(e.value, st, ctx)

    def _e_Await(self, e, st, ctx):
        return self.eval(e.value, st, ctx)

    def _e_Yield(self, e, st, ctx):
        v = self.eval(e.value, st, ctx) if e.value is not None else Const(None)
        fr = self.frames[-1]
        fr.yields.append((v, conj(st.path[fr.base_path_len:])))
        if len(self.loops) > fr.base_loops:
            fr.yields_exact = False
        fr.__dict__.setdefault("yield_sites", []).append((v, tuple(st.path), tuple(self.loops[fr.base_loops:])))
        self._yield_feedback(st)
        return Opq("<yield>")

    def _e_YieldFrom(self, e, st, ctx):
        if isinstance(e.value, ast.Call):
            self.eager.add(id(e.value))
        v = self.eval(e.value, st, ctx)
        fr = self.frames[-1]
        items = self.exact_items(v, st)
        if items is not None and len(self.loops) == fr.base_loops:
            rel = conj(st.path[fr.base_path_len:])
            fr.yields += [(x, f_and([rel, c])) for x, c in items]
        else:
            fr.yields.append((Opq(f"elem({key(v)})", self.deps(v, st)), conj(st.path[fr.base_path_len:])))
            fr.yields_exact = False
        return Opq("<yield from>")

    def _e_Subscript(self, e, st, ctx):
        base = self.eval(e.value, st, ctx)
        if isinstance(e.slice, ast.Slice):
            deps = self.deps(base, st)
            bounds, bvals = [], []
            for x in (e.slice.lower, e.slice.upper, e.slice.step):
                bv = self.eval(x, st, ctx) if x is not None else None
                bvals.append(bv)
                if bv is not None:
                    deps |= self.deps(bv, st)
                bounds.append(key(bv) if bv is not None else "")
            # keyed by the values of the bounds (not by the names of the variables that hold them)
            res = Opq(f"{key(base)}[{':'.join(bounds).rstrip(':') or ':'}]", deps, kind="slice")
            if not isinstance(base, Coll):
                self.emit("slice", "[:]", bvals[:2], base, st, ctx, e, ("unknown",), res)
            return res
        idx = self.eval(e.slice, st, ctx)
        return self.subscript(base, idx, st, ctx, e)

    def subscript(self, base: Val, idx: Val, st: State, ctx: FuncInfo, e: ast.Subscript) -> Val:
        if isinstance(base, Phi):
            return mk_phi([(c, self.subscript(a, idx, st, ctx, e)) for c, a in base.alts])
        items = self.exact_items(base, st)
        if items is not None and isinstance(idx, Const) and isinstance(idx.value, int) and all(c == TRUE for _v, c in items) and -len(items) <= idx.value < len(items):
            return items[idx.value][0]
        cs = self.coll_state(base, st)
        if cs is not None and cs.kind == "dict" and cs.exact and (key(base) + ".keys") in st.store:
            ks = st.store[key(base) + ".keys"]
            hit = [v for k, (v, c) in zip(ks, cs.items) if key(k) == key(idx) and c == TRUE]
            if len(hit) == 1:
                return hit[0]
        cls = self.classes_of(base, e.value, ctx)
        if len(cls) == 1:
            gi = self.repo.lookup_method(cls[0], "__getitem__")
            if gi is not None and len(self.repo.implementations(cls[0], "__getitem__")) == 1:
                return self.call_function(gi, base, [idx], {}, st, None, ctx)
        try:
            t = self.T.expr(ctx, e.value)
        except Exception:  # noqa: BLE001
            t = ("unknown",)
        res = Opq(f"{key(base)}[{key(idx)}]", self.deps(base, st) | self.deps(idx, st), kind="item")
        self.emit("subscript", "[]", [idx], base, st, ctx, e, t, res)
        return res

    # comprehensions -----------------------------------------------------------------
    def _comp(self, e, st, ctx, kind):
        elts = [e.key, e.value] if isinstance(e, ast.DictComp) else [e.elt]
        saved_vars = dict(st.vars)
        out_items: list[tuple[Val, Formula]] = []
        state = {"exact": True, "deps": frozenset(), "complete": None, "first": True, "filt": None}

        def rec(gi: int, cond: Formula) -> None:
            if gi == len(e.generators):
                saved = list(st.path)
                if cond != TRUE:
                    st.path.append(cond)
                vals = [self.eval(x, st, ctx) for x in elts]
                st.path[:] = saved
                out_items.append((vals[-1], cond))
                for v in vals:
                    state["deps"] |= self.deps(v, st)
                return
            g = e.generators[gi]
            saved = list(st.path)
            if cond != TRUE:
                st.path.append(cond)
            if isinstance(g.iter, ast.Call):
                self.eager.add(id(g.iter))
            it = self.eval(g.iter, st, ctx)
            it = self.iterate(it, g.iter, st, ctx, [*elts, *g.ifs, *[x for g2 in e.generators[gi + 1:] for x in (g2.iter, *g2.ifs)]])
            st.path[:] = saved
            items = self.exact_items(it, st)
            if items is not None and len(items) <= MAX_UNROLL:
                for v, c in items:
                    self.assign(g.target, v, st, ctx)
                    cc = f_and([cond, c])
                    saved = list(st.path)
                    st.path.append(cc)
                    tests = [self.truth(self.eval(t, st, ctx), st) for t in g.ifs]
                    st.path[:] = saved
                    rec(gi + 1, f_and([cc, *tests]))
                return
            # abstract iteration
            state["exact"] = False
            state["deps"] |= self.deps(it, st)
            n = self.fresh()
            ia = atom(f"iter#{n}")
            elem = self.elem_of(it, st)
            lc = LoopCtx(n, ia, tuple(st.path) + ((cond,) if cond != TRUE else ()), it, e, "comp", elem, filt=self.filt_of(it, st))
            self.loops.append(lc)
            self.loop_log.append(lc)
            self.assign(g.target, elem, st, ctx)
            saved = list(st.path)
            st.path.append(f_and([cond, ia]))
            tests = [self.truth(self.eval(t, st, ctx), st) for t in g.ifs]
            st.path[:] = saved
            if gi == 0 and len(e.generators) == 1 and isinstance(e.elt if not isinstance(e, ast.DictComp) else None, ast.Name) and dotted(e.elt) == dotted(g.target):
                state["complete"] = self.complete_of(it, st)
                prev = self.filt_of(it, st)
                if g.ifs or prev is not None:
                    state["filt"] = (elem, f_and([*([prev[1]] if prev is not None else []), *tests]))
            rec(gi + 1, f_and([cond, ia, *tests]))
            self.loops.pop()

        rec(0, TRUE)
        st.vars.clear()
        st.vars.update(saved_vars)
        if state["exact"]:
            return self.new_coll(st, kind, out_items, True, deps=state["deps"])
        return self.new_coll(st, kind, [], False, complete_of=state["complete"], deps=state["deps"], filt=state["filt"] if state["complete"] else None)

    def _e_ListComp(self, e, st, ctx):
        return self._comp(e, st, ctx, "list")

    def _e_SetComp(self, e, st, ctx):
        return self._comp(e, st, ctx, "set")

    def _e_GeneratorExp(self, e, st, ctx):
        return self._comp(e, st, ctx, "list")

    def _e_DictComp(self, e, st, ctx):
        c = self._comp(e, st, ctx, "dict")
        cs = st.store[key(c)]
        st.store[key(c)] = dc_replace(cs, kind="dict", exact=cs.exact and not cs.items, items=())
        return c

    def complete_of(self, v: Val, st: State) -> str | None:
        if isinstance(v, Opq):
            return v.complete_of or (v.key if v.kind == "param" else None)
        cs = self.coll_state(v, st)
        if cs is not None:
            if cs.complete_of:
                return cs.complete_of
            if cs.exact and cs.items:
                ds = {d for it, _c in cs.items for d in self.deps(it, st) if not d.startswith("const:")}
                if len(ds) == 1 and all(isinstance(it, Opq) and it.kind == "param" for it, _c in cs.items):
                    return next(iter(ds))
        if isinstance(v, Phi):
            cs_ = {self.complete_of(a, st) for _c, a in v.alts}
            if len(cs_) == 1:
                return cs_.pop()
        return None

    def elem_of(self, it: Val, st: State) -> Val:
        f = self.filt_of(it, st)
        if f is not None:
            return f[0]
        return Opq(f"elem({key(it)})", self.deps(it, st), kind="elem", meta=(self.complete_of(it, st),))

    # ------------------------------------------------------------------ calls
    def _e_Call(self, e: ast.Call, st: State, ctx: FuncInfo) -> Val:
        f = e.func
        # receiver / function value
        base = None
        fval: Val | None = None
        if isinstance(f, ast.Attribute):
            base = self.eval(f.value, st, ctx)
            if isinstance(base, Opq) and base.kind == "libref":
                fval = Opq(f"{base.key}.{f.attr}", kind="libref")
                base = None
        elif isinstance(f, ast.Name):
            fval = self.eval(f, st, ctx)
        else:
            fval = self.eval(f, st, ctx)
        consumer = (isinstance(f, ast.Name) and f.id in FULL_CONSUMERS) or (isinstance(f, ast.Attribute) and f.attr in ("extend", "update", "join", "union", "intersection", "difference"))
        if consumer:
            for a in e.args:
                if isinstance(a, ast.Call):
                    self.eager.add(id(a))
        args: list[Val] = []
        star = False
        for a in e.args:
            v = self.eval(a, st, ctx)
            if isinstance(a, ast.Starred):
                items = self.exact_items(v, st)
                if items is not None and all(c == TRUE for _x, c in items) and not star:
                    args += [x for x, _c in items]
                    continue
                star = True
                continue
            if not star:
                args.append(v)
        kwargs: dict[str, Val] = {}
        for k in e.keywords:
            v = self.eval(k.value, st, ctx)
            if k.arg is None:
                if isinstance(v, KwArgs):
                    kwargs.update(dict(v.items))
                else:
                    star = True
            else:
                kwargs[k.arg] = v
        alldeps = frozenset().union(*[self.deps(a, st) for a in [*args, *kwargs.values()]]) if (args or kwargs) else frozenset()
        # ---- builtins by name
        if isinstance(f, ast.Name) and isinstance(fval, Opq) and fval.kind == "builtin" and not star:
            r = self.builtin(f.id, args, kwargs, st, ctx, e)
            if r is not None:
                return r
        # ---- library functions by qualified name
        if isinstance(fval, Opq) and fval.kind == "libref":
            return self.libcall(fval.key, args, kwargs, st, ctx, e, alldeps)
        # ---- methods on collections / strings
        if isinstance(base, Ref) and f.attr == "_replace" and not args and not star and base.cls and self.is_namedtuple(self.repo.classes.get(base.cls)):
            ref = Ref(self.fresh(), base.cls)
            for fname in self.record_fields(self.repo.classes[base.cls]):
                st.store[f"{key(ref)}.{fname}"] = kwargs[fname] if fname in kwargs else self.get_attr(base, fname, st, f.value, ctx)
            return ref
        if base is not None:
            r = self.method_call(base, f.attr, args, kwargs, st, ctx, e, alldeps)
            if r is not None:
                return r
            fval = self.get_attr(base, f.attr, st, f.value, ctx) if not isinstance(base, (Coll, Const, BoolV)) else None
        if isinstance(fval, Opq) and fval.kind in CALLABLE_KINDS and not star:
            return self.call_value(fval, args, kwargs, st, ctx, e)
        if star:
            if isinstance(fval, FnV) and not (self.stop is not None and self.stop([fval.fi])):
                # f(*args, **kwargs) with unknown extra arguments: the remaining parameters are unconstrained
                return self.call_function(fval.fi, fval.recv, args, kwargs, st, e, ctx, closure=fval.closure, fill_missing=True, raw=fval.raw)
            fval = fval if isinstance(fval, (ClsV,)) else None
        # ---- dynamic dispatch on a known function value
        if isinstance(fval, Phi) and all(isinstance(a, (FnV, ClsV)) for _c, a in fval.alts):
            return mk_phi([(c, self.apply(a, args, kwargs, st, ctx, e, alldeps)) for c, a in fval.alts])
        if isinstance(fval, (FnV, ClsV)):
            return self.apply(fval, args, kwargs, st, ctx, e, alldeps)
        # ---- static resolution
        try:
            callees, how = self.T.callees(ctx, e, byname_fallback=False)
        except Exception:  # noqa: BLE001
            callees, how = [], "unresolved"
        try:
            ci = self.T.ctor_class(ctx, e)
        except Exception:  # noqa: BLE001
            ci = None
        if ci is not None and not star:
            return self.construct(ci, args, kwargs, st, ctx, e)
        concrete = [c for c in callees if not c.is_abstract]
        if concrete and self.stop is not None and self.stop(concrete):
            return self.verdict(concrete, st, ctx, e, alldeps)
        if len(concrete) == 1 and how == "repo" and not star:
            recv = base if (isinstance(f, ast.Attribute) and concrete[0].is_method and not concrete[0].is_staticmethod) else None
            if concrete[0].is_classmethod:
                recv = ClsV(concrete[0].cls.fq)
            return self.call_function(concrete[0], recv, args, kwargs, st, e, ctx)
        return self.opaque_call(f, base, args, kwargs, st, ctx, e, alldeps)

    def verdict(self, callees: list[FuncInfo], st: State, ctx: FuncInfo, e: ast.AST, alldeps: frozenset) -> Val:
        self.outcomes.append(Outcome("verdict", tuple(st.path), "", None, ctx, e, dict(st.store), tuple(self.loops), callees[0].fq))
        return Opq(f"<result of {callees[0].qualname}#{self.fresh()}>", alldeps, kind="call")

    def opaque_call(self, f: ast.expr, base: Val | None, args, kwargs, st, ctx, e, alldeps) -> Val:
        name = f.attr if isinstance(f, ast.Attribute) else (f.id if isinstance(f, ast.Name) else norm(f, 30))
        rt = ("unknown",)
        if isinstance(f, ast.Attribute):
            try:
                rt = self.T.expr(ctx, f.value)
            except Exception:  # noqa: BLE001
                pass
        deps = alldeps | (self.deps(base, st) if base is not None else frozenset())
        fk = f"{key(base)}.{name}" if base is not None else name
        res = Opq(f"{fk}({', '.join([key(a) for a in args] + [f'{k}={key(v)}' for k, v in kwargs.items()])})", deps, kind="call")
        self.emit("call", name, args, base, st, ctx, e, rt, res)
        # an unknown callee may mutate the collections it receives
        for a in [*args, *kwargs.values()]:
            cs = self.coll_state(a, st)
            if cs is not None and cs.kind in ("list", "set", "dict"):
                st.store[key(a)] = dc_replace(cs, exact=False, ver=cs.ver + 1)
        return res

    def apply(self, fv: Val, args, kwargs, st, ctx, e, alldeps) -> Val:
        if isinstance(fv, ClsV):
            ci = self.repo.classes.get(fv.fq)
            if ci is None:
                return Opq(f"{fv.fq}(...)#{self.fresh()}", alldeps, kind="call")
            return self.construct(ci, args, kwargs, st, ctx, e)
        assert isinstance(fv, FnV)
        fi = fv.fi
        if self.stop is not None and self.stop([fi]):
            return self.verdict([fi], st, ctx, e, alldeps)
        recv = fv.recv
        if recv is None and fi.is_method and not fi.is_staticmethod and not fi.is_classmethod and args:
            recv, args = args[0], args[1:]  # unbound method: Rule.should(rule)
        if fi.is_classmethod and recv is None:
            recv = ClsV(fi.cls.fq)
        return self.call_function(fi, recv, args, kwargs, st, e, ctx, closure=fv.closure, raw=fv.raw)

    def construct(self, ci: ClassInfo, args, kwargs, st, ctx, e) -> Val:
        init = self.repo.lookup_method(ci, "__init__")
        ref = Ref(self.fresh(), ci.fq)
        self.emit("ctor", ci.fq, list(args) + list(kwargs.values()), None, st, ctx, e, ("type", ci.fq), ref)
        if init is None:
            fields: list[tuple[str, ClassInfo]] = []
            for c in reversed(self.repo.mro(ci)):
                for a in c.ann_attrs:
                    if a not in [x for x, _c in fields]:
                        fields.append((a, c))
            if ci.is_dataclass or fields:
                for i, (fname, c) in enumerate(fields):
                    if i < len(args):
                        v = args[i]
                    elif fname in kwargs:
                        v = kwargs[fname]
                    elif fname in c.class_attrs:
                        v = self.eval_in_module(c.module, c.class_attrs[fname], st)
                    else:
                        v = Opq(f"{key(ref)}.{fname}")
                    st.store[f"{key(ref)}.{fname}"] = v
            post = self.repo.lookup_method(ci, "__post_init__")
            if post is not None:
                self.call_function(post, ref, [], {}, st, e, ctx)
            return ref
        if self.stop is not None and self.stop([init]):
            return self.verdict([init], st, ctx, e, frozenset())
        self.call_function(init, ref, args, kwargs, st, e, ctx)
        return ref

    def wrapper_of(self, fi: FuncInfo) -> tuple[FuncInfo, str] | None:
        """(wrapper function, name of the decorator's parameter) for a method decorated with a repo-defined wrapping decorator."""
        if isinstance(fi.node, ast.Lambda):
            return None
        for d in getattr(fi.node, "decorator_list", []):
            if isinstance(d, ast.Call):
                continue
            fq = self.repo.resolve_name(fi.module, d) if isinstance(d, (ast.Name, ast.Attribute)) else None
            if not fq:
                continue
            modname, _, name = fq.rpartition(".")
            m = self.repo.modules.get(modname)
            dec = m.functions.get(name) if m is not None else None
            if dec is None or len(dec.param_names) != 1:
                continue
            rets = [n for n in own_nodes(dec.node) if isinstance(n, ast.Return) and isinstance(n.value, ast.Name)]
            inner = {n.name: n for n in dec.node.body if isinstance(n, (ast.FunctionDef,))}
            if len(rets) == 1 and rets[0].value.id in inner and getattr(inner[rets[0].value.id], "_func", None) is not None:
                return inner[rets[0].value.id]._func, dec.param_names[0]
        return None

    def call_function(self, fi: FuncInfo, recv: Val | None, args: list[Val], kwargs: dict[str, Val], st: State, e: ast.AST | None, ctx: FuncInfo | None, closure=None, fill_missing: bool = False, raw: bool = False) -> Val:
        if not raw:
            w = self.wrapper_of(fi)
            if w is not None and not any(fr.fi.fq == w[0].fq for fr in self.frames):
                wfi, pname = w
                wargs = ([recv] if recv is not None and not isinstance(recv, ClsV) else []) + list(args)
                return self.call_function(wfi, None, wargs, kwargs, st, e, ctx, closure=_Closure({pname: FnV(fi, None, None, True)}), fill_missing=fill_missing, raw=True)
        deps = frozenset().union(*[self.deps(a, st) for a in [*args, *kwargs.values()]]) if (args or kwargs) else frozenset()
        if recv is not None:
            deps |= self.deps(recv, st)

        def opaque(why: str) -> Val:
            res = Opq(f"{fi.qualname}({', '.join([key(a) for a in ([recv] if recv is not None and not isinstance(recv, ClsV) else []) + list(args)] + [f'{k}={key(v)}' for k, v in kwargs.items()])})", deps, kind="call")
            if e is not None and ctx is not None:
                self.emit("call", fi.name, list(args), recv, st, ctx, e, ("fn", fi.fq), res)
            return res

        gen = is_generator(fi)
        if fi.is_abstract or (gen and (e is None or id(e) not in self.eager)) or len(self.frames) >= self.max_depth or any(fr.fi.fq == fi.fq for fr in self.frames) or any("register" in d or "singledispatch" in d for d in fi.decorators):
            return opaque("not interpretable")
        if self.descend is not None and ctx is not None and not self.descend(ctx, fi):
            return opaque("out of scope")
        a = fi.node.args
        params = [p.arg for p in [*a.posonlyargs, *a.args]]
        vars_: dict[str, Val] = dict(closure.vars) if isinstance(closure, _Closure) else {}
        pos = list(params)
        if fi.cls is not None and fi.outer is None and not fi.is_staticmethod and pos and not isinstance(fi.node, ast.Lambda):
            first = pos.pop(0)
            if recv is not None:
                vars_[first] = recv
            elif args and not fill_missing:
                vars_[first] = args[0]
                args = args[1:]
            elif args:
                vars_[first] = args[0]
                args = args[1:]
            else:
                vars_[first] = Opq(first, frozenset({first}), kind="param")
        if len(args) > len(pos):
            if a.vararg is None:
                return opaque("too many arguments")
            extra = args[len(pos):]
            args = args[: len(pos)]
            vars_[a.vararg.arg] = self.new_coll(st, "tuple", [(x, TRUE) for x in extra]) if not fill_missing else Opq("*" + a.vararg.arg, kind="starargs")
        elif a.vararg is not None:
            vars_[a.vararg.arg] = self.new_coll(st, "tuple", []) if not fill_missing else Opq("*" + a.vararg.arg, kind="starargs")
        for p, v in zip(pos, args):
            vars_[p] = v
        allp = params + [p.arg for p in a.kwonlyargs]
        extra_kw = []
        for k, v in kwargs.items():
            if k not in allp:
                if a.kwarg is None:
                    return opaque("unknown keyword")
                extra_kw.append((k, v))
                continue
            vars_[k] = v
        if a.kwarg is not None:
            vars_[a.kwarg.arg] = KwArgs(tuple(extra_kw)) if not fill_missing else Opq("**" + a.kwarg.arg, kind="starargs")
        pos_all = [*a.posonlyargs, *a.args]
        for p, d in zip(pos_all[len(pos_all) - len(a.defaults):], a.defaults):
            if p.arg not in vars_:
                vars_[p.arg] = self.eval_in_module(fi.module, d, st)
        for p, d in zip(a.kwonlyargs, a.kw_defaults):
            if d is not None and p.arg not in vars_:
                vars_[p.arg] = self.eval_in_module(fi.module, d, st)
        for p in allp:
            if p not in vars_:
                if not fill_missing:
                    return opaque("missing argument")
                vars_[p] = Opq(p, frozenset({p}), kind="param")
        frame = Frame(fi, base_path_len=len(st.path), base_loops=len(self.loops))
        self.frames.append(frame)
        callee_st = State(vars_, st.store, list(st.path))
        try:
            if isinstance(fi.node, ast.Lambda):
                v = self.eval(fi.node.body, callee_st, fi)
                frame.returns.append((callee_st, v))
                end = None
            else:
                end = self.block(fi.node.body, callee_st, fi)
        finally:
            self.frames.pop()
        ends = list(frame.returns)
        if end is not None:
            ends.append((end, Const(None)))
        if not ends:
            # the callee never returns normally on this path
            st.path.append(FALSE)
            return Opq("<no return>")
        base = State(st.vars, st.store, list(st.path))
        n = len(st.path)
        merged = self.merge([(s, TRUE) for s, _v in ends], base)
        val = mk_phi([(conj(s.path[n:]), v) for s, v in ends])
        st.store = merged.store
        st.path = merged.path
        if gen:
            ydeps = frozenset().union(*[self.deps(v, st) for v, _c in frame.yields]) if frame.yields else frozenset()
            if frame.yields_exact:
                return self.new_coll(st, "list", list(frame.yields), True, deps=ydeps)
            sites = frame.__dict__.get("yield_sites", [])
            # what the generator yields before it enters its first loop comes first, in this order (a worklist generator
            # hands out its start node before anything else): kept as the leading elements of the otherwise unknown result
            lead = 0
            while lead < len(sites) and lead < len(frame.yields) and not sites[lead][2] and frame.yields[lead][0] == sites[lead][0]:
                lead += 1
            if 0 < lead < len(sites) and all(ls for _y, _p, ls in sites[lead:]):
                c = self.new_coll(st, "list", list(frame.yields[:lead]), False, deps=ydeps | deps)
                st.store[key(c) + ".lead"] = lead
                return c
            # `for m in modules: if cond(m): yield m` - the elements of `modules` that satisfy cond
            if sites and all(len(ls) == 1 and ls[0] is sites[0][2][0] and ls[0].elem is not None and y == ls[0].elem for y, _p, ls in sites):
                lc = sites[0][2][0]
                comp = lc.elem.meta[0] if isinstance(lc.elem, Opq) and lc.elem.meta else None
                if comp:
                    n0 = len(lc.pre_path) + 1
                    cond = f_or([conj(p[n0:]) for _y, p, _l in sites])
                    if lc.filt is not None:
                        cond = f_and([lc.filt[1], cond])
                    return self.new_coll(st, "list", [], False, complete_of=comp, deps=ydeps | deps, filt=(lc.elem, cond))
            return self.new_coll(st, "list", [], False, deps=ydeps | deps)
        return val

    # builtins -----------------------------------------------------------------------
    def builtin(self, name: str, args: list[Val], kwargs, st: State, ctx, e) -> Val | None:
        deps = frozenset().union(*[self.deps(a, st) for a in args]) if args else frozenset()
        if name == "isinstance" and len(args) == 2:
            return BoolV(atom(f"isinstance({key(args[0])}, {norm(e.args[1], 40)})"), deps)
        if name == "bool" and len(args) == 1:
            return BoolV(self.truth(args[0], st), deps)
        if name == "len" and len(args) == 1:
            if isinstance(args[0], Const) and isinstance(args[0].value, (str, bytes)):
                return Const(len(args[0].value))
            items = self.exact_items(args[0], st)
            if items is not None and all(c == TRUE for _v, c in items):
                return Const(len(items))
            return Opq(f"len({key(args[0])})", deps, kind="len", meta=(args[0],))
        if name in ("any", "all") and len(args) == 1:
            items = self.exact_items(args[0], st)
            if items is not None:
                if name == "any":
                    return BoolV(f_or([f_and([c, self.truth(v, st)]) for v, c in items]), deps)
                return BoolV(f_and([f_or([f_not(c), self.truth(v, st)]) for v, c in items]), deps)
            return BoolV(atom(f"{name}({key(args[0])})"), deps)
        if name in ("set", "list", "tuple", "dict", "frozenset") and not args and not kwargs:
            return self.new_coll(st, "set" if name == "frozenset" else name)
        if name in COMPLETE_BUILTINS and len(args) == 1 and e.args and not isinstance(e.args[0], ast.Starred):
            args = [self.iterate(args[0], e.args[0], st, ctx, [])]
        if name in COMPLETE_BUILTINS and len(args) == 1:
            kind = {"frozenset": "set", "sorted": "list", "reversed": "list"}.get(name, name)
            items = self.exact_items(args[0], st)
            if items is not None:
                return self.new_coll(st, kind, items[::-1] if name == "reversed" else items, True, complete_of=self.complete_of(args[0], st))
            return self.new_coll(st, kind, [], False, complete_of=self.complete_of(args[0], st), deps=deps, filt=self.filt_of(args[0], st))
        if name == "getattr" and len(args) >= 2:
            n = args[1]
            if isinstance(n, Const):
                return self.get_attr(args[0], str(n.value), st, e.args[0], ctx)
            if isinstance(n, Phi) and all(isinstance(a, Const) for _c, a in n.alts):
                return mk_phi([(c, self.get_attr(args[0], str(a.value), st, e.args[0], ctx)) for c, a in n.alts])
            return Opq(f"getattr({key(args[0])}, {key(n)})", deps)
        if name == "setattr" and len(args) == 3:
            self.set_attr(args[0], args[1], args[2], st)
            return Const(None)
        if name == "hasattr" and len(args) == 2:
            return BoolV(atom(f"hasattr({key(args[0])}, {key(args[1])})"), deps)
        if name == "cast" and len(args) == 2:
            return args[1]
        if name in ("str", "repr", "int", "float") and len(args) == 1:
            if isinstance(args[0], Const) and name == "str":
                return Const(str(args[0].value))
            return Opq(f"{name}({key(args[0])})", deps, kind="str")
        if name == "super":
            return Opq("<super>", kind="super")
        if name in ("max", "min") and len(args) >= 2 and not kwargs:
            if all(isinstance(a, Const) and isinstance(a.value, (int, float)) and not isinstance(a.value, bool) for a in args):
                return Const((max if name == "max" else min)(a.value for a in args))
            res = Opq(f"{name}({', '.join(key(a) for a in args)})", deps, kind=name, meta=tuple(args))
            self.emit("call", name, args, None, st, ctx, e, ("b", "builtin", ()), res)
            return res
        if name == "map" and len(args) >= 2 and not kwargs:
            return self.map_call(args[0], list(args[1:]), st, ctx, e)
        if name == "iter" and len(args) == 1 and isinstance(args[0], Coll):
            return args[0]
        if name == "filter" and len(args) == 2 and not kwargs:
            src = self.iterate(args[1], e.args[1], st, ctx, [])
            items = self.exact_items(src, st)
            if items is not None and len(items) <= MAX_UNROLL:
                out = []
                for x, c in items:
                    saved = list(st.path)
                    if c != TRUE:
                        st.path.append(c)
                    keep = self.truth(x if (isinstance(args[0], Const) and args[0].value is None) else self.call_value(args[0], [x], {}, st, ctx, e), st)
                    st.path[:] = saved
                    out.append((x, f_and([c, keep])))
                return self.new_coll(st, "list", out)
            # an unknown part of the elements: not a complete re-collection of anything
            return self.new_coll(st, "list", [], False, deps=deps)
        if name == "next" and len(args) in (1, 2) and not kwargs:
            items = self.exact_items(args[0], st)
            if items is not None and len(items) <= MAX_UNROLL:
                # the first element that is there; the default (or StopIteration) when none is
                alts, none_so_far = [], TRUE
                for x, c in items:
                    alts.append((f_and([none_so_far, c]), x))
                    none_so_far = f_and([none_so_far, f_not(c)])
                if len(args) == 2:
                    alts.append((none_so_far, args[1]))
                elif sat_path(st.path, none_so_far):
                    stop = ast.copy_location(ast.Raise(exc=ast.Name(id="StopIteration", ctx=ast.Load()), cause=None), e)
                    self._s_Raise(stop, st.fork(none_so_far), ctx)
                    st.path.append(f_not(none_so_far))
                return mk_phi(alts)
        if name in ("max", "min", "abs", "sum", "zip", "enumerate", "range", "map", "filter", "iter", "next", "open", "print", "type", "id", "hash", "round", "divmod", "ord", "chr", "callable", "issubclass", "vars", "dir", "format"):
            res = Opq(f"{name}({', '.join(key(a) for a in args)})#{self.fresh() if name in ('open', 'next', 'iter') else ''}".rstrip("#"), deps, kind="call")
            self.emit("call", name, args, None, st, ctx, e, ("b", "builtin", ()), res)
            return res
        return None

    def libcall(self, fq: str, args, kwargs, st, ctx, e, alldeps) -> Val:
        short = fq.split(".")[-1]
        if fq == "dataclasses.replace" and args:
            obj = args[0]
            cls = self.classes_of(obj, e.args[0], ctx)
            if len(cls) == 1:
                ci = cls[0]
                ref = Ref(self.fresh(), ci.fq)
                for c in reversed(self.repo.mro(ci)):
                    for fname in c.ann_attrs:
                        st.store[f"{key(ref)}.{fname}"] = kwargs[fname] if fname in kwargs else self.get_attr(obj, fname, st, e.args[0], ctx)
                self.emit("call", "replace", args, None, st, ctx, e, ("lib", fq), ref)
                return ref
        if fq == "dataclasses.astuple" and len(args) == 1 and isinstance(args[0], Ref) and args[0].cls in self.repo.classes:
            return self.new_coll(st, "tuple", [(self.get_attr(args[0], fname, st, e.args[0], ctx), TRUE) for fname in self.record_fields(self.repo.classes[args[0].cls])])
        r = self.functional_lib(fq, args, kwargs, st, ctx, e, alldeps)
        if r is not None:
            return r
        if fq in RE_SEARCH and len(args) >= 2:
            res = Opq(f"{fq}({key(args[0])}, {key(args[1])})", alldeps, kind="search", meta=(self.deps(args[0], st), self.deps(args[1], st)))
            self.emit("call", fq, args, None, st, ctx, e, ("lib", fq), res)
            return res
        if fq in ("copy.deepcopy", "copy.copy") and args:
            return args[0]
        if fq == "collections.deque":
            items = self.exact_items(args[0], st) if args else []
            if items is not None:
                return self.new_coll(st, "list", items)
            return self.new_coll(st, "list", [], False, deps=alldeps)
        res = Opq(f"{fq}({', '.join([key(a) for a in args] + [f'{k}={key(v)}' for k, v in kwargs.items()])})", alldeps, kind="call")
        self.emit("call", fq, args, None, st, ctx, e, ("lib", fq), res)
        return res

    # operator / functools / itertools --------------------------------------------------------
    def functional_lib(self, fq: str, args, kwargs, st: State, ctx, e, alldeps) -> Val | None:
        """operator.attrgetter / itemgetter / methodcaller, functools.partial (callable values), operator.getitem & co called
        directly, itertools.repeat / chain / chain.from_iterable / starmap."""
        ks = ", ".join([key(a) for a in args] + [f"{k}={key(v)}" for k, v in kwargs.items()])
        if fq == "operator.attrgetter" and args and all(isinstance(a, Const) and isinstance(a.value, str) for a in args):
            return Opq(f"attrgetter({ks})", kind="attrgetter", meta=tuple(a.value for a in args))
        if fq == "operator.itemgetter" and args:
            return Opq(f"itemgetter({ks})", alldeps, kind="itemgetter", meta=tuple(args))
        if fq == "operator.methodcaller" and args and isinstance(args[0], Phi) and all(isinstance(a, Const) and isinstance(a.value, str) for _c, a in args[0].alts):
            # methodcaller("should_only" if flag else "should")
            return mk_phi([(c, self.functional_lib(fq, [a, *args[1:]], kwargs, st, ctx, e, alldeps)) for c, a in args[0].alts])
        if fq == "operator.methodcaller" and args and isinstance(args[0], Const) and isinstance(args[0].value, str):
            return Opq(f"methodcaller({ks})", alldeps, kind="methodcaller", meta=(args[0].value, tuple(args[1:]), tuple(kwargs.items())))
        if fq == "functools.partial" and args:
            return Opq(f"partial({ks})", alldeps, kind="partial", meta=(args[0], tuple(args[1:]), tuple(kwargs.items())))
        if fq.startswith("operator.") and fq.split(".")[-1] in OPERATOR_FUNCS - {"attrgetter", "itemgetter", "methodcaller"} and not kwargs:
            return self.call_value(Opq(fq, kind="libref"), list(args), {}, st, ctx, e)
        if fq == "itertools.repeat" and len(args) == 1 and not kwargs:
            return Opq(f"repeat({ks})", alldeps, kind="repeat", meta=(args[0],))
        if fq == "itertools.repeat" and len(args) == 2 and isinstance(args[1], Const) and isinstance(args[1].value, int) and 0 <= args[1].value <= MAX_UNROLL:
            return self.new_coll(st, "list", [(args[0], TRUE)] * args[1].value)
        if fq in ("itertools.chain", "itertools.chain.from_iterable"):
            parts = list(args)
            if fq.endswith("from_iterable"):
                if len(args) != 1:
                    return None
                outer = self.exact_items(args[0], st)
                if outer is None:
                    # every element of every element of the argument
                    inner = self.elem_of(args[0], st)
                    return self.new_coll(st, "list", [], False, deps=self.deps(args[0], st) | self.deps(inner, st))
                parts, conds = [x for x, _c in outer], [c for _x, c in outer]
            else:
                conds = [TRUE] * len(parts)
            items: list[tuple[Val, Formula]] = []
            for part, c in zip(parts, conds):
                ii = self.exact_items(part, st)
                if ii is None:
                    return self.new_coll(st, "list", [], False, deps=alldeps | frozenset().union(*[self.deps(x, st) for x in parts]))
                items += [(x, f_and([c, c2])) for x, c2 in ii]
            return self.new_coll(st, "list", items)
        if fq == "itertools.starmap" and len(args) == 2 and not kwargs:
            return self.map_call(args[0], [args[1]], st, ctx, e, star=True)
        return None

    def call_value(self, fv: Val, args: list[Val], kwargs: dict[str, Val], st: State, ctx, e) -> Val:
        """Call of a callable *value* (function / class / bound method, operator.* function, attrgetter / itemgetter /
        methodcaller / partial object) with already evaluated arguments."""
        alldeps = frozenset().union(*[self.deps(a, st) for a in [*args, *kwargs.values()]]) if (args or kwargs) else frozenset()
        if isinstance(fv, Phi):
            return mk_phi([(c, self.call_value(a, args, kwargs, st, ctx, e)) for c, a in fv.alts])
        if isinstance(fv, (FnV, ClsV)):
            return self.apply(fv, list(args), dict(kwargs), st, ctx, e, alldeps)
        operand = ast.Name(id="<operand>", ctx=ast.Load())  # untyped: the static type comes from where the value was read
        sub = ast.Subscript(value=operand, slice=ast.Constant(value=None), ctx=ast.Load())
        ast.copy_location(sub, e)
        if isinstance(fv, Opq) and fv.kind == "libref" and fv.key.startswith("operator.") and not kwargs:
            op = fv.key.split(".")[-1]
            if op == "getitem" and len(args) == 2:
                return self.subscript(args[0], args[1], st, ctx, sub)
            if op in ("not_", "truth") and len(args) == 1:
                t = self.truth(args[0], st)
                return BoolV(f_not(t) if op == "not_" else t, alldeps)
            cmp_ = {"is_": ast.Is, "is_not": ast.IsNot, "eq": ast.Eq, "ne": ast.NotEq, "lt": ast.Lt, "le": ast.LtE, "gt": ast.Gt, "ge": ast.GtE}
            if op in cmp_ and len(args) == 2:
                return BoolV(self.compare(args[0], cmp_[op](), args[1], st), alldeps)
            if op == "contains" and len(args) == 2:
                return BoolV(self.compare(args[1], ast.In(), args[0], st), alldeps)
            if op in ("attrgetter", "itemgetter", "methodcaller"):
                r = self.functional_lib(fv.key, args, kwargs, st, ctx, e, alldeps)  # (never comes back here for these three)
                if r is not None:
                    return r
        if isinstance(fv, Opq) and fv.kind == "attrgetter" and len(args) == 1 and not kwargs:
            def chain_(obj: Val, dotted_name: str) -> Val:
                for a in dotted_name.split("."):
                    obj = self.get_attr(obj, a, st, operand, ctx)
                return obj
            vals = [chain_(args[0], n) for n in fv.meta]
            return vals[0] if len(vals) == 1 else self.new_coll(st, "tuple", [(v, TRUE) for v in vals])
        if isinstance(fv, Opq) and fv.kind == "itemgetter" and len(args) == 1 and not kwargs:
            vals = [self.subscript(args[0], k, st, ctx, sub) for k in fv.meta]
            return vals[0] if len(vals) == 1 else self.new_coll(st, "tuple", [(v, TRUE) for v in vals])
        if isinstance(fv, Opq) and fv.kind == "methodcaller" and len(args) == 1 and not kwargs:
            name, margs, mkw = fv.meta
            if name == "__getitem__" and len(margs) == 1 and not mkw:
                return self.subscript(args[0], margs[0], st, ctx, sub)
            target = self.get_attr(args[0], name, st, operand, ctx) if not isinstance(args[0], (Coll, Const, BoolV)) else None
            if isinstance(target, (FnV, ClsV, Phi)):
                return self.call_value(target, list(margs), dict(mkw), st, ctx, e)
            r = self.method_call(args[0], name, list(margs), dict(mkw), st, ctx, ast.Call(func=ast.Attribute(value=operand, attr=name, ctx=ast.Load()), args=[], keywords=[]), alldeps) if isinstance(args[0], Coll) else None
            if r is not None:
                return r
            res = Opq(f"{key(args[0])}.{name}({', '.join(key(a) for a in margs)})", alldeps | self.deps(args[0], st), kind="call")
            self.emit("call", name, list(margs), args[0], st, ctx, e, ("unknown",), res)
            return res
        if isinstance(fv, Opq) and fv.kind == "partial":
            f0, pargs, pkw = fv.meta
            return self.call_value(f0, [*pargs, *args], {**dict(pkw), **kwargs}, st, ctx, e)
        if isinstance(fv, Opq) and fv.kind == "builtin" and not kwargs:
            r = self.builtin(fv.key, list(args), {}, st, ctx, ast.Call(func=ast.Name(id=fv.key, ctx=ast.Load()), args=[operand] * len(args), keywords=[]))
            if r is not None:
                return r
        res = Opq(f"{key(fv)}({', '.join([key(a) for a in args] + [f'{k}={key(v)}' for k, v in kwargs.items()])})", alldeps | self.deps(fv, st), kind="call")
        self.emit("call", key(fv).split(".")[-1][:40], list(args), None, st, ctx, e, ("unknown",), res)
        return res

    def map_call(self, f: Val, iterables: list[Val], st: State, ctx, e, star: bool = False) -> Val:
        """map(f, it1, it2, ...) / starmap(f, it): evaluated eagerly, like a generator expression handed to a consumer.
        itertools.repeat(x) supplies x for every element of the other iterables."""
        nodes = list(getattr(e, "args", []))[1:]
        its = []
        for i, it in enumerate(iterables):
            if isinstance(it, Opq) and it.kind == "repeat":
                its.append(it)
            else:
                its.append(self.iterate(it, nodes[i] if i < len(nodes) and not isinstance(nodes[i], ast.Starred) else ast.Name(id="<operand>", ctx=ast.Load()), st, ctx, []))
        finite = [it for it in its if not (isinstance(it, Opq) and it.kind == "repeat")]
        if not finite:
            return Opq(f"map({key(f)}, ...)#{self.fresh()}", kind="call")
        exact = [self.exact_items(it, st) for it in finite]

        def call(vals: list[Val]) -> Val:
            if star:
                parts = self.exact_items(vals[0], st)
                if parts is None or not all(c == TRUE for _x, c in parts):
                    res = Opq(f"{key(f)}(*{key(vals[0])})", self.deps(vals[0], st), kind="call")
                    self.emit("call", "starmap", vals, None, st, ctx, e, ("unknown",), res)
                    return res
                vals = [x for x, _c in parts]
            return self.call_value(f, vals, {}, st, ctx, e)

        if all(x is not None for x in exact) and min(len(x) for x in exact) <= MAX_UNROLL and (len(finite) == 1 or all(c == TRUE for x in exact for _v, c in x)):
            out = []
            for row in range(min(len(x) for x in exact)):
                k = 0
                vals, cond = [], TRUE
                for it in its:
                    if isinstance(it, Opq) and it.kind == "repeat":
                        vals.append(it.meta[0])
                    else:
                        vals.append(exact[k][row][0])
                        cond = f_and([cond, exact[k][row][1]])
                        k += 1
                saved = list(st.path)
                if cond != TRUE:
                    st.path.append(cond)
                out.append((call(vals), cond))
                st.path[:] = saved
            return self.new_coll(st, "list", out)
        n = self.fresh()
        ia = atom(f"iter#{n}")
        primary = finite[0]
        elem = self.elem_of(primary, st) if len(finite) == 1 else Opq(f"elem({key(primary)})", self.deps(primary, st), kind="elem", meta=(None,))
        lc = LoopCtx(n, ia, tuple(st.path), primary, e, "comp", elem, filt=self.filt_of(primary, st) if len(finite) == 1 else None)
        self.loops.append(lc)
        self.loop_log.append(lc)
        saved = list(st.path)
        st.path.append(ia)
        try:
            vals, k = [], 0
            for it in its:
                if isinstance(it, Opq) and it.kind == "repeat":
                    vals.append(it.meta[0])
                else:
                    vals.append(elem if k == 0 else self.elem_of(it, st))
                    k += 1
            r = call(vals)
        finally:
            st.path[:] = saved
            self.loops.pop()
        deps = self.deps(r, st) | frozenset().union(*[self.deps(it, st) for it in finite])
        return self.new_coll(st, "list", [], False, deps=deps)

    def method_call(self, base: Val, attr: str, args, kwargs, st: State, ctx, e, alldeps) -> Val | None:
        """Builtin methods of collections and strings; None when `base` is not such a value."""
        if isinstance(base, Phi) and any(isinstance(a, Coll) for _c, a in base.alts) and attr in COLL_MUTATORS:
            # a conditional collection is mutated: apply to every collection alternative, weakly
            for c, a in base.alts:
                if isinstance(a, Coll):
                    cs = st.store[key(a)]
                    st.store[key(a)] = dc_replace(cs, exact=False, ver=cs.ver + 1)
            self.emit("mutate", attr, args, base, st, ctx, e)
            return Opq(f"{key(base)}.{attr}(...)#{self.fresh()}", alldeps | self.deps(base, st))
        if isinstance(base, Coll):
            return self.coll_method(base, attr, args, st, ctx, e, alldeps)
        try:
            t = self.T.expr(ctx, e.func.value)
        except Exception:  # noqa: BLE001
            t = ("unknown",)
        kinds = {m[1] for m in members(t) if m[0] == "b"}
        is_str = isinstance(base, Const) and isinstance(base.value, str) or "str" in kinds or (isinstance(base, Opq) and base.kind in ("str", "slice"))
        bdeps = self.deps(base, st) | alldeps
        if attr in STR_SEARCH and args and (is_str or not self.classes_of(base, e.func.value, ctx)):
            res = Opq(f"{key(base)}.{attr}({', '.join(key(a) for a in args)})", bdeps, kind="find" if attr in ("find", "rfind") else "index", meta=(self.deps(args[0], st), self.deps(base, st)))
            self.emit("call", attr, args, base, st, ctx, e, t, res)
            if res.key not in self.position_keys:
                self.position_keys.append(res.key)
            if attr in ("find", "rfind") and len(args) == 3 and isinstance(args[0], Const) and isinstance(args[0].value, str) and args[0].value:
                # text.rfind(needle, 0, max(earlier - k, 0)): when the earlier search found nothing (-1) the range is empty and
                # a non-empty needle is not found either.  (An unclamped `earlier - k` would be a negative = end-relative bound.)
                for earlier in self._clamped_positions(args[2]):
                    st.path.append(f_or([f_not(atom(f"notfound({earlier.key})")), atom(f"notfound({res.key})")]))
            return res
        if attr in ("search", "match", "fullmatch") and args and isinstance(base, Opq) and (base.key.startswith("re.compile(") or any(m[0] == "lib" and m[1].startswith("re.") for m in members(t))):
            res = Opq(f"{key(base)}.{attr}({key(args[0])})", bdeps, kind="search", meta=(self.deps(base, st), self.deps(args[0], st)))
            self.emit("call", "re." + attr, args, base, st, ctx, e, t, res)
            return res
        not_repo = not self.classes_of(base, e.func.value, ctx)
        if attr in ("partition", "rpartition") and len(args) == 1 and (is_str or not_repo) and not isinstance(base, (Coll, Ref)):
            # (head, sep, tail); sep == "" iff the separator does not occur
            k = f"{key(base)}.{attr}({key(args[0])})"
            meta = (self.deps(args[0], st), self.deps(base, st))
            head = Opq(f"{k}[0]", bdeps, kind="str")
            sep = Opq(f"{k}[1]", bdeps, kind="partsep", meta=meta)
            tail = Opq(f"{k}[2]", bdeps, kind="str")
            b = lambda v: self.truth(v, st)  # noqa: E731
            whole, rest, gone = (head, tail, tail) if attr == "partition" else (tail, head, head)
            absent = f_not(b(sep))
            st.path += [
                f_or([f_not(absent), f_not(b(gone))]),  # absent -> the part beyond the separator is empty
                f_or([f_not(absent), f_and([f_or([f_not(b(whole)), b(base)]), f_or([b(whole), f_not(b(base))])])]),  # absent -> the other part is the whole string
                f_or([b(base), f_and([f_not(b(head)), f_not(b(sep)), f_not(b(tail))])]),  # partition of an empty string
            ]
            self.emit("call", attr, args, base, st, ctx, e, t, sep)
            return self.new_coll(st, "tuple", [(head, TRUE), (sep, TRUE), (tail, TRUE)])
        if attr in ("split", "rsplit") and len(args) == 2 and isinstance(args[1], Const) and args[1].value == 1 and (is_str or not_repo) and not isinstance(base, (Coll, Ref)):
            # one or two parts; one part iff the separator does not occur
            res = Opq(f"{key(base)}.{attr}({key(args[0])}, 1)", bdeps, kind="split", meta=(self.deps(args[0], st), self.deps(base, st)))
            self.emit("call", attr, args, base, st, ctx, e, t, res)
            return res
        if is_str and attr in ("startswith", "endswith", "isidentifier", "isdigit", "isalpha"):
            return BoolV(atom(f"{key(base)}.{attr}({', '.join(key(a) for a in args)})"), bdeps)
        if is_str and attr in ("strip", "lstrip", "rstrip", "lower", "upper", "replace", "format", "join", "removeprefix", "removesuffix", "split", "rsplit", "partition", "rpartition", "splitlines", "title", "casefold", "encode"):
            if isinstance(base, Const) and attr == "join":
                items = self.exact_items(args[0], st) if args else None
                if items is not None and all(isinstance(v, Const) and c == TRUE for v, c in items):
                    return Const(base.value.join(str(v.value) for v, _c in items))
            return Opq(f"{key(base)}.{attr}({', '.join(key(a) for a in args)})", bdeps, kind="str")
        if attr in COLL_MUTATORS and isinstance(base, Opq) and ({"list", "set", "dict"} & kinds):
            self.emit("mutate", attr, args, base, st, ctx, e, t)
            return Opq(f"{key(base)}.{attr}({', '.join(key(a) for a in args)})#{self.fresh()}", bdeps)
        return None

    @staticmethod
    def _clamped_positions(hi: Val) -> list[Opq]:
        """Find-results p such that the bound `hi` is 0 whenever p is -1: hi = max(p + d, 0, <constants <= 0>) with d <= 1."""
        if not (isinstance(hi, Opq) and hi.kind == "max" and any(isinstance(a, Const) and a.value == 0 and not isinstance(a.value, bool) for a in hi.meta)):
            return []
        out = []
        for a in hi.meta:
            if isinstance(a, Const):
                if not (isinstance(a.value, int) and a.value <= 0):
                    return []
            elif isinstance(a, Opq) and a.kind == "find":
                out.append(a)  # max(-1, 0) == 0
            elif isinstance(a, Opq) and a.kind == "offset" and a.meta[1] <= 1:
                out.append(a.meta[0])  # max(-1 + d, 0) == 0 for d <= 1
            else:
                return []
        return out if len(out) == 1 else []

    def coll_method(self, c: Coll, attr: str, args, st: State, ctx, e, alldeps) -> Val:
        cs: CollState = st.store[key(c)]
        ck = key(c)

        def put(**kw):
            st.store[ck] = dc_replace(st.store[ck], **kw)
            if cs.kind == "dict":
                st.store.pop(ck + ".keys", None)
                st.store[ck] = dc_replace(st.store[ck], exact=False)

        if attr in ("append", "add", "appendleft", "insert") and args:
            v = args[-1]
            self.emit("mutate", attr, [v], c, st, ctx, e)
            put(items=cs.items + ((v, TRUE),), ver=cs.ver + 1)
            return Const(None)
        if attr in ("extend", "update") and args:
            self.emit("mutate", attr, args, c, st, ctx, e)
            items = self.exact_items(args[0], st)
            if items is not None:
                put(items=cs.items + tuple(items), ver=cs.ver + 1)
            else:
                put(exact=False, ver=cs.ver + 1, deps=cs.deps | self.deps(args[0], st), complete_of=None)
            return Const(None)
        if attr in ("pop", "popleft"):
            self.emit("mutate", attr, args, c, st, ctx, e)
            if cs.exact and cs.kind in ("list",) and cs.items and all(cond == TRUE for _v, cond in cs.items):
                idx = -1 if (attr == "pop" and not args) else (0 if attr == "popleft" or (isinstance(args[0], Const) and args[0].value == 0) else None)
                if idx is not None:
                    v = cs.items[idx][0]
                    put(items=cs.items[:-1] if idx == -1 else cs.items[1:], ver=cs.ver + 1)
                    return v
            put(items=(), exact=False if cs.items or not cs.exact else True, ver=cs.ver + 1)
            return Opq(f"{ck}v{cs.ver}.pop()", cs.deps | self.deps(c, st), kind="popped")
        if attr in ("remove", "discard", "clear", "difference_update", "intersection_update"):
            self.emit("mutate", attr, args, c, st, ctx, e)
            if attr == "clear":
                put(items=(), exact=True, ver=cs.ver + 1)
            elif cs.exact and not cs.items:
                pass
            else:
                put(items=(), exact=False, ver=cs.ver + 1, complete_of=None)
            return Const(None)
        if attr in ("sort", "reverse"):
            return Const(None)
        if attr == "copy":
            return self.new_coll(st, cs.kind, list(cs.items), cs.exact, cs.complete_of, cs.deps)
        if cs.kind == "dict" and cs.exact and attr in ("values", "keys", "items") and (ck + ".keys") in st.store and len(st.store[ck + ".keys"]) == len(cs.items):
            ks = st.store[ck + ".keys"]
            if attr == "values":
                return self.new_coll(st, "list", list(cs.items), True, deps=cs.deps)
            if attr == "keys":
                return self.new_coll(st, "list", [(k, c_) for k, (_v, c_) in zip(ks, cs.items)], True, deps=cs.deps)
            return self.new_coll(st, "list", [(self.new_coll(st, "tuple", [(k, TRUE), (v, TRUE)]), c_) for k, (v, c_) in zip(ks, cs.items)], True, deps=cs.deps)
        if attr in ("get", "setdefault", "items", "values", "keys", "index", "count", "intersection", "union", "difference", "issubset", "issuperset", "symmetric_difference", "isdisjoint"):
            if attr == "setdefault":
                self.emit("mutate", attr, args, c, st, ctx, e)
                put(exact=False, ver=cs.ver + 1)
            if attr == "get":
                self.emit("call", "get", args, c, st, ctx, e, ("b", cs.kind, ()))
            return Opq(f"{ck}v{cs.ver}.{attr}({', '.join(key(a) for a in args)})", self.deps(c, st) | alldeps, kind="call")
        return Opq(f"{ck}v{cs.ver}.{attr}(...)", self.deps(c, st) | alldeps, kind="call")


    # ------------------------------------------------------------------ statements
    def assign(self, target: ast.expr, v: Val, st: State, ctx: FuncInfo) -> None:
        if isinstance(target, ast.Name):
            st.vars[target.id] = v
        elif isinstance(target, ast.Attribute):
            self.set_attr(self.eval(target.value, st, ctx), target.attr, v, st)
        elif isinstance(target, (ast.Tuple, ast.List)):
            items = self.exact_items(v, st)
            if items is not None and len(items) == len(target.elts) and all(c == TRUE for _x, c in items) and not any(isinstance(t, ast.Starred) for t in target.elts):
                for t, (x, _c) in zip(target.elts, items):
                    self.assign(t, x, st, ctx)
            else:
                if isinstance(v, Opq) and v.kind == "split" and len(target.elts) == 2 and isinstance(getattr(target, "_parent", None), (ast.Assign, ast.AnnAssign)):
                    self.emit("call", "split-unpack", [], v, st, ctx, target, ("b", "list", ()), Opq(f"unpack({v.key})", v.deps, kind="index", meta=v.meta))
                for i, t in enumerate(target.elts):
                    meta = v.meta if isinstance(v, Opq) and v.kind == "elem" else ()
                    self.assign(t.value if isinstance(t, ast.Starred) else t, Opq(f"{key(v)}[{i}]", self.deps(v, st), kind="elem" if meta else "item", meta=meta), st, ctx)
        elif isinstance(target, ast.Subscript):
            base = self.eval(target.value, st, ctx)
            idx = self.eval(target.slice, st, ctx) if not isinstance(target.slice, ast.Slice) else Opq("<slice>")
            self.emit("mutate", "setitem", [idx, v], base, st, ctx, target)
            cs = self.coll_state(base, st)
            if cs is not None:
                st.store[key(base)] = dc_replace(cs, exact=False, ver=cs.ver + 1, deps=cs.deps | self.deps(v, st) | self.deps(idx, st))
        elif isinstance(target, ast.Starred):
            self.assign(target.value, v, st, ctx)

    def block(self, stmts: list[ast.stmt], st: State | None, ctx: FuncInfo) -> State | None:
        for s in stmts:
            if st is None:
                return None
            st = self.stmt(s, st, ctx)
        return st

    def stmt(self, s: ast.stmt, st: State, ctx: FuncInfo) -> State | None:
        m = getattr(self, "_s_" + type(s).__name__, None)
        if m is None:
            return st
        try:
            return m(s, st, ctx)
        except (AnalysisError, RecursionError):
            raise
        except Exception as ex:  # noqa: BLE001  - a statement shape the interpreter does not model: forget what it may have changed
            self.notes.append(f"{ctx.qualname}: `{header(s)[:60]}` not modelled ({type(ex).__name__}: {ex})")
            self.havoc([s], st, ctx, self.fresh())
            return st

    def _s_Expr(self, s, st, ctx):
        self.eval(s.value, st, ctx)
        return st if st.path[-1:] != [FALSE] else None

    def _s_Pass(self, s, st, ctx):
        return st

    def _s_Assign(self, s, st, ctx):
        v = self.eval(s.value, st, ctx)
        for t in s.targets:
            self.assign(t, v, st, ctx)
        return st if st.path[-1:] != [FALSE] else None

    def _s_AnnAssign(self, s, st, ctx):
        if s.value is not None:
            self.assign(s.target, self.eval(s.value, st, ctx), st, ctx)
        return st if st.path[-1:] != [FALSE] else None

    def _s_AugAssign(self, s, st, ctx):
        cur = self.eval(s.target, st, ctx) if not isinstance(s.target, ast.Subscript) else Opq("<item>")
        v = self.eval(s.value, st, ctx)
        cs = self.coll_state(cur, st)
        if cs is not None and isinstance(s.op, (ast.Add, ast.BitOr)):
            self.emit("mutate", "extend" if isinstance(s.op, ast.Add) else "update", [v], cur, st, ctx, s)
            items = self.exact_items(v, st)
            if items is not None:
                st.store[key(cur)] = dc_replace(cs, items=cs.items + tuple(items), ver=cs.ver + 1)
            else:
                st.store[key(cur)] = dc_replace(cs, exact=False, ver=cs.ver + 1, deps=cs.deps | self.deps(v, st), complete_of=None)
            return st
        if isinstance(cur, Const) and isinstance(v, Const):
            try:
                if isinstance(s.op, ast.Add):
                    self.assign(s.target, Const(cur.value + v.value), st, ctx)
                    return st
            except Exception:  # noqa: BLE001
                pass
        self.assign(s.target, Opq(f"({key(cur)} {type(s.op).__name__}= {key(v)})#{self.fresh()}", self.deps(cur, st) | self.deps(v, st)), st, ctx)
        return st

    def _s_Return(self, s, st, ctx):
        v = self.eval(s.value, st, ctx) if s.value is not None else Const(None)
        if st.path[-1:] == [FALSE]:
            return None
        fr = self.frames[-1]
        snap = st.fork()
        fr.returns.append((snap, v))
        if len(self.frames) == 1:
            self.outcomes.append(Outcome("return", tuple(st.path), "", v, ctx, s, dict(st.store), tuple(self.loops)))
        return None

    def _s_Raise(self, s, st, ctx):
        name = exception_class_name(self.repo, ctx, s.exc)
        if s.exc is not None:
            saved = self.stop
            self.stop = None
            try:
                self.eval(s.exc, st, ctx)  # arguments may have effects (events); never a verdict in themselves
            finally:
                self.stop = saved
        bases = exception_bases(self.repo, name) if s.exc is not None else {"<re-raise>"}
        for h in reversed(self.handlers):
            for i, ts in enumerate(h.types):
                if "<bare>" in ts or (set(ts) & bases):
                    h.caught.append((i, st.fork(), name))
                    return None
        self.outcomes.append(Outcome("raise", tuple(st.path), name, None, ctx, s, dict(st.store), tuple(self.loops)))
        return None

    def _s_Assert(self, s, st, ctx):
        c = self.truth(self.eval(s.test, st, ctx), st)
        if sat_path(st.path, f_not(c)):
            self.outcomes.append(Outcome("raise", tuple(st.path) + (f_not(c),), "AssertionError", None, ctx, s, dict(st.store), tuple(self.loops)))
        st.path.append(c)
        return st

    def _s_If(self, s, st, ctx):
        c = self.truth(self.eval(s.test, st, ctx), st)
        can_t = sat_path(st.path, c)
        can_f = sat_path(st.path, f_not(c))
        res = []
        if can_t:
            res.append((self.block(s.body, st.fork(c), ctx), c))
        if can_f:
            res.append((self.block(s.orelse, st.fork(f_not(c)), ctx), f_not(c)))
        if can_t and not can_f and res[0][0] is not None:
            # the test is implied by the path: keep the path as it was (no new information)
            r = res[0][0]
            return r
        return self.merge(res, st)

    def _havoc_targets(self, body: list[ast.stmt]) -> tuple[set[str], list[ast.expr], list[ast.expr]]:
        names: set[str] = set()
        attrs: list[ast.expr] = []
        mutated: list[ast.expr] = []
        managers: list[ast.expr] = []
        for st_ in body:
            for n in ast.walk(st_):
                if isinstance(n, ast.Name) and isinstance(n.ctx, ast.Store):
                    names.add(n.id)
                elif isinstance(n, ast.Attribute) and isinstance(n.ctx, ast.Store):
                    attrs.append(n)
                elif isinstance(n, ast.Call) and isinstance(n.func, ast.Attribute) and n.func.attr in COLL_MUTATORS:
                    mutated.append(n.func.value)
                elif isinstance(n, ast.Subscript) and isinstance(n.ctx, ast.Store):
                    mutated.append(n.value)
                elif isinstance(n, ast.AugAssign):
                    mutated.append(n.target)
                elif isinstance(n, (ast.With, ast.AsyncWith)):
                    managers += [it.context_expr for it in n.items]  # __enter__ / __exit__ run on the manager
        self._managers_in_body = managers
        return names, attrs, mutated

    def havoc(self, body: list[ast.stmt], st: State, ctx: FuncInfo, n: int, skip: set[str] = frozenset()) -> None:
        names, attrs, mutated = self._havoc_targets(body)
        saved_events = len(self.events)
        for m in mutated:
            try:
                v = self.eval(m, st, ctx) if not any(isinstance(x, ast.Call) for x in ast.walk(m)) else None
            except Exception:  # noqa: BLE001
                v = None
            cs = self.coll_state(v, st) if v is not None else None
            if cs is not None:
                st.store[key(v)] = dc_replace(cs, exact=False, ver=cs.ver + 100 + n, complete_of=None)
        for m in self._managers_in_body:
            if not any(isinstance(x, ast.Call) for x in ast.walk(m)):
                try:
                    self._havoc_object(self.eval(m, st, ctx), st, n)
                except Exception:  # noqa: BLE001
                    pass
        for a in attrs:
            try:
                b = self.eval(a.value, st, ctx)
            except Exception:  # noqa: BLE001
                continue
            k = f"{key(b)}.{a.attr}"
            st.store[k] = Opq(f"{k}@L{n}", self.deps(b, st), kind="attr")
        for name in names - set(skip):
            st.vars[name] = Opq(f"{name}@L{n}", kind="havoc")
        if any(isinstance(x, (ast.Yield, ast.YieldFrom)) for b in body for x in ast.walk(b)):
            self._yield_feedback(st)  # the consumer ran between the elements this loop produced
        del self.events[saved_events:]

    def _iteration(self, body: list[ast.stmt], st: State, ctx: FuncInfo) -> tuple[State | None, list[State]]:
        """One execution of a loop body; returns (state at the end of the iteration incl. `continue`s, states that left via break)."""
        ctl = {"continues": [], "breaks": []}
        self.loop_ctl.append(ctl)
        try:
            end = self.block(body, st, ctx)
        finally:
            self.loop_ctl.pop()
        ends = [(s_, TRUE) for s_ in ([end] if end is not None else []) + ctl["continues"]]
        return self.merge(ends, st), ctl["breaks"]

    def _s_Continue(self, s, st, ctx):
        if self.loop_ctl:
            self.loop_ctl[-1]["continues"].append(st)
        return None

    def _s_Break(self, s, st, ctx):
        if self.loop_ctl:
            self.loop_ctl[-1]["breaks"].append(st)
        return None

    def _abstract_loop(self, s, body, st: State, ctx: FuncInfo, it: Val | None, target: ast.expr | None, kind: str, test: ast.expr | None = None) -> State:
        n = self.fresh()
        ia = atom(f"iter#{n}")
        pre = tuple(st.path)
        elem = self.elem_of(it, st) if it is not None else None
        lc = LoopCtx(n, ia, pre, it, s, kind, elem, filt=self.filt_of(it, st) if it is not None else None)
        after = st.fork()
        self.havoc(body + ([ast.Assign(targets=[target], value=ast.Constant(value=None))] if target is not None else []), after, ctx, n)
        inner = after.fork(ia)
        if target is not None and elem is not None:
            self.assign(target, elem, inner, ctx)
        self.loops.append(lc)
        self.loop_log.append(lc)
        try:
            if test is not None:
                tv = self.eval(test, inner, ctx)
                lc.test_val = tv
                inner.path.append(self.truth(tv, inner))
            if sat_path(inner.path[:-1], inner.path[-1]) if inner.path else True:
                _end, breaks = self._iteration(body, inner, ctx)
            else:
                breaks = []
        finally:
            self.loops.pop()
        # state after the loop: everything assigned in the body is unknown; a `break` state is one more way to get here
        if breaks:
            merged = self.merge([(after, TRUE)] + [(b, TRUE) for b in breaks], st)
            if merged is not None:
                merged.path = list(st.path)
                self.havoc(body, merged, ctx, n)
                return merged
        return after

    def iterate(self, it: Val, node: ast.expr, st: State, ctx: FuncInfo, consumer: list[ast.AST] | None, complete: bool = True) -> Val:
        """`for x in obj` / `list(obj)` / a comprehension over an object of the repository: what its `__iter__` produces.
        A generator `__iter__` is interpreted eagerly (only when the consumer takes every element).  `consumer` is the code
        that runs between two elements; when it can reach the object (it names the expression that is iterated) the fields
        of the object that its other methods mutate are forgotten at every `yield` (walk.schedule(node) inside the loop)."""
        if isinstance(it, Phi) or not isinstance(it, (Ref, Opq)) or (isinstance(it, Opq) and it.kind not in ("attr", "param", "call", "item", "elem")):
            return it
        cls = self.classes_of(it, node, ctx)
        if len(cls) != 1:
            return it
        impls = self.repo.implementations(cls[0], "__iter__") if isinstance(it, Opq) else [self.repo.lookup_method(cls[0], "__iter__")]
        impls = [m for m in impls if m is not None and not m.is_abstract]
        if len(impls) != 1:
            return it
        fi = impls[0]
        if is_generator(fi) and not complete:
            return it
        call = ast.Call(func=ast.Attribute(value=node, attr="__iter__", ctx=ast.Load()), args=[], keywords=[])
        ast.copy_location(call, node)
        ast.fix_missing_locations(call)
        self.eager.add(id(call))
        names = {norm(node)} | ({node.id} if isinstance(node, ast.Name) else set())
        reachable = consumer is None or any(isinstance(n, (ast.Name, ast.Attribute)) and norm(n) in names for b in consumer for n in ast.walk(b))
        saved = self.__dict__.get("_feedback")
        self._feedback = (it, fi, self._consumer_mutable_fields(cls[0], fi)) if (reachable and isinstance(it, Ref)) else None
        try:
            return self.call_function(fi, it, [], {}, st, call, ctx)
        finally:
            self._feedback = saved

    def _consumer_mutable_fields(self, ci: ClassInfo, gen: FuncInfo) -> set[str] | None:
        """Fields of `ci` objects that a method other than the constructor and the generator itself assigns or mutates."""
        out: set[str] = set()
        for c in self.repo.mro(ci):
            for m in [*c.methods.values(), *c.extra_methods]:
                if m.name in ("__init__", "__post_init__") or m.fq == gen.fq or isinstance(m.node, ast.Lambda) or not m.param_names:
                    continue
                me = m.param_names[0]
                for n in ast.walk(m.node):
                    tgt = None
                    if isinstance(n, ast.Attribute) and isinstance(n.ctx, (ast.Store, ast.Del)):
                        tgt = n
                    elif isinstance(n, ast.Call) and isinstance(n.func, ast.Attribute) and n.func.attr in COLL_MUTATORS:
                        tgt = n.func.value
                    elif isinstance(n, ast.Subscript) and isinstance(n.ctx, (ast.Store, ast.Del)):
                        tgt = n.value
                    elif isinstance(n, ast.AugAssign):
                        tgt = n.target
                    if isinstance(tgt, ast.Attribute) and isinstance(tgt.value, ast.Name) and tgt.value.id == me:
                        out.add(tgt.attr)
                    elif isinstance(n, ast.Call) and any(isinstance(a, ast.Name) and a.id == me for a in n.args):
                        return None  # the object is handed to other code: anything may change
        return out

    def _yield_feedback(self, st: State) -> None:
        fb = self.__dict__.get("_feedback")
        if fb is None or not self.frames or self.frames[-1].fi.fq != fb[1].fq:
            return
        obj, _fi, fields = fb
        n = self.fresh()
        if fields is None:
            self._havoc_object(obj, st, n)
            return
        for f_ in fields:
            k = f"{key(obj)}.{f_}"
            cur = st.store.get(k)
            if cur is None:
                continue
            cs = self.coll_state(cur, st)
            if cs is not None:
                st.store[key(cur)] = dc_replace(cs, exact=False, ver=cs.ver + 100 + n, complete_of=None)
            elif not isinstance(cur, (FnV, ClsV)):
                st.store[k] = Opq(f"{k}@Y{n}", self.deps(cur, st), kind="attr")

    def _s_For(self, s, st, ctx):
        complete = not any(isinstance(n, (ast.Break, ast.Return)) for b in s.body for n in ast.walk(b))
        if isinstance(s.iter, ast.Call) and complete:
            self.eager.add(id(s.iter))
        it = self.eval(s.iter, st, ctx)
        if st.path[-1:] == [FALSE]:
            return None
        it = self.iterate(it, s.iter, st, ctx, s.body, complete)
        if st.path[-1:] == [FALSE]:
            return None
        if isinstance(it, Ref) and it.cls in self.repo.classes:
            nxt = self.repo.lookup_method(self.repo.classes[it.cls], "__next__")
            if nxt is not None and not nxt.is_abstract and not s.orelse:
                # an iterator object of the repository: `for x in it: body` is
                #   while True:
                #       try: x = it.__next__()
                #       except StopIteration: break
                #       body
                tmp = f"<iterator#{self.fresh()}>"
                st.vars[tmp] = it
                call = ast.Call(func=ast.Attribute(value=ast.Name(id=tmp, ctx=ast.Load()), attr="__next__", ctx=ast.Load()), args=[], keywords=[])
                fetch = ast.Try(body=[ast.Assign(targets=[s.target], value=call)], handlers=[ast.ExceptHandler(type=ast.Name(id="StopIteration", ctx=ast.Load()), name=None, body=[ast.Break()])], orelse=[], finalbody=[])
                loop = ast.While(test=ast.Constant(value=True), body=[fetch, *s.body], orelse=[])
                for x in ast.walk(loop):
                    if not hasattr(x, "lineno"):
                        ast.copy_location(x, s)
                ast.fix_missing_locations(loop)
                return self._s_While(loop, st, ctx)
        items = self.exact_items(it, st)
        if items is not None and len(items) <= MAX_UNROLL:
            cur: State | None = st
            broke: list[State] = []
            for v, c in items:
                if cur is None:
                    break
                if c != TRUE:
                    taken = cur.fork(c)
                    self.assign(s.target, v, taken, ctx)
                    end, br = self._iteration(s.body, taken, ctx)
                    broke += br
                    cur = self.merge([(end, c), (cur.fork(f_not(c)), f_not(c))], cur)
                else:
                    self.assign(s.target, v, cur, ctx)
                    base = cur
                    end, br = self._iteration(s.body, cur, ctx)
                    broke += br
                    cur = end
            if cur is not None and s.orelse:
                cur = self.block(s.orelse, cur, ctx)
            if broke:
                cur = self.merge([(x, TRUE) for x in ([cur] if cur is not None else []) + broke], st)
            return cur
        cs = self.coll_state(it, st)
        lead = st.store.get(key(it) + ".lead", 0) if cs is not None else 0
        if cs is not None and not cs.exact and 0 < lead <= len(cs.items) and complete:
            # the leading elements are known (see call_function): run the body for them, then abstractly for the rest
            cur: State | None = st
            for v, c in cs.items[:lead]:
                if cur is None:
                    return None
                if c != TRUE and not implies_path(cur.path, c):
                    taken = cur.fork(c)
                    self.assign(s.target, v, taken, ctx)
                    end, _br = self._iteration(s.body, taken, ctx)
                    cur = self.merge([(end, c), (cur.fork(f_not(c)), f_not(c))], cur)
                else:
                    self.assign(s.target, v, cur, ctx)
                    cur, _br = self._iteration(s.body, cur, ctx)
            if cur is None:
                return None
            st = cur
        after = self._abstract_loop(s, s.body, st, ctx, it, s.target, "for")
        if s.orelse:
            return self.block(s.orelse, after, ctx)
        return after

    _s_AsyncFor = _s_For

    def _s_While(self, s, st, ctx):
        tv = self.eval(s.test, st, ctx)
        c = self.truth(tv, st)
        cur = st
        peeled = 0
        # peel iterations while the test is known to hold (a worklist that starts with a known element)
        while peeled < 2 and c != FALSE and (c == TRUE or implies_path(cur.path, c)):
            peeled += 1
            end, breaks = self._iteration(s.body, cur, ctx)
            if breaks or end is None:
                outs = [(x, TRUE) for x in breaks]
                if end is not None:
                    rest = self._abstract_loop(s, s.body, end, ctx, None, None, "while", s.test)
                    outs.append((rest, TRUE))
                return self.merge(outs, st)
            cur = end
            tv = self.eval(s.test, cur, ctx)
            c = self.truth(tv, cur)
        if c == FALSE or not sat_path(cur.path, c):
            return self.block(s.orelse, cur, ctx) if s.orelse else cur
        after = self._abstract_loop(s, s.body, cur, ctx, None, None, "while", s.test)
        if s.orelse:
            return self.block(s.orelse, after, ctx)
        return after

    def _s_With(self, s, st, ctx):
        swallowed: list[str] = []
        for item in s.items:
            v = self.eval(item.context_expr, st, ctx)
            if item.optional_vars is not None:
                self.assign(item.optional_vars, v, st, ctx)
            types = suppress_call_types(self.repo, ctx, item.context_expr)
            if types is None:
                # a context manager class of the repository: __enter__ / __exit__ may change the manager's own state, and
                # __exit__ may swallow what the block raises
                if isinstance(v, (Ref, Phi)):
                    self._havoc_object(v, st, self.fresh())
                for ci in self._manager_classes(v, item.context_expr, ctx):
                    types = (types or []) + (exit_suppresses(self.repo, ci) or [])
            swallowed += types or []
        if not swallowed:
            return self.block(s.body, st, ctx)
        # `with m: body` where m swallows E  ==  `try: body / except E: pass`
        ty = None if "<bare>" in swallowed else ast.Tuple(elts=[ast.Name(id=t, ctx=ast.Load()) for t in sorted(set(swallowed))], ctx=ast.Load())
        synth = ast.Try(body=s.body, handlers=[ast.ExceptHandler(type=ty, name=None, body=[ast.Pass()])], orelse=[], finalbody=[])
        ast.copy_location(synth, s)
        return self._s_Try(synth, st, ctx)

    def _manager_classes(self, v: Val, node: ast.expr, ctx: FuncInfo) -> list[ClassInfo]:
        if isinstance(v, Phi):
            out: list[ClassInfo] = []
            for _c, a in v.alts:
                out += [c for c in self._manager_classes(a, node, ctx) if c not in out]
            return out
        return self.classes_of(v, node, ctx)

    def _havoc_object(self, v: Val, st: State, n: int) -> None:
        """Forget the attributes of an object of the repository whose methods ran unseen."""
        if isinstance(v, Phi):
            for _c, a in v.alts:
                self._havoc_object(a, st, n)
            return
        if not isinstance(v, Ref):
            return
        prefix = key(v) + "."
        for k in [k for k in st.store if k.startswith(prefix)]:
            cur = st.store[k]
            cs = self.coll_state(cur, st)
            if cs is not None:
                st.store[key(cur)] = dc_replace(cs, exact=False, ver=cs.ver + 100 + n, complete_of=None)
            elif not isinstance(cur, (FnV, ClsV)):
                st.store[k] = Opq(f"{k}@W{n}", self.deps(cur, st), kind="attr")

    _s_AsyncWith = _s_With

    def _s_Try(self, s, st, ctx):
        types = []
        for h in s.handlers:
            if h.type is None:
                types.append(["<bare>"])
            else:
                types.append([(self.repo.resolve_name(ctx.module, x) or dotted(x) or norm(x)).split(".")[-1] for x in (h.type.elts if isinstance(h.type, ast.Tuple) else [h.type])])
        n = self.fresh()
        hc = HandlerCtx(s, types, n=n)
        self.handlers.append(hc)
        first_event = len(self.events)
        try:
            # whatever leaves the body normally (falls through, returns) did so without a handler having been entered
            # (handlers for StopIteration alone are mostly entered from explicit raises only, see below: no atom for them)
            end = self.block(s.body, st.fork(f_and([f_not(atom(f"exc#{n}.{i}")) for i in range(len(s.handlers)) if not set(types[i]) <= {"StopIteration", "StopAsyncIteration"}])), ctx)
        finally:
            self.handlers.pop()
        if end is not None and s.orelse:
            end = self.block(s.orelse, end, ctx)
        outs = [(end, TRUE)] if end is not None else []
        for i, h in enumerate(s.handlers):
            # entered from an explicit raise that was caught, or from an exception raised by something opaque
            starts = [c_st for (hi, c_st, _n) in hc.caught if hi == i]
            # StopIteration only comes out of next() / an iterator that was not followed - not out of arbitrary library calls
            only_explicit = set(types[i]) <= {"StopIteration", "StopAsyncIteration"} and not any(
                ev.kind == "call" and (ev.name in ("next", "__next__", "send") or ev.recv_type[0] == "fn" or ev.recv_type == ("unknown",)) for ev in self.events[first_event:]
            )
            if not only_explicit:
                generic = st.fork(atom(f"exc#{n}.{i}"))
                self.havoc(s.body, generic, ctx, n)
                starts.append(generic)
            fr = self.frames[-1]
            before = (len(fr.returns), len([o for o in self.outcomes if o.kind in ("return", "verdict")]))
            falls = False
            for hs in starts:
                if h.name:
                    hs.vars[h.name] = Opq(f"{h.name}#{n}", kind="exception", meta=tuple(types[i]))
                r = self.block(h.body, hs, ctx)
                if r is not None:
                    outs.append((r, TRUE))
                    falls = True
            after = (len(fr.returns), len([o for o in self.outcomes if o.kind in ("return", "verdict")]))
            self.handler_swallows[(n, i)] = falls or after != before
        res = self.merge(outs, st)
        if res is not None and s.finalbody:
            res = self.block(s.finalbody, res, ctx)
        return res

    def _s_FunctionDef(self, s, st, ctx):
        fi = getattr(s, "_func", None)
        if fi is not None:
            st.vars[s.name] = FnV(fi, None, _Closure(st.vars))
        return st

    def _s_Match(self, s, st, ctx):
        self.eval(s.subject, st, ctx)
        n = self.fresh()
        outs = []
        for i, case in enumerate(s.cases):
            b = st.fork(atom(f"case#{n}.{i}"))
            self.havoc([ast.Expr(value=ast.Constant(value=None))], b, ctx, n)
            outs.append((self.block(case.body, b, ctx), TRUE))
        outs.append((st.fork(atom(f"case#{n}.none")), TRUE))
        return self.merge(outs, st)

    # ------------------------------------------------------------------ entry
    def run(self, fi: FuncInfo, init: Callable[["Sym", State], None] | None = None, self_val: Val | None = None) -> "Sym":
        vars_: dict[str, Val] = {}
        for i, p in enumerate(fi.params):
            if i == 0 and fi.is_method and not fi.is_staticmethod:
                vars_[p.arg] = self_val or (ClsV(fi.cls.fq) if fi.is_classmethod else Opq(p.arg, frozenset({p.arg}), kind="param"))
            else:
                vars_[p.arg] = Opq(p.arg, frozenset({p.arg}), kind="param")
        st = State(vars_, {}, [])
        for prm in fi.params:
            # an annotated parameter of the entry point keeps its type when it is handed to unannotated helpers
            self.__dict__.setdefault("_origin", {}).setdefault(prm.arg, (fi, ast.copy_location(ast.Name(id=prm.arg, ctx=ast.Load()), fi.node)))
        if init is not None:
            init(self, st)
        self.entry = fi
        w = self.wrapper_of(fi)
        if w is not None:
            wfi, pname = w
            vars_ = dict(vars_)
            wa = wfi.node.args
            wv: dict[str, Val] = {pname: FnV(fi, None, None, True)}
            for p in [*wa.posonlyargs, *wa.args, *wa.kwonlyargs]:
                wv[p.arg] = vars_.get(p.arg, Opq(p.arg, frozenset({p.arg}), kind="param"))
            if wa.vararg is not None:
                wv[wa.vararg.arg] = Opq("*" + wa.vararg.arg, kind="starargs")
            if wa.kwarg is not None:
                wv[wa.kwarg.arg] = Opq("**" + wa.kwarg.arg, kind="starargs")
            st = State(wv, st.store, [])
            fi = wfi
        self.frames.append(Frame(fi))
        try:
            end = self.block(fi.body if not isinstance(fi.node, ast.Lambda) else [ast.Return(value=fi.node.body)], st, fi)
        finally:
            self.frames.pop()
        if end is not None:
            self.outcomes.append(Outcome("return", tuple(end.path), "", Const(None), fi, fi.node, dict(end.store), ()))
        return self


def run(repo: Repo, fi: FuncInfo, stop=None, descend=None, init=None, self_val=None, max_depth: int = MAX_DEPTH) -> Sym:
    try:
        return Sym(repo, stop, descend, max_depth).run(fi, init, self_val)
    except RecursionError as e:  # pragma: no cover
        raise AnalysisError(f"symbolic execution of {fi.fq} recursed too deeply") from e


def describe(sym: Sym) -> str:
    out = []
    for o in sym.outcomes:
        out.append(f"{o.kind:7} {o.exc.split('.')[-1]:22} {show(o.cond)[:300]}   @{o.ctx.qualname if o.ctx else ''}:{getattr(o.node, 'lineno', 0)}")
    for ev in sym.events:
        out.append(f"  ev {ev.kind}:{ev.name}({', '.join(key(a) for a in ev.args)[:80]}) recv={key(ev.recv) if ev.recv else ''} loops={[lc.n for lc in ev.loops]} h={list(ev.handlers)} :: {show(ev.cond)[:200]}")
    return "\n".join(out)


if __name__ == "__main__":
    import sys

    repo_ = Repo()
    f_ = repo_.func(sys.argv[1], sys.argv[2])
    print(describe(run(repo_, f_)))
