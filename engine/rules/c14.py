"""C14 - module identity follows dotted-name boundaries, never raw string prefixes.

  C14.R1  every string-relational operation whose tested string is module-name-typed uses a boundary-safe idiom (F-NAME lint)
  C14.R2  the functions that cut names (ancestors, level flattening) cut at '.' only
  C14.R3  sub-module sets come from hierarchy edges (the sub-module search follows hierarchy edges only)
"""

from __future__ import annotations

import ast

from core.loader import AnalysisError, Repo, norm, own_nodes, parent
from core.report import Result

from . import c01, names
from .common import stmt_of, where

TYPES_MOD = "pytestarch.eval_structure.types"
NXGRAPH = "pytestarch.eval_structure.networkxgraph"


def add_sites(repo: Repo, res: Result, rule: str, sites, only=None) -> int:
    n = 0
    for s in sites:
        if only is not None and not only(s):
            continue
        key = repo.key(s.fi, stmt_of(s.node)) + f" [{s.op}: {norm(s.node, 70)}]"
        if s.verdict in ("safe", "unsafe"):
            n += 1
            res.add(rule, key, s.verdict == "safe", s.why, where(s.fi, s.node), kind="flow")
        elif s.verdict == "reviewed":
            res.observe(f"{rule} reviewed site {s.fi.relpath}::{s.fi.qualname}: `{norm(s.node, 60)}` - {s.why}")
        elif s.verdict == "unknown":
            res.undecide(rule, key, s.why, where(s.fi, s.node))
        elif s.verdict == "unclassified":
            res.observe(f"{rule} unclassified (not armed) {s.fi.relpath}::{s.fi.qualname}: `{norm(s.node, 60)}` - {s.why}")
    return n


def run(repo: Repo) -> Result:
    res = Result("C14")
    res.explanation = (
        "Decides a necessary condition of renaming invariance for all names: every startswith / endswith / in / find / replace / regex / "
        "slice-by-length operation whose tested string derives from a module name (provenance computed by the flow engine, not from variable "
        "names) uses an idiom that compares whole dotted components; the name-cutting helpers cut at '.' only; sub-module sets come from "
        "hierarchy edges. A raw prefix/substring test is wrong for every pair of prefix-related siblings, whatever the fixture names are."
    )
    res.not_decided = "invariance under renaming as a relation between two runs; regex specifications (excluded by the property)."
    res.trusted_base = ["engine flow analysis (provenance of module names)", "accepted boundary-safe idioms listed in rules/names.py"]
    sites = names.scan(repo)
    n = add_sites(repo, res, "C14.R1", sites)
    # the expected number of unsafe sites is zero and a refactoring may legitimately remove every string operation on names:
    # the positive fixture (all accepted and all rejected idioms) shows on every run that the lint still bites
    res.add("C14.R1", "fixture::engine/fixtures/name_ops.py", True, names.fixture_selfcheck(), nontrivial=False)
    res.analysed["string_relational_sites"] = len(sites)
    res.analysed["name_typed_sites"] = sum(1 for s in sites if s.name_typed)
    # R2: separators
    gpm = repo.func(TYPES_MOD, "get_parent_modules")
    consts = [c for c in ast.walk(gpm.node) if isinstance(c, ast.Constant) and isinstance(c.value, str) and not isinstance(parent(c), ast.Expr)]
    seps = sorted({c.value for c in consts if c.value != ""})
    res.add("C14.R2", f"{gpm.relpath}::get_parent_modules::separator", seps == ["."], "ancestors are cut at '.' only" if seps == ["."] else f"get_parent_modules cuts at {seps}", where(gpm, gpm.node), kind="structural")
    fl = repo.func(NXGRAPH, "NetworkxGraph._flatten_graph_node")
    splits = [c for c in ast.walk(fl.node) if isinstance(c, ast.Call) and isinstance(c.func, ast.Attribute) and c.func.attr in ("split", "rsplit", "join", "partition")]
    ok = bool(splits) and all((c.args and isinstance(c.args[0], ast.Constant) and c.args[0].value == ".") or (isinstance(c.func.value, ast.Constant) and c.func.value.value == ".") for c in splits)
    res.add("C14.R2", f"{fl.relpath}::{fl.qualname}::separator", ok, "level flattening splits and joins at '.' only" if ok else "level flattening does not split/join at '.' only", where(fl, fl.node), kind="structural")
    # R3: hierarchy-based sub-module sets
    tmp = Result("C01")
    c01.run_search(repo, tmp)
    k = 0
    for o in tmp.obligations:
        if "get_all_submodules_of" in o.construct:
            k += 1
            res.add("C14.R3", o.construct, o.ok, o.detail, o.where, o.nontrivial, o.kind)
    res.floor("C14.R3", 2, k)
    return res
