"""C14 - module identity follows dotted-name boundaries, never raw string prefixes.

  C14.R1  every string-relational operation whose tested string is module-name-typed uses a boundary-safe idiom (F-NAME lint,
          sites of group "relation": prefix / suffix / substring / regex / replace / slice-by-length / slice-by-index; sites of
          group "order" (F-NAME.ORDER): a scan over names sorted as plain strings does not stop / jump / forget remembered names
          where a name is unrelated - plain string order is no pre-order of the module tree: 'a' < 'a-b' < 'a.b')
  C14.R2  names are cut and re-assembled at '.' only (F-NAME lint, sites of group "separator": split / partition / find with a
          constant, join of components, characters of a name compared with a constant). The name-cutting functions are found by
          role: whatever is reachable from the public `get_parent_modules` and from the constructor of the public `NetworkxGraph`
          (level flattening) must contain at least one such cut - wherever it lives and whatever it is called.
  C14.R3  sub-module sets come from hierarchy edges (the sub-module search follows hierarchy edges only; search model of C01)
"""

from __future__ import annotations

from core.loader import AnalysisError, Repo, norm
from core.report import Result

from . import names

try:  # the search model (owned by the C01 / search rules)
    from .searchrules import run_search
except ImportError:  # pragma: no cover - older layout
    from .c01 import run_search
from .common import reachable_funcs, stmt_of, where

TYPES_MOD = "pytestarch.eval_structure.types"
NXGRAPH = "pytestarch.eval_structure.networkxgraph"

# sites of these groups are not a matter of C14 (component-wise comparison that respects boundaries but not the extent: C10)
FOREIGN_GROUPS = {"extent"}
CUT_OPS = {"split", "rsplit", "partition", "rpartition", "join", "char-compare", "slice-by-index", "find", "rfind", "index", "rindex", "count"}


def add_sites(repo: Repo, res: Result, rule: str, sites, only=None) -> int:
    n = 0
    for s in sites:
        if only is not None and not only(s):
            continue
        key = repo.key(s.fi, stmt_of(s.node)) + f" [{s.op}: {norm(s.node, 70)}]"
        if s.verdict in ("safe", "unsafe"):
            n += 1
            res.add(rule, key, s.verdict == "safe", s.why, where(s.fi, s.node), kind="flow")
        elif s.verdict == "reviewed":
            res.observe(f"{rule} reviewed site {s.fi.relpath}::{s.fi.qualname}: `{norm(s.node, 60)}` - {s.why}")
        elif s.verdict == "unknown":
            res.undecide(rule, key, s.why, where(s.fi, s.node))
        elif s.verdict == "unclassified":
            res.observe(f"{rule} unclassified (not armed) {s.fi.relpath}::{s.fi.qualname}: `{norm(s.node, 60)}` - {s.why}")
        elif s.verdict == "not-name" and s.name_typed:
            res.observe(f"{rule} lexical test on a name (not armed) {s.fi.relpath}::{s.fi.qualname}: `{norm(s.node, 60)}` - {s.why}")
    return n


def _group(s) -> str:
    return getattr(s, "group", "relation")


def run(repo: Repo) -> Result:
    res = Result("C14")
    res.explanation = (
        "Decides a necessary condition of renaming invariance for all names: every startswith / endswith / in / find / replace / regex / "
        "slice-by-length / slice-by-index operation whose tested string derives from a module name (provenance computed by the flow engine, "
        "not from variable names) uses an idiom that compares whole dotted components; names are split, searched, walked and re-joined at "
        "'.' only; sub-module sets come from hierarchy edges. A raw prefix/substring test is wrong for every pair of prefix-related "
        "siblings, whatever the fixture names are."
    )
    res.not_decided = "invariance under renaming as a relation between two runs; regex specifications (excluded by the property)."
    res.trusted_base = ["engine flow analysis (provenance of module names)", "accepted boundary-safe idioms listed in rules/names.py"]
    sites = names.scan(repo)
    n1 = add_sites(repo, res, "C14.R1", sites, only=lambda s: _group(s) in ("relation", "order"))
    n2 = add_sites(repo, res, "C14.R2", sites, only=lambda s: _group(s) == "separator")
    for s in sites:
        if _group(s) in FOREIGN_GROUPS and s.name_typed:
            res.observe(f"C14 not armed ({_group(s)}, decided by C10) {s.fi.relpath}::{s.fi.qualname}: `{norm(s.node, 60)}` - {s.verdict}: {s.why}")
    # the expected number of unsafe sites is zero and a refactoring may legitimately remove every string operation on names:
    # the positive fixture (all accepted and all rejected idioms) shows on every run that the lint still bites
    fx = names.fixture_selfcheck()
    res.add("C14.R1", "fixture::engine/fixtures/name_ops.py", True, fx, nontrivial=False)
    res.add("C14.R2", "fixture::engine/fixtures/name_ops.py", True, fx, nontrivial=False)
    res.analysed["string_relational_sites"] = len(sites)
    res.analysed["name_typed_sites"] = sum(1 for s in sites if s.name_typed)
    res.analysed["relation_sites"] = n1
    res.analysed["separator_sites"] = n2
    # R2, by role: the two places where the library itself cuts names must be visible to the lint
    gpm = repo.find_func(TYPES_MOD, "get_parent_modules")
    gpm_reach: set[str] = set()
    if gpm is None:
        res.undecide("C14.R2", f"{TYPES_MOD}::get_parent_modules", "the public function computing the ancestors of a name was not found")
    else:
        gpm_reach = {f.fq for f in reachable_funcs(repo, [gpm], byname=False)} | {gpm.fq}
        _role(repo, res, sites, "ancestors of a name (get_parent_modules)", gpm, gpm_reach)
    # level flattening happens somewhere between the public entry point (keyword `level_limit`) and the graph that is built
    g = repo.classes.get(f"{NXGRAPH}.NetworkxGraph") or next((c for c in repo.classes.values() if c.name == "NetworkxGraph"), None)
    init = [g.methods["__init__"]] if g is not None and "__init__" in g.methods else []
    entries = [f for f in repo.all_functions() if f.module.name == "pytestarch.pytestarch" and f.cls is None and f.outer is None and f.name.startswith("get_evaluable_architecture")]
    if not init and not entries:
        res.undecide("C14.R2", f"{NXGRAPH}::NetworkxGraph.__init__", "neither the constructor of the public graph class nor the public entry points were found")
    else:
        role = "level flattening (between get_evaluable_architecture / NetworkxGraph.__init__ and the graph)"
        near = ({f.fq for f in reachable_funcs(repo, init, byname=False)} | {r.fq for r in init}) - gpm_reach
        if any(s.name_typed and s.op in CUT_OPS and _top(s.fi).fq in near for s in sites) or not entries:
            _role(repo, res, sites, role, (init or entries)[0], near)
        else:  # flattening moved out of the graph class: anywhere on the way from the public entry points
            far = ({f.fq for f in reachable_funcs(repo, entries, byname=False)} | {r.fq for r in entries}) - gpm_reach
            _role(repo, res, sites, role, entries[0], far)
    # R3: hierarchy-based sub-module sets (search model, owned by C01)
    tmp = Result("C01")
    try:
        run_search(repo, tmp)
        k = 0
        for o in tmp.obligations:
            if "get_all_submodules_of" in o.construct:
                k += 1
                res.add("C14.R3", o.construct, o.ok, o.detail, o.where, o.nontrivial, o.kind)
        for u in tmp.undecided:
            if "get_all_submodules_of" in u.get("construct", ""):
                res.undecide("C14.R3", u["construct"], u["detail"], u.get("where", ""))
        if k < 2 and not any(u["rule"] == "C14.R3" for u in res.undecided):
            res.undecide("C14.R3", "get_all_submodules_of", f"only {k} obligation(s) of the search model concern the sub-module search (2 expected)")
    except AnalysisError as e:
        res.undecide("C14.R3", "search model", f"the search model (rules/c01.run_search) gave no verdict: {e}")
    return res


def _role(repo: Repo, res: Result, sites, role: str, anchor, reach: set[str]) -> None:
    # nested callables of reachable functions belong to them
    cuts = [s for s in sites if s.name_typed and s.op in CUT_OPS and _top(s.fi).fq in reach]
    key = f"{anchor.relpath}::{anchor.qualname}::{role}"
    if cuts:
        bad = [s for s in cuts if s.verdict == "unsafe"]
        res.add("C14.R2", key, not bad, f"{len(cuts)} cut(s) of names found by role, all at '.'" if not bad else f"{norm(bad[0].node, 60)}: {bad[0].why}", where(anchor, anchor.node), kind="structural")
    else:
        res.undecide("C14.R2", key, "no operation that cuts a name (split / partition / find / join / character loop / slice) was recognised in the functions of this role")


def _top(fi):
    while fi.outer is not None:
        fi = fi.outer
    return fi
