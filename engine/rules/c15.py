"""C15 - evaluation is pure and independent of order, history and hash seed.

  C15.R1  the graph is frozen after construction; graph mutators are reachable only from the constructor; all nodes exist before
          the first import edge is created
  C15.R2  no long-lived object is written during evaluation (rule objects, the evaluable and its graph, argument lists); one
          reviewed exception: the idempotent alias rewrite of Rule._configuration
  C15.R3  unordered (set) iteration never reaches text without `sorted`; no set is both grown and shrunk inside one loop over an
          unordered collection (iteration-order dependent result)
  C15.R4  no function writes class-level or module-level state (hidden state shared between scans / evaluations)
"""

from __future__ import annotations

import ast

from core.effects import Effects, Write
from core.flow import Flow, Spec
from core.guards import atom, conds_formula, f_not, implies
from core.inline_stmt import inline_view
from core.loader import AnalysisError, FuncInfo, Repo, ancestors, calls_in, header, norm, own_nodes, parent
from core.report import Result
from core.types import is_set_type, kind, members

from .c15_roots import FRESH, EffectSummaries, Roots
from .common import callees_of, cfg_of, conds, dotted, guard_formula, is_attr_call, reachable_funcs, stmt_of, types_of, where

NXGRAPH = "pytestarch.eval_structure.networkxgraph"
EVAL_GRAPH = "pytestarch.eval_structure.evaluable_graph"
RULE = "pytestarch.query_language.rule"
LAYER_RULE = "pytestarch.query_language.layered_architecture_rule"
DIAGRAM_RULE = "pytestarch.diagram_extension.diagram_rule"
MULTI = "pytestarch.query_language.multiple_rule_applier"

GRAPH_MUTATORS = {"add_node", "add_edge", "add_nodes_from", "add_edges_from", "remove_node", "remove_edge", "remove_nodes_from", "remove_edges_from", "clear", "update", "add_weighted_edges_from", "clear_edges"}


def evaluation_roots(repo: Repo) -> list[FuncInfo]:
    roots = [
        repo.func(RULE, "Rule.assert_applies"),
        repo.func(LAYER_RULE, "LayerRule.assert_applies"),
        repo.func(DIAGRAM_RULE, "DiagramRule.assert_applies"),
        repo.func(MULTI, "MultipleRuleApplier.assert_applies"),
    ]
    eg = repo.cls(EVAL_GRAPH, "EvaluableArchitectureGraph")
    for name in ("get_dependencies", "any_dependencies_from_dependents_to_modules_other_than_dependent_upons", "any_other_dependencies_on_dependent_upons_than_from_dependents", "visualize", "modules"):
        m = eg.methods.get(name)
        if m is None:
            raise AnalysisError(f"EvaluableArchitectureGraph.{name} not found")
        roots.append(m)
    return roots


# --------------------------------------------------------------------------- R1


def run_r1(repo: Repo, res: Result) -> None:
    g = repo.cls(NXGRAPH, "NetworkxGraph")
    init = g.methods.get("__init__")
    if init is None:
        raise AnalysisError("NetworkxGraph.__init__ not found")
    cfg = cfg_of(init)
    freeze = [c for c in calls_in(init.node) if (repo.resolve_name(init.module, c.func) or "").endswith("networkx.freeze") or dotted(c.func) in ("nx.freeze", "freeze")]
    builders = [c for c in calls_in(init.node) if isinstance(c.func, ast.Attribute) and dotted(c.func.value) == "self" and c.func.attr.startswith("_") and repo.lookup_method(g, c.func.attr) is not None]
    ok = len(freeze) == 1 and bool(builders)
    detail = "nx.freeze(self._graph) is the last step of the only constructor"
    if ok:
        fz = stmt_of(freeze[0])
        from core.cfg import EXIT

        ok = "_graph" in norm(freeze[0].args[0]) if freeze[0].args else False
        ok = ok and cfg.dominates(fz, EXIT) and all(cfg.dominates(stmt_of(b), fz) for b in builders)
        if not ok:
            detail = "the graph is not frozen on every path after it has been built (freeze must follow _initialise and dominate the exit)"
    else:
        detail = "the constructor does not freeze the graph after building it"
    res.add("C15.R1", f"{init.relpath}::{init.qualname}::freeze", ok, detail, where(init, init.node), kind="dominance")
    # who may mutate the graph
    T = types_of(repo)
    mutating: list[tuple[FuncInfo, ast.Call]] = []
    for f in repo.all_functions():
        for c in calls_in(f.node):
            if isinstance(c.func, ast.Attribute) and c.func.attr in GRAPH_MUTATORS:
                t = T.expr(f, c.func.value)
                if any(m == ("lib", "networkx.DiGraph") for m in members(t)):
                    mutating.append((f, c))
        for n in own_nodes(f.node):
            if isinstance(n, ast.Assign):
                for t_ in n.targets:
                    if isinstance(t_, ast.Subscript) and any(m == ("lib", "networkx.DiGraph") for m in members(T.expr(f, t_.value))):
                        mutating.append((f, n))
    # functions reachable from anything that is not the constructor chain
    public = [m for m in g.methods.values() if m is not init and (not m.name.startswith("_") or m.name.startswith("__"))]
    outside = reachable_funcs(repo, [*public, *evaluation_roots(repo)], byname=True, stop={init.fq})
    outside.pop(init, None)
    from_init = reachable_funcs(repo, [init], byname=False)
    for f, c in mutating:
        ok = f in from_init and f not in outside
        path = outside.get(f)
        res.add(
            "C15.R1",
            repo.key(f, stmt_of(c)),
            ok,
            "graph mutator reachable only from the constructor" if ok else f"`{norm(c)}` mutates the graph and is reachable after construction via {' -> '.join(p.split('::')[1] for p in path) if path else 'a function outside the constructor chain'}",
            where(f, c),
            kind="effect",
        )
    res.floor("C15.R1", 3, len(mutating) + 1)
    # all nodes before the first import edge
    ini = g.methods.get("_initialise")
    if ini is None:
        raise AnalysisError("NetworkxGraph._initialise not found")
    loops = [n for n in own_nodes(ini.node) if isinstance(n, ast.For) and "_imports" in norm(n.iter)]
    adders = [c for c in calls_in(ini.node) if is_attr_call(c, "_add_all_modules_as_nodes")]
    ok = bool(loops) and bool(adders) and all(cfg_of(ini).dominates(stmt_of(adders[0]), l) for l in loops) and not any(a is l for l in loops for a in ancestors(adders[0]))
    res.add("C15.R1", f"{ini.relpath}::{ini.qualname}::nodes before edges", ok, "every module is registered as a node before the first import edge is created" if ok else "import edges are created before all modules are nodes: the has_node guard makes the edge set depend on the order of imports/modules", where(ini, ini.node), kind="dominance")


# --------------------------------------------------------------------------- R2


def _roots(repo: Repo) -> Roots:
    key = "_c15_roots"
    if key not in repo.__dict__:
        repo.__dict__[key] = Roots(repo, types_of(repo))
    return repo.__dict__[key]


def _describe(tag, root_fn: FuncInfo) -> str:
    r, level = tag
    what = "receiver" if r[0] == "self" else f"argument `{r[2]}`" if r[0] == "param" else f"module-level `{r[1]}`" if r[0] == "global" else f"object of unknown origin `{r[1]}`"
    return {0: f"its {what}", 1: f"state owned by its {what}", 2: f"an object reachable from its {what}"}[level] if r[0] in ("self", "param") else what


class Rewrite:
    """A store `self.F = V` in (the inlined view of) an evaluation entry point where V is computed from self.F."""

    def __init__(self, root: FuncInfo, field_: str) -> None:
        self.root = root
        self.field = field_
        self.stores: list[tuple[FuncInfo, ast.AST]] = []  # original statements (function, node)
        self.verdict = "idempotent"  # idempotent | violated | undecided
        self.detail = ""
        self.flags: set[str] = set()


def _is_replace(repo: Repo, ctx: FuncInfo, call: ast.Call) -> bool:
    src = getattr(call, "_src", None)
    mod = src[0].module if src is not None else ctx.module
    fq = repo.resolve_name(mod, call.func) if isinstance(call.func, (ast.Name, ast.Attribute)) else None
    return fq in ("dataclasses.replace", "copy.replace")


def _falsy_const(e: ast.expr) -> bool:
    return isinstance(e, ast.Constant) and e.value in (False, None, 0)


def _classify_leaf(repo: Repo, v: FuncInfo, leaf: ast.expr, ident: set[str], T) -> tuple[str, set[str], str]:
    """('identity' | 'rebuild' | 'bad' | 'opaque', flags cleared, detail) for one value stored back into the field."""
    text = norm(leaf)
    if text in ident:
        return "identity", set(), ""
    if isinstance(leaf, ast.Call):
        rebuilt_from_old = False
        kw = {k.arg: k.value for k in leaf.keywords if k.arg is not None}
        if _is_replace(repo, v, leaf) and leaf.args and norm(leaf.args[0]) in ident:
            rebuilt_from_old = True
        elif T.ctor_class(v, leaf) is not None and any(norm(a) in ident or any(norm(x) in ident for x in ast.walk(a) if isinstance(x, (ast.Attribute, ast.Name))) for a in [*leaf.args, *kw.values()]):
            rebuilt_from_old = True
        if rebuilt_from_old:
            guard = guard_formula(v, leaf)
            cleared = set()
            for k, val in kw.items():
                if _falsy_const(val) and any(implies(guard, atom(f"bool({i}.{k})")) for i in ident):
                    cleared.add(k)
            if cleared:
                return "rebuild", cleared, ""
            return "bad", set(), f"`{norm(leaf, 90)}` builds a new value from the old one on a path that is not guarded by a flag of the old value which the new value clears: applying the rewrite twice differs from applying it once"
        return "opaque", set(), f"`{norm(leaf, 90)}` is computed by a call that could not be expanded"
    return "bad", set(), f"`{norm(leaf, 90)}` is neither the old value nor a guarded rebuild of it"


def _leaves(v: FuncInfo, e: ast.expr, seen: set[str] | None = None) -> list[ast.expr]:
    """Expressions a value may come from: conditional expressions are split, single-purpose locals are followed to their assignments."""
    seen = seen if seen is not None else set()
    if isinstance(e, ast.IfExp):
        return _leaves(v, e.body, seen) + _leaves(v, e.orelse, seen)
    if isinstance(e, ast.Name) and e.id not in v.param_names and e.id not in seen:
        seen.add(e.id)
        out: list[ast.expr] = []
        simple = True
        for n in own_nodes(v.node):
            if isinstance(n, (ast.Assign, ast.AnnAssign)) and n.value is not None:
                tg = n.targets if isinstance(n, ast.Assign) else [n.target]
                for t in tg:
                    if isinstance(t, ast.Name) and t.id == e.id:
                        out += _leaves(v, n.value, seen)
                    elif any(isinstance(x, ast.Name) and x.id == e.id for x in ast.walk(t)):
                        simple = False
            elif isinstance(n, (ast.For, ast.AsyncFor, ast.comprehension)) and any(isinstance(x, ast.Name) and x.id == e.id for x in ast.walk(n.target)):
                simple = False
            elif isinstance(n, (ast.AugAssign, ast.NamedExpr)) and isinstance(n.target, ast.Name) and n.target.id == e.id:
                simple = False
        if out and simple:
            return out
    return [e]


def _param_tainted(v: FuncInfo, params: set[str]) -> set[str]:
    """Locals of the view whose value may depend on one of `params`."""
    tainted = set(params)
    changed = True
    while changed:
        changed = False
        for n in own_nodes(v.node):
            src, tgts = None, []
            if isinstance(n, ast.Assign):
                src, tgts = n.value, n.targets
            elif isinstance(n, (ast.AnnAssign, ast.AugAssign)) and n.value is not None:
                src, tgts = n.value, [n.target]
            elif isinstance(n, (ast.For, ast.AsyncFor, ast.comprehension)):
                src, tgts = n.iter, [n.target]
            elif isinstance(n, ast.NamedExpr):
                src, tgts = n.value, [n.target]
            if src is None:
                continue
            if any(isinstance(x, ast.Name) and x.id in tainted for x in ast.walk(src)):
                for t in tgts:
                    for x in ast.walk(t):
                        if isinstance(x, ast.Name) and isinstance(x.ctx, ast.Store) and x.id not in tainted:
                            tainted.add(x.id)
                            changed = True
    return tainted


def find_rewrites(repo: Repo, root: FuncInfo) -> list[Rewrite]:
    """Self-rewrites `self.F = h(self.F)` of an entry point, each judged for idempotence on the inlined view."""
    T = types_of(repo)
    sn = Roots.self_name(root)
    if sn is None:
        return []
    v = inline_view(repo, root, T)
    by_field: dict[str, list[ast.Assign]] = {}
    for n in own_nodes(v.node):
        if isinstance(n, (ast.Assign, ast.AnnAssign)) and n.value is not None:
            tg = n.targets if isinstance(n, ast.Assign) else [n.target]
            for t in tg:
                if isinstance(t, ast.Attribute) and isinstance(t.value, ast.Name) and t.value.id == sn:
                    by_field.setdefault(t.attr, []).append(n)
    out: list[Rewrite] = []
    others = {p for p in root.param_names if p != sn}
    tainted = _param_tainted(v, others) if others else set()
    for fld, stores in by_field.items():
        ident = {f"{sn}.{fld}"}
        # locals that only ever alias the old value
        for n in own_nodes(v.node):
            if isinstance(n, (ast.Assign, ast.AnnAssign)) and n.value is not None and norm(n.value) in ident:
                tg = n.targets if isinstance(n, ast.Assign) else [n.target]
                for t in tg:
                    if isinstance(t, ast.Name) and _leaves(v, ast.Name(id=t.id, ctx=ast.Load())) and all(norm(x) == f"{sn}.{fld}" for x in _leaves(v, ast.Name(id=t.id, ctx=ast.Load()))):
                        ident.add(t.id)
        mentions_old = lambda e: any(norm(x) in ident for x in ast.walk(e) if isinstance(x, (ast.Attribute, ast.Name)))  # noqa: E731
        leaves: list[tuple[ast.AST, ast.expr]] = []
        for st in stores:
            for leaf in _leaves(v, st.value):
                leaves.append((st, leaf))
        if not any(mentions_old(leaf) for _st, leaf in leaves):
            continue  # not a rewrite of the old value: an ordinary write, judged by the effect rule
        rw = Rewrite(root, fld)
        for st in stores:
            src = getattr(st, "_src", None)
            rw.stores.append(src if src is not None else (root, st))
        for st, leaf in leaves:
            kind, flags, detail = _classify_leaf(repo, v, leaf, ident, T)
            if kind == "rebuild":
                rw.flags |= flags
                dep = sorted({x.id for x in ast.walk(leaf) if isinstance(x, ast.Name) and x.id in tainted})
                if dep:
                    rw.verdict, rw.detail = "violated", f"the rewritten `{sn}.{fld}` depends on the argument(s) {', '.join(dep)} of {root.qualname}: the stored value differs between architectures"
            elif kind == "bad" and rw.verdict != "violated":
                rw.verdict, rw.detail = "violated", detail
            elif kind == "opaque" and rw.verdict == "idempotent":
                rw.verdict, rw.detail = "undecided", detail
        if rw.verdict == "idempotent" and not rw.flags and all(norm(leaf) in ident for _st, leaf in leaves):
            rw.detail = f"`{sn}.{fld}` is only ever re-assigned to itself"
        elif rw.verdict == "idempotent":
            rw.detail = f"`{sn}.{fld}` is replaced by a rebuilt copy only while its flag {', '.join(sorted(rw.flags))} is set, and the copy clears that flag; otherwise it is stored back unchanged: applying the rewrite twice equals applying it once, and the rewrite does not look at the architecture"
        out.append(rw)
    return out


def run_r2(repo: Repo, res: Result) -> None:
    T = types_of(repo)
    R = _roots(repo)
    roots = evaluation_roots(repo)
    reach = reachable_funcs(repo, roots, byname=True)
    # reviewed exception: idempotent self-rewrites of an entry point (the alias rewrite of Rule._configuration)
    rewrites: list[Rewrite] = []
    accepted: set[int] = set()
    for r in roots:
        for rw in find_rewrites(repo, r):
            rewrites.append(rw)
            if rw.verdict != "violated":
                accepted |= {id(node) for _fi, node in rw.stores}
    S = EffectSummaries(repo, T, R, list(reach), skip=lambda w: id(w.node) in accepted)
    for r in roots:
        mine = [e for e in S.of(r) if e.tag[0][0] in ("self", "param") and e.tag[0][1] == r.fq]
        unknown = [e for e in S.of(r) if e.tag[0][0] == "unknown"]
        seen: set[int] = set()
        for e in [*mine, *unknown]:
            if id(e.write.node) in seen:
                continue
            seen.add(id(e.write.node))
            w = e.write
            res.add(
                "C15.R2",
                repo.key(w.fi, stmt_of(w.node)) + f" [via {r.qualname}]",
                False,
                f"evaluation entry point {r.qualname} may modify {_describe(e.tag, r)}: `{header(stmt_of(w.node))}` in {getattr(w.fi, 'shown', w.fi.qualname)} (call path: {' -> '.join(p.split('::')[1] for p in e.path)}); a long-lived object changes during evaluation, so the verdict of a later evaluation depends on this history",
                where(w.fi, w.node),
                kind="effect",
            )
        if not mine and not unknown:
            res.add("C15.R2", f"{r.relpath}::{r.qualname}::no long-lived write", True, f"nothing reachable from {r.qualname} writes to its receiver, its arguments or objects reachable from them", where(r, r.node), kind="effect")
    res.add("C15.R2", "evaluation region::writes to fresh objects", True, f"{S.fresh_writes} writes in {len(reach)} reachable functions go to objects created during the evaluation", kind="effect")
    for rw in rewrites:
        fi0, node0 = rw.stores[0]
        key = repo.key(fi0, stmt_of(node0)) + f" [reviewed: idempotent rewrite, via {rw.root.qualname}]"
        if rw.verdict == "undecided":
            res.undecide("C15.R2", key, f"{rw.root.qualname} stores a value computed from `self.{rw.field}` back into it, and idempotence of that rewrite cannot be established: {rw.detail}", where(fi0, node0))
        else:
            ok = rw.verdict == "idempotent"
            res.add("C15.R2", key, ok, rw.detail if ok else f"the rewrite of `self.{rw.field}` in {rw.root.qualname} is not idempotent: {rw.detail}", where(fi0, node0), kind="effect")
    res.analysed["evaluation_reachable_functions"] = len(reach)
    res.analysed["effect_rounds"] = S.rounds


# --------------------------------------------------------------------------- R3


def run_r3(repo: Repo, res: Result) -> None:
    T = types_of(repo)

    def set_typed(f: FuncInfo, e: ast.expr) -> bool:
        return is_set_type(T.expr(f, e))

    def sources(f: FuncInfo, e: ast.expr):
        # a list/tuple/iterator made from a set keeps the set's arbitrary order
        if isinstance(e, ast.Call) and isinstance(e.func, ast.Name) and e.func.id in ("list", "tuple", "iter", "enumerate", "map", "filter", "reversed") and e.args:
            if any(set_typed(f, a) for a in e.args if not isinstance(a, ast.Starred)):
                return {"U"}
        # a set stays a set when it is handed to a parameter annotated Iterable/Sequence: remember its nature
        if isinstance(e, (ast.Name, ast.Attribute, ast.Call, ast.Set, ast.SetComp)) and set_typed(f, e):
            return {"S"}
        return None

    def transfer(f: FuncInfo, call: ast.Call, names, args, recv, kwargs):
        fn = call.func
        if isinstance(fn, ast.Name) and fn.id in ("sorted", "set", "frozenset", "len", "any", "all", "sum", "min", "max"):
            return set()
        if isinstance(fn, ast.Attribute) and fn.attr in ("add", "update", "discard", "remove", "intersection", "union", "difference"):
            t = T.expr(f, fn.value)
            if any(m[0] == "b" and m[1] in ("set", "frozenset") for m in members(t)):
                return set()  # sets absorb elements in any order
        return None

    def post(f: FuncInfo, e: ast.expr, tags):
        # the tag describes the *order of a collection*: scalars, strings and repo objects do not carry it
        t = T.expr(f, e)
        ms = members(t)
        if ms and all(m[0] in ("cls", "type", "fn") or (m[0] == "b" and m[1] in ("str", "int", "bool", "none", "float", "set", "frozenset")) for m in ms):
            keep_s = any(m[0] == "b" and m[1] in ("set", "frozenset") for m in ms)
            return frozenset(x for x in tags if x != "U" and (x != "S" or keep_s))
        return tags

    flow = Flow(repo, T, Spec(sources=sources, transfer=transfer, post=post, sort_kills={"U"}, loop_tag="U", unordered_tags=frozenset({"S"}), non_absorbed=frozenset({"S"}), unordered_iter=set_typed, objects_carry=False, opaque={"len", "isinstance", "hasattr", "bool", "any", "all", "sum", "min", "max", "set", "frozenset", "sorted"}))
    n = 0
    sinks = 0
    for f in repo.all_functions():
        for node in own_nodes(f.node):
            sink_arg = None
            what = ""
            if isinstance(node, ast.Call) and isinstance(node.func, ast.Attribute) and node.func.attr == "join" and len(node.args) == 1:
                rt = T.expr(f, node.func.value)
                if any(m == ("b", "str", ()) for m in members(rt)):
                    sink_arg, what = node.args[0], f"{norm(node.func.value)}.join"
            elif isinstance(node, ast.FormattedValue):
                t = T.expr(f, node.value)
                if any(m[0] == "b" and m[1] in ("set", "frozenset", "list", "tuple", "dict", "seq", "iter") for m in members(t)):
                    sink_arg, what = node.value, "f-string"
            elif isinstance(node, ast.Call) and isinstance(node.func, ast.Name) and node.func.id in ("str", "repr") and node.args:
                t = T.expr(f, node.args[0])
                if any(m[0] == "b" and m[1] in ("set", "frozenset", "list", "tuple", "dict") for m in members(t)):
                    sink_arg, what = node.args[0], node.func.id
            if sink_arg is None:
                continue
            sinks += 1
            direct_set = set_typed(f, sink_arg) or (isinstance(sink_arg, (ast.GeneratorExp, ast.ListComp)) and any(set_typed(f, g.iter) for g in sink_arg.generators))
            tagged = bool({"U", "S"} & flow.tags(sink_arg))
            ok = not direct_set and not tagged
            n += 1
            res.add(
                "C15.R3",
                repo.key(f, stmt_of(node)) + f" [{what}({norm(sink_arg, 60)})]",
                ok,
                "text built from an ordered (sorted or list-ordered) collection" if ok else f"`{norm(sink_arg, 80)}` reaches text through {what} in set-iteration order ({'a set is joined directly' if direct_set else 'the collection was filled while iterating a set and never sorted'}): the message depends on PYTHONHASHSEED",
                where(f, node),
                kind="flow",
            )
    res.floor("C15.R3", 8, n)
    # grow-and-shrink of one container inside a loop over an unordered collection
    k = 0
    for f in repo.all_functions():
        for lp in own_nodes(f.node):
            if not isinstance(lp, (ast.For, ast.AsyncFor)) or not set_typed(f, lp.iter):
                continue
            grown: dict[str, ast.AST] = {}
            shrunk: dict[str, ast.AST] = {}
            for c in ast.walk(lp):
                if isinstance(c, ast.Call) and isinstance(c.func, ast.Attribute):
                    recv = dotted(c.func.value)
                    if not recv:
                        continue
                    if c.func.attr in ("add", "update", "append", "extend", "insert", "setdefault"):
                        grown.setdefault(recv, c)
                    elif c.func.attr in ("remove", "discard", "pop", "clear", "difference_update", "intersection_update"):
                        shrunk.setdefault(recv, c)
            k += 1
            both = sorted(set(grown) & set(shrunk))
            res.add(
                "C15.R3",
                repo.key(f, lp) + " [order-independent loop body]",
                not both,
                "loop over a set only grows (or only shrinks) each container: the result does not depend on iteration order" if not both else f"`{both[0]}` is both grown (`{norm(grown[both[0]], 60)}`) and shrunk (`{norm(shrunk[both[0]], 60)}`) inside one loop over the set `{norm(lp.iter)}`: the final content depends on the set's iteration order (hash seed)",
                where(f, lp),
                kind="structural",
            )
    res.floor("C15.R3.loops", 3, k)
    res.analysed["text_sinks"] = sinks


# --------------------------------------------------------------------------- R4


def shared_state_writes(repo: Repo) -> list[Write]:
    T = types_of(repo)
    E = Effects(repo, T)
    out = []
    for f in repo.all_functions():
        for w in E.writes(f):
            if w.root_kind in ("classvar", "global"):
                out.append(w)
    return out


def run_r4(repo: Repo, res: Result) -> None:
    T = types_of(repo)
    ws = shared_state_writes(repo)
    for w in ws:
        res.add(
            "C15.R4",
            repo.key(w.fi, stmt_of(w.node)),
            False,
            f"`{header(stmt_of(w.node))}` in {w.fi.qualname} writes {'class-level' if w.root_kind == 'classvar' else 'module-level'} state `{w.root}.{w.field}` shared by all instances: results of one scan / evaluation leak into the next one in the same process",
            where(w.fi, w.node),
            kind="effect",
        )
    # caching decorators keep hidden state as well
    cached = [f for f in repo.all_functions() if any(d in ("lru_cache", "cache", "cached_property") for d in f.decorators)]
    for f in cached:
        E = Effects(repo, T)
        mutable_ret = not isinstance(f.node, ast.Lambda) and any(isinstance(n, ast.Return) and n.value is not None and kind(T.expr(f, n.value)) in ("set", "list", "dict") for n in own_nodes(f.node))
        res.add(
            "C15.R4",
            f"{f.relpath}::{f.qualname}::cache decorator",
            False,
            f"{f.qualname} is memoised ({', '.join(f.decorators)}): results computed for one architecture/configuration are served to later calls" + (" and the cached mutable result is shared between callers" if mutable_ret else ""),
            where(f, f.node),
            kind="effect",
        )
    res.add("C15.R4", "src::no shared mutable state written inside functions", not ws and not cached, f"{len(repo.funcs)} functions analysed: none writes class-level or module-level state, none is memoised", kind="effect")
    # positive fixture: the rule must recognise a class-level cache (expected count on the real tree is zero)
    from pathlib import Path
    import shutil, tempfile

    fx = Path(__file__).resolve().parents[1] / "fixtures" / "shared_state.py"
    tmp = Path(tempfile.mkdtemp(prefix="pta-fixture-"))
    try:
        (tmp / "src" / "pytestarch").mkdir(parents=True)
        shutil.copy(fx, tmp / "src" / "pytestarch" / "fixture_shared_state.py")
        frepo = Repo(tmp)
        got = {(w.fi.qualname, w.root_kind) for w in shared_state_writes(frepo)}
        want = {("Cache.lookup", "classvar"), ("remember", "global"), ("Cache.via_cls", "classvar")}
        if not want <= got:
            raise AnalysisError(f"C15.R4 fixture: shared-state writes not recognised (got {sorted(got)}, want {sorted(want)})")
        res.add("C15.R4", "fixture::engine/fixtures/shared_state.py", True, f"positive fixture recognised: {sorted(got)}", nontrivial=False)
    finally:
        shutil.rmtree(tmp, ignore_errors=True)


def run(repo: Repo) -> Result:
    res = Result("C15")
    res.explanation = (
        "Decides purity structurally: (R1) the graph is frozen after construction, graph mutators are reachable only from the constructor and all "
        "nodes exist before import edges are created; (R2) nothing reachable from an evaluation entry point (assert_applies x4, the three "
        "queries, visualize, modules) writes to its receiver, its arguments or objects derived from them - writes go only to objects created "
        "during the evaluation; the single reviewed exception (alias rewrite of Rule._configuration) is checked to be idempotent; (R3) no set "
        "iteration order reaches text (join / f-string / str) without sorted, and no container is grown and shrunk inside one loop over a set; "
        "(R4) no function writes class-level or module-level state and nothing is memoised. Purity implies history-, re-application- and "
        "interleaving-independence of verdicts and messages; ordered sinks imply hash-seed independence of texts."
    )
    res.not_decided = "seed/ordering effects inside networkx/matplotlib; list order of `modules` (only set equality is claimed); the deprecated decorator's warnings.simplefilter calls (global library state, observed, outside the property's observables)."
    res.trusted_base = ["networkx.freeze makes every mutator raise", "engine resolver / call graph (CHA with name-based fallback) and freshness analysis"]
    run_r1(repo, res)
    run_r2(repo, res)
    run_r3(repo, res)
    run_r4(repo, res)
    for f in repo.all_functions():
        for c in calls_in(f.node):
            if dotted(c.func) == "warnings.simplefilter":
                res.observe(f"{f.relpath}::{f.qualname}: `{norm(c)}` changes the global warnings filter (library state outside the property's observables; not armed)")
    return res
