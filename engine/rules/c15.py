"""C15 - evaluation is pure and independent of order, history and hash seed.

  C15.R1  every class that keeps a networkx graph freezes it at the end of its constructor (decided on the inlined view of the
          constructor by graph-mutation events: nothing modifies the graph after nx.freeze, which lies on every path to the exit);
          graph mutators are reachable only from the constructor; every module is registered as a node before the first edge is
          created from the imports argument.  The order of construction events is read off a view in which helpers are expanded
          and producer / consumer protocols over iterators are spelled as loops (c15_fusion.py: generator functions yielding
          request records, itertools.chain, `[*a, *b]`, `xs.extend(gen)`, records dispatched by isinstance / match); an element
          recorded in a *ledger* - a container from which a graph is materialised later (`for n in self._seen: g.add_node(n)`,
          `g.add_edges_from(self._pending)`) - counts like the graph call it stands for
  C15.R2  nothing reachable from an evaluation entry point (public API: every concrete assert_applies, the query interface of the
          evaluable architecture) writes to the entry point's receiver, to its arguments or to anything reachable from them; decided
          by an ownership analysis (c15_roots.py) that knows fresh / owned / handed-in objects, independent of variable and helper
          names.  One kind of write is accepted: a self-rewrite `self.F = h(self.F)` that is idempotent (rebuilt only under a flag of
          the old value which the rebuilt value clears) and does not look at the other arguments.  A second kind is accepted when
          C15.R4 proves it unobservable: filling a memo table by key.  A `functools.cached_property` that is not provably
          unobservable counts as a write to its instance at the first read (an object created during the evaluation may cache
          whatever it likes; the evaluable, a rule or anything they hold may not)
  C15.R3  unordered (set) iteration never reaches text without `sorted`; no container is both grown and shrunk inside one loop over
          an unordered collection (helpers expanded)
  C15.R4  no function writes class-level, module-level or escaping-closure state, also not through an alias; no observable cache
          (memoised functions are accepted only when they are pure functions of immutable arguments with an immutable result;
          per instance - lru_cache on a method, cached_property - when they read nothing but state that is fixed once the
          constructor has finished and cannot run before that).  Instance tables that evaluations fill by key (c15_memo.py) are
          memos nobody can observe when they are keyed completely (data and control dependences of the stored value), filled
          after construction only, from state no evaluation assigns, only ever used by key, with immutable or copied values; a
          stored value that depends on a parameter missing from the key is reported
  C15.R5  order-independent selection (c15_selection.py): in a loop (for / worklist) over a collection whose order is not part of
          the contract - a set, a directory listing (iterdir / glob / listdir / scandir / walk), a sequence in the order in which a
          caller of the public API listed its items - no keep-or-drop decision reads what earlier iterations of the same loop have
          accumulated, except de-duplication on the element's own identity; a seen-set keyed by a derived value while the element
          is kept, or any other test against the kept-so-far collection, is reported.  Sorted input and tests against a collection
          that is complete before the loop are order independent.  Helpers that test and set (`if not self._register(name):
          continue`) are expanded where they are called; a de-duplication on a derived key counts only when what is kept is
          control dependent on its outcome (its branches, what follows an early exit, later tests of flags set there)

Anchors are public API names (assert_applies, get_dependencies, ... , the constructor signature (modules, imports, ...)), library
names (networkx.freeze, DiGraph.add_node / add_edge, dataclasses.replace, functools.lru_cache) and types - never private helpers,
local names or statement shapes.  R3 and R4 carry positive fixtures (c15_fixtures/) because their expected count on the tree is 0.
"""

from __future__ import annotations

import ast

from core.effects import Effects
from core.flow import Flow, Spec
from core.guards import atom, implies
from core.inline_stmt import inline_view
from core.loader import AnalysisError, FuncInfo, Repo, ancestors, calls_in, header, norm, own_nodes
from core.report import Result
from core.types import is_set_type, members

from .c15_fusion import fused_view
from .c15_roots import FRESH, EffectSummaries, Roots
from .common import callees_of, cfg_of, dotted, guard_formula, iter_sources, loops_around, reachable_funcs, stmt_of, types_of, where


GRAPH_MUTATORS = {"add_node", "add_edge", "add_nodes_from", "add_edges_from", "remove_node", "remove_edge", "remove_nodes_from", "remove_edges_from", "clear", "update", "add_weighted_edges_from", "clear_edges"}


QUERY_API = ("get_dependencies", "any_dependencies_from_dependents_to_modules_other_than_dependent_upons", "any_other_dependencies_on_dependent_upons_than_from_dependents", "visualize", "modules")


def _stub(f: FuncInfo) -> bool:
    """Interface declaration: nothing but a docstring, `pass`, `...` or `raise NotImplementedError`."""
    if f.is_abstract:
        return True
    for st in f.node.body:
        if isinstance(st, ast.Pass) or (isinstance(st, ast.Expr) and isinstance(st.value, ast.Constant)):
            continue
        if isinstance(st, ast.Raise) and st.exc is not None and "NotImplementedError" in norm(st.exc):
            continue
        return False
    return True


def evaluation_roots(repo: Repo) -> list[FuncInfo]:
    """Entry points of an evaluation, found by their public names (the API used by tests and docs), wherever the classes live:
    every concrete `assert_applies`, and every concrete implementation of the query interface of the evaluable architecture."""
    roots: list[FuncInfo] = []
    for ci in sorted(repo.classes.values(), key=lambda c: c.fq):
        m = ci.methods.get("assert_applies")
        if m is not None and not _stub(m):
            roots.append(m)
    if len(roots) < 3:
        raise AnalysisError(f"only {len(roots)} concrete assert_applies implementation(s) found (Rule, LayerRule, DiagramRule, MultipleRuleApplier expected)")
    for name in QUERY_API:
        impls = [ci.methods[name] for ci in sorted(repo.classes.values(), key=lambda c: c.fq) if name in ci.methods and not _stub(ci.methods[name])]
        if not impls:
            raise AnalysisError(f"no concrete implementation of the evaluable architecture's `{name}` found")
        roots += impls
    return roots


# --------------------------------------------------------------------------- R1

DIGRAPH = ("lib", "networkx.DiGraph")
NODE_ADDERS = {"add_node", "add_nodes_from"}
EDGE_ADDERS = {"add_edge", "add_edges_from", "add_weighted_edges_from"}


GRAPH_ONLY = {"add_node", "add_edge", "add_nodes_from", "add_edges_from", "add_weighted_edges_from", "remove_node", "remove_edge", "remove_nodes_from", "remove_edges_from", "clear_edges"}


def _is_digraph(T, f: FuncInfo, e: ast.AST) -> bool:
    try:
        return any(m == DIGRAPH for m in members(T.expr(f, e)))
    except Exception:  # noqa: BLE001
        return False


def _graph_call(T, f: FuncInfo, c: ast.Call) -> bool:
    """`c` is a mutator call on a networkx graph: by the receiver's type, or - for an untyped receiver - by a method name that
    only graphs have (add_node, add_edge, ...)."""
    if not (isinstance(c.func, ast.Attribute) and c.func.attr in GRAPH_MUTATORS):
        return False
    if _is_digraph(T, f, c.func.value):
        return True
    if c.func.attr in GRAPH_ONLY:
        try:
            ms = members(T.expr(f, c.func.value))
        except Exception:  # noqa: BLE001
            ms = []
        return all(m == ("unknown",) for m in ms)
    return False


def _through_digraph(T, f: FuncInfo, e: ast.AST) -> bool:
    """The expression is, or is reached through, a networkx graph (`g`, `g.nodes[n]`, `g[a][b]`)."""
    while True:
        if _is_digraph(T, f, e):
            return True
        if isinstance(e, (ast.Attribute, ast.Subscript)):
            e = e.value
        elif isinstance(e, ast.Call) and isinstance(e.func, ast.Attribute):
            e = e.func.value
        else:
            return False


def _lib_name(repo: Repo, ctx: FuncInfo, call: ast.Call) -> str:
    """Dotted name of a called library function; names in an inlined view are resolved where they were written."""
    src = getattr(call, "_src", None)
    mod = src[0].module if src is not None else ctx.module
    if isinstance(call.func, (ast.Name, ast.Attribute)):
        return repo.resolve_name(mod, call.func) or ""
    return ""


def graph_mutations(repo: Repo) -> list[tuple[FuncInfo, ast.AST, str, ast.AST]]:
    """(function, node, kind, receiver) of every in-place modification of a networkx graph: kind is node | edge | other."""
    from core.cfg import MUTATORS

    T = types_of(repo)
    out = []
    for f in repo.all_functions():
        for n in own_nodes(f.node):
            if isinstance(n, ast.Call) and isinstance(n.func, ast.Attribute):
                a = n.func.attr
                if _graph_call(T, f, n):
                    out.append((f, n, "node" if a in NODE_ADDERS else "edge" if a in EDGE_ADDERS else "other", n.func.value))
                elif a in MUTATORS and not _is_digraph(T, f, n.func.value) and _through_digraph(T, f, n.func.value):
                    out.append((f, n, "other", n.func.value))
            elif isinstance(n, (ast.Assign, ast.AugAssign, ast.AnnAssign, ast.Delete)):
                tg = n.targets if isinstance(n, (ast.Assign, ast.Delete)) else [n.target]
                for t in tg:
                    for el in (t.elts if isinstance(t, (ast.Tuple, ast.List)) else [t]):
                        if isinstance(el, (ast.Subscript, ast.Attribute)) and _through_digraph(T, f, el.value):
                            out.append((f, n, "other", el.value))
    return out


def _closure(repo: Repo, seeds: set[FuncInfo]) -> set[FuncInfo]:
    """Functions from which one of `seeds` is reachable through resolved calls."""
    key = "_c15_callers"
    if key not in repo.__dict__:
        rev: dict[FuncInfo, list[FuncInfo]] = {}
        for f in repo.all_functions():
            for g in callees_of(repo, f, False):
                rev.setdefault(g, []).append(f)
        repo.__dict__[key] = rev
    rev = repo.__dict__[key]
    out = set(seeds)
    work = list(seeds)
    while work:
        g = work.pop()
        for f in rev.get(g, ()):
            if f not in out:
                out.add(f)
                work.append(f)
    return out


def _own_exprs(s: ast.AST) -> list[ast.AST]:
    """Expressions evaluated by the statement itself (not by the statements nested in it)."""
    if isinstance(s, (ast.For, ast.AsyncFor)):
        return [s.iter]
    if isinstance(s, (ast.While, ast.If)):
        return [s.test]
    if isinstance(s, (ast.With, ast.AsyncWith)):
        return [i.context_expr for i in s.items]
    if isinstance(s, ast.Try):
        return []
    if isinstance(s, ast.Match):
        return [s.subject]
    if isinstance(s, (ast.FunctionDef, ast.AsyncFunctionDef, ast.ClassDef, ast.ExceptHandler)):
        return []
    return [s]


# ---- ledgers: containers in which the construction records nodes / edges before a graph is materialised from them

LEDGER_GROWERS = {"append", "add", "setdefault", "update", "extend", "insert", "appendleft", "extendleft"}
_VIEW_METHODS = {"items", "keys", "values", "copy"}
_COPY_FUNCS = {"sorted", "list", "tuple", "set", "frozenset", "enumerate", "reversed", "iter", "dict"}


def _ledger_base(e: ast.AST) -> ast.AST:
    """The container an iterable expression enumerates: `d.items()`, `sorted(d)`, `list(d.values())` -> `d`."""
    while True:
        if isinstance(e, ast.Call) and isinstance(e.func, ast.Attribute) and e.func.attr in _VIEW_METHODS and not e.args:
            e = e.func.value
        elif isinstance(e, ast.Call) and isinstance(e.func, ast.Name) and e.func.id in _COPY_FUNCS and e.args and not isinstance(e.args[0], ast.Starred):
            e = e.args[0]
        elif isinstance(e, ast.Starred):
            e = e.value
        else:
            return e


def _containerish(T, f: FuncInfo, e: ast.AST) -> bool:
    try:
        ms = members(T.expr(f, e))
    except Exception:  # noqa: BLE001
        return True
    return all(m == ("unknown",) or (m[0] == "b" and m[1] in ("list", "dict", "set", "frozenset", "seq", "tuple", "iter")) or (m[0] == "lib" and m[1].startswith("collections.")) for m in ms)


def _ledger_keys(repo: Repo, T, f: FuncInfo, base: ast.AST) -> list[tuple]:
    """Identity of a container expression: a local of this function, or the attribute of (the classes of) an object."""
    if isinstance(base, ast.Name):
        return [("local", f.fq, base.id)] if _containerish(T, f, base) else []
    if isinstance(base, ast.Attribute) and _containerish(T, f, base):
        try:
            ms = members(T.expr(f, base.value))
        except Exception:  # noqa: BLE001
            ms = []
        out = []
        for m in ms:
            if m[0] == "cls" and m[1] in repo.classes:
                ci = repo.classes[m[1]]
                out += [("attr", c.fq, base.attr) for c in {*repo.mro(ci), *repo.subclasses(ci)} if c.fq in repo.classes]
        return out
    return []


def _grow_writes(n: ast.AST) -> list[tuple[ast.AST, ast.AST]]:
    """(container expression, written node) for a node that adds something to a container."""
    if isinstance(n, ast.Call) and isinstance(n.func, ast.Attribute) and n.func.attr in LEDGER_GROWERS:
        return [(n.func.value, n)]
    if isinstance(n, (ast.Assign, ast.AnnAssign)) and getattr(n, "value", None) is not None:
        tg = n.targets if isinstance(n, ast.Assign) else [n.target]
        return [(el.value, n) for t in tg for el in (t.elts if isinstance(t, (ast.Tuple, ast.List)) else [t]) if isinstance(el, ast.Subscript)]
    if isinstance(n, ast.AugAssign) and isinstance(n.op, (ast.Add, ast.BitOr)):
        if isinstance(n.target, ast.Subscript):
            return [(n.target.value, n)]
        if isinstance(n.target, (ast.Name, ast.Attribute)):
            return [(n.target, n)]
    return []


class Ledgers:
    """Containers whose elements become nodes / edges of a networkx graph later on (`for n in self._seen: graph.add_node(n)`,
    `graph.add_edges_from(self._pending)`, also through a second container): writing to such a container is the construction
    event the later graph call merely replays, in the container's (insertion) order."""

    def __init__(self, repo: Repo, T) -> None:
        self.repo = repo
        self.T = T
        self.kinds: dict[tuple, set[str]] = {}

    def kinds_of(self, f: FuncInfo, container: ast.AST) -> set[str]:
        out: set[str] = set()
        for k in _ledger_keys(self.repo, self.T, f, container):
            out |= self.kinds.get(k, set())
        return out

    def write_keys(self, f: FuncInfo, n: ast.AST) -> list[tuple]:
        """Identities of the containers the statement / call `n` of `f` adds something to."""
        out: list[tuple] = []
        for cont, _w in _grow_writes(n):
            out += _ledger_keys(self.repo, self.T, f, cont)
        return out

    def mixed(self, key: tuple) -> bool:
        """Nodes and edges travel through this one container: replaying it keeps their relative order."""
        return {"node", "edge"} <= self.kinds.get(key, set())

    def write_kinds(self, f: FuncInfo, n: ast.AST) -> set[str]:
        """Kinds ('node' / 'edge') of graph elements the statement / call `n` of `f` records in a ledger."""
        out: set[str] = set()
        if not self.kinds:
            return out
        for cont, _w in _grow_writes(n):
            out |= self.kinds_of(f, cont)
        return out

    def discover(self, v: FuncInfo) -> bool:
        """Looks at one function (view): which containers are enumerated around a graph call / ledger write.  True when new."""
        T, repo = self.T, self.repo
        changed = False
        for n in own_nodes(v.node):
            kinds: set[str] = set()
            bulk: list[ast.AST] = []
            if isinstance(n, ast.Call) and isinstance(n.func, ast.Attribute) and _graph_call(T, v, n):
                a = n.func.attr
                if a in NODE_ADDERS:
                    kinds = {"node"}
                elif a in EDGE_ADDERS:
                    kinds = {"edge"}
                if a in ("add_nodes_from", "add_edges_from", "add_weighted_edges_from") and n.args:
                    bulk = [n.args[0]]
            if not kinds:
                kinds = self.write_kinds(v, n)
                if kinds and isinstance(n, ast.Call) and n.func.attr in ("update", "extend", "extendleft") and n.args:  # type: ignore[union-attr]
                    bulk = [n.args[0]]
            if not kinds:
                continue
            sources = [*bulk]
            for lp in loops_around(n, v.node):
                sources += [it for _t, it in iter_sources(lp)]
            for it in sources:
                base = _ledger_base(it)
                if isinstance(base, (ast.GeneratorExp, ast.ListComp, ast.SetComp)):
                    bases = [_ledger_base(g.iter) for g in base.generators]
                else:
                    bases = [base]
                for b in bases:
                    for k in _ledger_keys(repo, T, v, b):
                        have = self.kinds.setdefault(k, set())
                        if not kinds <= have:
                            have |= kinds
                            changed = True
        return changed


def _ledger_event_kinds(led: "Ledgers", reg: "Registries", f: FuncInfo, n: ast.AST) -> set[str]:
    """Event kinds of a statement / call that adds something to a container:
      rnode  the container is a registry the edge decisions consult (the element is registered when it is put there);
      lnode  a node travels through a ledger that also carries the edges (replayed in order), or nothing is known about what the
             edge decisions consult;
      ledge  an edge is recorded in a ledger."""
    out: set[str] = set()
    for k in led.write_keys(f, n):
        kinds = led.kinds.get(k, set())
        if k in reg.keys:
            out.add("rnode")
        if "edge" in kinds:
            out.add("ledge")
        if "node" in kinds and (led.mixed(k) or not reg.known):
            out.add("lnode")
    return out


class Registries:
    """What the decision to create an edge consults: the graph (`g.has_node(a)`, `a in g`) and / or containers (`a in self._seen`),
    read off the path conditions of the edge events (boolean helpers followed one level).  A module counts as registered when
    the consulted registry has it - not when it has been put on some list that is turned into nodes later."""

    def __init__(self) -> None:
        self.graph = False
        self.keys: set[tuple] = set()

    @property
    def known(self) -> bool:
        return self.graph or bool(self.keys)

    def collect(self, repo: Repo, T, f: FuncInfo, e: ast.AST, depth: int = 0) -> None:
        for x in ast.walk(e):
            target = None
            if isinstance(x, ast.Call) and isinstance(x.func, ast.Attribute) and x.func.attr in ("has_node", "__contains__"):
                target = x.func.value
            elif isinstance(x, ast.Compare) and len(x.ops) == 1 and isinstance(x.ops[0], (ast.In, ast.NotIn)):
                target = x.comparators[0]
            elif isinstance(x, ast.Call) and depth < 2:
                try:
                    cs, _how = T.callees(f, x, byname_fallback=False)
                except Exception:  # noqa: BLE001
                    cs = []
                for h in cs:
                    if not h.is_abstract and not isinstance(h.node, ast.Lambda):
                        for st in h.node.body:
                            self.collect(repo, T, h, st, depth + 1)
            if target is None:
                continue
            if _through_digraph(T, f, target):
                self.graph = True
            else:
                self.keys |= set(_ledger_keys(repo, T, f, _ledger_base(target)))


def _registries(repo: Repo, T, led: "Ledgers", funcs: list[FuncInfo]) -> Registries:
    from core.guards import atoms_of

    reg = Registries()
    for f in funcs:
        try:
            v = inline_view(repo, f, T)
        except Exception:  # noqa: BLE001
            continue
        for n in own_nodes(v.node):
            edge = isinstance(n, ast.Call) and isinstance(n.func, ast.Attribute) and n.func.attr in EDGE_ADDERS and _graph_call(T, v, n)
            if not edge and not (_grow_writes(n) and "edge" in led.write_kinds(v, n)):
                continue
            try:
                atoms = atoms_of(guard_formula(v, n))
            except Exception:  # noqa: BLE001
                continue
            for a in atoms:
                try:
                    reg.collect(repo, T, v, ast.parse(a, mode="eval").body)
                except SyntaxError:
                    continue
    return reg


def _graph_closures(repo: Repo) -> dict:
    key = "_c15_graph_closures"
    if key not in repo.__dict__:
        T = types_of(repo)
        muts = graph_mutations(repo)
        kind_funcs = {k: _closure(repo, {f for f, _n, kk, _r in muts if kk == k}) for k in ("node", "edge", "other")}
        freezers = {f for f in repo.all_functions() for c in calls_in(f.node) if _lib_name(repo, f, c) == "networkx.freeze"}
        # ledgers: found in the functions that take part in a construction (callers of graph calls), seen through their views
        led = Ledgers(repo, T)
        builders = [f for f in repo.all_functions() if (f in kind_funcs["node"] or f in kind_funcs["edge"]) and not isinstance(f.node, ast.Lambda)]
        for _round in range(3):
            changed = False
            for f in builders:
                try:
                    changed |= led.discover(inline_view(repo, f, T))
                except Exception:  # noqa: BLE001
                    continue
            if not changed:
                break
        reg = _registries(repo, T, led, [f for f in repo.all_functions() if f in kind_funcs["edge"] and not isinstance(f.node, ast.Lambda)])
        writers: dict[str, set[FuncInfo]] = {"lnode": set(), "ledge": set(), "rnode": set()}
        attr_names = {k[2] for k in led.kinds if k[0] == "attr"} | {k[2] for k in reg.keys if k[0] == "attr"}
        if attr_names:
            for f in repo.all_functions():
                for n in own_nodes(f.node):
                    for cont, _w in _grow_writes(n):
                        if isinstance(cont, ast.Attribute) and cont.attr in attr_names:
                            for kd in _ledger_event_kinds(led, reg, f, n):
                                writers[kd].add(f)
        for k, fs in writers.items():
            kind_funcs[k] = _closure(repo, fs) if fs else set()
        repo.__dict__[key] = {"muts": muts, "kind_funcs": kind_funcs, "freeze_funcs": _closure(repo, freezers), "ledgers": led, "registries": reg}
    return repo.__dict__[key]


class GraphBuild:
    """A function that takes part in building a graph (the constructor of a graph class, a builder), seen through its inlined
    view: where is a graph modified, where is it frozen."""

    def __init__(self, repo: Repo, fn: FuncInfo) -> None:
        self.repo = repo
        self.fn = fn
        self.T = types_of(repo)
        # helpers expanded, then producer / consumer protocols over iterators (generators, itertools.chain) spelled as loops
        plain = inline_view(repo, fn, self.T)
        try:
            self.view = fused_view(repo, plain, self.T)
        except Exception:  # noqa: BLE001 - a protocol the rewriting cannot express: the plain view is still a sound basis
            self.view = plain
        self.cfg = cfg_of(self.view)
        cl = _graph_closures(repo)
        self.kind_funcs = cl["kind_funcs"]
        self.freeze_funcs = cl["freeze_funcs"]
        self.ledgers: Ledgers = cl["ledgers"]
        self.registries: Registries = cl["registries"]
        for _round in range(3):  # ledgers that are locals of this very view
            try:
                if not self.ledgers.discover(self.view):
                    break
            except Exception:  # noqa: BLE001
                break
        self.ev = {s: self.events(s) for s in self.cfg.stmts()}

    def callees(self, c: ast.Call) -> list[FuncInfo]:
        try:
            cs, _how = self.T.callees(self.view, c, byname_fallback=False)
        except Exception:  # noqa: BLE001
            cs = []
        return [g for g in cs if not g.is_abstract]

    def events(self, s: ast.AST) -> dict[str, list[ast.Call]]:
        """kind -> calls of the statement's own expressions that (may) modify / freeze a graph."""
        out: dict[str, list[ast.Call]] = {}
        v, T = self.view, self.T
        for e in _own_exprs(s):
            for c in ast.walk(e):
                if isinstance(c, (ast.Assign, ast.AugAssign, ast.AnnAssign, ast.Delete)) and c is s:
                    tg = c.targets if isinstance(c, (ast.Assign, ast.Delete)) else [c.target]
                    for t in tg:
                        for el in (t.elts if isinstance(t, (ast.Tuple, ast.List)) else [t]):
                            if isinstance(el, (ast.Subscript, ast.Attribute)) and _through_digraph(T, v, el.value):
                                out.setdefault("other", []).append(c)  # type: ignore[arg-type]
                if (isinstance(c, ast.Call) or c is s) and _grow_writes(c):
                    for kd in sorted(_ledger_event_kinds(self.ledgers, self.registries, v, c)):
                        out.setdefault(kd, []).append(c)  # type: ignore[arg-type]
                if not isinstance(c, ast.Call):
                    continue
                if _lib_name(self.repo, v, c) == "networkx.freeze":
                    out.setdefault("freeze", []).append(c)
                    continue
                if _graph_call(T, v, c):
                    a = c.func.attr
                    out.setdefault("node" if a in NODE_ADDERS else "edge" if a in EDGE_ADDERS else "other", []).append(c)
                    continue
                try:
                    cs, _how = T.callees(v, c, byname_fallback=False)
                except Exception:  # noqa: BLE001
                    cs = []
                cs = list(cs)
                # callables handed to the callee (map(self._add_import, imports), key=...) are assumed to be called by it
                for a in [*c.args, *[k.value for k in c.keywords]]:
                    try:
                        at = T.expr(v, a)
                    except Exception:  # noqa: BLE001
                        continue
                    cs += [m[1] for m in members(at) if m[0] == "fn"]
                for k, fs in self.kind_funcs.items():
                    if any(g in fs for g in cs):
                        out.setdefault(k, []).append(c)
                if any(g in self.freeze_funcs for g in cs):
                    out.setdefault("freeze", []).append(c)
        return out


def _derived(v: FuncInfo, seed: str) -> set[str]:
    """Names and `self.x` texts of the view that hold (a copy / projection of) the parameter `seed`."""
    d = {seed}

    def mentions(e: ast.AST) -> bool:
        return any((isinstance(x, ast.Name) and x.id in d) or (isinstance(x, ast.Attribute) and norm(x) in d) for x in ast.walk(e))

    changed = True
    while changed:
        changed = False
        for n in own_nodes(v.node):
            if isinstance(n, (ast.Assign, ast.AnnAssign)) and n.value is not None and mentions(n.value):
                tg = n.targets if isinstance(n, ast.Assign) else [n.target]
                for t in tg:
                    key = t.id if isinstance(t, ast.Name) else norm(t) if isinstance(t, ast.Attribute) else None
                    if key is not None and key not in d:
                        d.add(key)
                        changed = True
            # a container filled once per element of a derived collection holds (a projection of) it as well
            for cont, w in _grow_writes(n):
                key = cont.id if isinstance(cont, ast.Name) else norm(cont) if isinstance(cont, ast.Attribute) else None
                if key is None or key in d:
                    continue
                per_element = any(mentions(it) for lp in loops_around(w, v.node) for _t, it in iter_sources(lp))
                bulk = isinstance(w, ast.Call) and w.func.attr in ("extend", "update", "extendleft") and any(mentions(a) for a in w.args)  # type: ignore[union-attr]
                if per_element or bulk:
                    d.add(key)
                    changed = True
    return d


def _mentions(e: ast.AST, d: set[str]) -> bool:
    return any((isinstance(x, ast.Name) and x.id in d) or (isinstance(x, ast.Attribute) and norm(x) in d) for x in ast.walk(e))


def _elem_classes(t) -> set[str] | None:
    """Repo classes among the element type(s) of an iterable type (tuples flattened); None when the element type is unknown."""
    from core.types import elem_type

    out: set[str] = set()
    known = False

    def walk(x) -> None:
        nonlocal known
        for m in members(x):
            if m[0] == "cls":
                known = True
                out.add(m[1])
            elif m[0] == "b" and m[1] == "tuple":
                for a in m[2]:
                    walk(a)
            elif m[0] == "b":
                known = True
            elif m[0] in ("lib", "type", "fn"):
                known = True

    walk(elem_type(t))
    return out if known else None


def _unit_over(v: FuncInfo, call: ast.AST, d: set[str], repo: Repo, T, by_class: set[str] | None = None) -> ast.AST | None:
    """(`call` is a call, or a statement that stores into a ledger.)  Outermost statement that makes `call` happen once per element of a collection derived from `d`: an enclosing loop or
    comprehension over it, a bulk call taking it as argument, or a call of a helper that loops over it.  With `by_class`, a loop
    whose element type is known counts exactly when its elements are instances of one of these classes (the data flow is only
    consulted for untyped iterables): aggregates holding both arguments do not blur the picture."""

    def over(it: ast.AST) -> bool:
        if by_class is not None:
            try:
                ec = _elem_classes(T.expr(v, it))
            except Exception:  # noqa: BLE001
                ec = None
            if ec is not None:
                return bool(ec & by_class)
        return _mentions(it, d)

    unit = None
    for lp in loops_around(call, v.node):
        for _t, it in iter_sources(lp):
            if over(it):
                unit = lp if isinstance(lp, (ast.For, ast.AsyncFor)) else stmt_of(lp)
    if unit is not None:
        return unit
    if not isinstance(call, ast.Call):
        return None
    if any(over(a) for a in [*call.args, *[k.value for k in call.keywords]]):
        return stmt_of(call)
    attrs = {x.split(".", 1)[1] for x in d if x.startswith("self.")}
    try:
        cs, _how = T.callees(v, call, byname_fallback=False)
    except Exception:  # noqa: BLE001
        cs = []
    for g in cs:
        gv = inline_view(repo, g, T)
        for n in own_nodes(gv.node):
            its = [n.iter] if isinstance(n, (ast.For, ast.AsyncFor, ast.comprehension)) else []
            for it in its:
                if by_class is not None:
                    try:
                        ec = _elem_classes(T.expr(gv, it))
                    except Exception:  # noqa: BLE001
                        ec = None
                    if ec is not None:
                        if ec & by_class:
                            return stmt_of(call)
                        continue
                if any(isinstance(x, ast.Attribute) and isinstance(x.value, ast.Name) and x.attr in attrs for x in ast.walk(it)):
                    return stmt_of(call)
    return None


def freeze_verdict(repo: Repo, fn: FuncInfo, depth: int = 0, stack: tuple = ()) -> tuple[str, str, ast.AST | None]:
    """('ok' | 'violated' | 'undecided', detail, node): on every path to the normal exit of `fn` the graph it builds has been
    frozen, and nothing modifies a graph after the freeze.  A freeze may be `nx.freeze(graph)` itself or a call of a function for
    which the same holds (a builder that builds, freezes and returns)."""
    from core.cfg import EXIT

    T = types_of(repo)
    gb = GraphBuild(repo, fn)
    v, cfg, ev = gb.view, gb.cfg, gb.ev
    freezes: list[ast.AST] = []
    self_contained: set[int] = set()  # statements whose own modifications precede their own freeze (verified callee)
    for s, e in ev.items():
        if "freeze" not in e:
            continue
        good = True
        for c in e["freeze"]:
            if _lib_name(repo, v, c) == "networkx.freeze":
                if not (c.args and isinstance(c.args[0], (ast.Name, ast.Attribute)) and _is_digraph(T, v, c.args[0])):
                    return "violated", "nx.freeze is not applied to the graph itself (a copy or another object is frozen)", s
                continue
            if depth >= 3:
                return "undecided", f"`{norm(c, 80)}` freezes the graph somewhere below; the nesting is too deep to follow", s
            for g in gb.callees(c):
                if g not in gb.freeze_funcs:
                    continue
                if g.fq in stack:
                    return "undecided", f"`{norm(c, 80)}` is recursive", s
                verdict, detail, _n = freeze_verdict(repo, g, depth + 1, stack + (fn.fq,))
                if verdict == "undecided":
                    return verdict, detail, s
                if verdict == "violated":
                    good = False  # the callee does not guarantee a frozen graph: this statement is no freeze
        if good:
            freezes.append(s)
            if not all(_lib_name(repo, v, c) == "networkx.freeze" for c in e["freeze"]):
                self_contained.add(id(s))
    mutating = [s for s, e in ev.items() if any(k in e for k in ("node", "edge", "other"))]
    if not freezes:
        return "violated", f"{fn.qualname} never freezes the graph it builds: later calls can modify it", fn.node
    final = [s for s in freezes if cfg.dominates(s, EXIT)]
    if not final:
        return "violated", "the graph is not frozen on every path through " + fn.qualname, freezes[0]
    for s in final:
        if s in mutating and id(s) not in self_contained:
            return "undecided", f"`{header(s)}` both modifies and freezes the graph in one expression: the order of the two cannot be seen", s
    late = [m for m in mutating for s in final if m is not s and cfg.paths_avoiding(s, m, set())]
    if late:
        return "violated", f"`{header(late[0])}` modifies the graph after it has been frozen (freeze must follow the construction)", late[0]
    return "ok", "nx.freeze(graph) is passed on every path to the end of the construction and nothing modifies the graph afterwards", final[0]


def order_verdict(repo: Repo, fn: FuncInfo, mod_param: str, imp_param: str, imp_classes: set[str] | None, depth: int = 0) -> tuple[str, str, tuple]:
    """('ok' | 'violated' | 'undecided', detail, (function, node)): in `fn` every element of the modules parameter is registered as
    a node (in the graph or in a node ledger) before the first edge is created per element of the imports parameter.  A single
    call that does both is followed into its callee (parameters mapped by position / keyword)."""
    T = types_of(repo)
    gb = GraphBuild(repo, fn)
    v, cfg, ev = gb.view, gb.cfg, gb.ev
    d_mod, d_imp = _derived(v, mod_param), _derived(v, imp_param)
    node_units: list[ast.AST] = []
    edge_units: list[ast.AST] = []
    # an element recorded in a ledger (a container the graph is materialised from later) counts like the graph call
    for s, e in ev.items():
        for c in [*e.get("edge", []), *e.get("ledge", [])]:
            u = _unit_over(v, c, d_imp, repo, T, imp_classes)
            if u is not None and u not in edge_units:
                edge_units.append(u)
    # ledgers that the import edges travel through as well: a node request put there is registered in its turn, before the edge
    # requests that follow it (a list of modules that is turned into nodes later is no such ledger)
    shared: set[tuple] = set()
    for s, e in ev.items():
        for c in e.get("ledge", []):
            if _grow_writes(c) and _unit_over(v, c, d_imp, repo, T, imp_classes) is not None:
                shared |= set(gb.ledgers.write_keys(v, c))

    def in_turn(c: ast.AST) -> bool:
        keys = gb.ledgers.write_keys(v, c) if _grow_writes(c) else []
        return not keys or not gb.registries.known or bool(set(keys) & shared)

    opaque: list[tuple[ast.AST, ast.AST]] = []  # simple statements that register modules *and* create import edges (statement, call)
    for s, e in ev.items():
        # a module is registered when the registry the edge decisions consult gets it: the graph itself (add_node), a container
        # (`self._seen`); a node request travelling through a ledger that carries the edge requests too is registered in its turn
        direct = e.get("node", []) if (gb.registries.graph or not gb.registries.known) else []
        for c in [*direct, *e.get("rnode", []), *[x for x in e.get("lnode", []) if in_turn(x)]]:
            u = _unit_over(v, c, d_mod, repo, T)
            if u is not None and not isinstance(u, (ast.For, ast.AsyncFor, ast.While)) and any(u is x for x in edge_units) and all(u is not o for o, _c in opaque):
                opaque.append((u, c))
            if u is not None and u not in node_units and not any(u is x or x in list(ancestors(u)) for x in edge_units):
                node_units.append(u)
    if not edge_units:
        return "undecided", f"no statement of {fn.qualname} creates edges per element of `{imp_param}`: the import loop was not recognised", (fn, fn.node)

    def complete(u: ast.AST) -> bool:
        # the registration loop runs to its end: no break of its own
        if not isinstance(u, (ast.For, ast.AsyncFor)):
            return True
        for b in ast.walk(u):
            if isinstance(b, ast.Break):
                inner = next((a for a in ancestors(b) if isinstance(a, (ast.For, ast.AsyncFor, ast.While))), None)
                if inner is u:
                    return False
        return True

    good = [u for u in node_units if complete(u) and all(u is not e and u not in list(ancestors(e)) and cfg.dominates(u, e) for e in edge_units)]
    if good:
        return "ok", f"every module of `{mod_param}` is registered as a node (`{header(good[0])}`) before the first edge is created from `{imp_param}`", (fn, edge_units[0])
    if opaque:
        # one call does both: the order is a property of the callee
        st, call = opaque[0]
        if isinstance(call, ast.Call) and depth < 3 and all(e is st for e in edge_units):
            try:
                cs, _how = T.callees(v, call, byname_fallback=False)
            except Exception:  # noqa: BLE001
                cs = []
            cs = [g for g in cs if not g.is_abstract and not isinstance(g.node, ast.Lambda)]
            if len(cs) == 1:
                g = cs[0]
                a = g.node.args
                pos = [p.arg for p in [*a.posonlyargs, *a.args]]
                if Roots.self_name(g) is not None and pos:
                    pos = pos[1:]
                bound: dict[str, ast.expr] = dict(zip(pos, [x for x in call.args if not isinstance(x, ast.Starred)]))
                bound.update({k.arg: k.value for k in call.keywords if k.arg})
                gm = [p for p, x in bound.items() if _mentions(x, d_mod) and not _mentions(x, d_imp)]
                gi = [p for p, x in bound.items() if _mentions(x, d_imp) and not _mentions(x, d_mod)]
                if len(gm) == 1 and len(gi) == 1:
                    return order_verdict(repo, g, gm[0], gi[0], imp_classes, depth + 1)
        return "undecided", f"`{header(st)}` registers the modules of `{mod_param}` and creates the edges of `{imp_param}` inside one expression: their order cannot be seen", (fn, st)
    return "violated", f"import edges (`{header(edge_units[0])}`) are created before all modules of `{mod_param}` are nodes: the has_node guard makes the edge set depend on the order of imports/modules", (fn, edge_units[0])


def run_r1(repo: Repo, res: Result) -> None:
    T = types_of(repo)
    R = _roots(repo)
    if R._store_index is None:
        R._build_store_index()
    roots = evaluation_roots(repo)
    reach_eval = _eval_reach(repo)
    # long-lived graph holders: an instance attribute holds a networkx graph, and methods of the class take part in evaluations
    # (a builder object that lives only inside a constructor is not one of them)
    graph_classes = []
    for (cfq, attr) in sorted(R._store_index):  # type: ignore[arg-type]
        ci = repo.classes.get(cfq)
        if ci is not None and ci not in graph_classes and any(m == DIGRAPH for m in members(T.attr_type(ci, attr))):
            graph_classes.append(ci)
    holders = [g for g in graph_classes if any(m in reach_eval for c in R.hierarchy(g) for m in c.methods.values() if m.name not in ("__init__", "__post_init__"))]
    if not holders:
        res.undecide("C15.R1", "src::graph class", "no class that takes part in evaluations keeps a networkx.DiGraph in an instance attribute: the frozen-graph argument has no anchor")
        return
    cl = _graph_closures(repo)
    muts = cl["muts"]
    inits: list[FuncInfo] = []
    for g in holders:
        init = repo.lookup_method(g, "__init__")
        if init is None:
            res.undecide("C15.R1", f"{g.module.relpath}::{g.name}::__init__", "graph class without a constructor of its own")
            continue
        inits.append(init)
        key = f"{init.relpath}::{init.qualname}::freeze"
        verdict, detail, node = freeze_verdict(repo, init)
        if verdict == "undecided":
            res.undecide("C15.R1", key, detail, where(init, node or init.node))
        else:
            res.add("C15.R1", key, verdict == "ok", detail, where(init, init.node), kind="dominance")
        # nodes before import edges
        params = [p for p in init.param_names if p != Roots.self_name(init)]
        okey = f"{init.relpath}::{init.qualname}::nodes before edges"
        if len(params) < 2:
            res.undecide("C15.R1", okey, "the constructor does not take (modules, imports): cannot tell module registration from import edges")
        else:
            # the imports argument is recognised by the class of its elements where the annotation tells it
            imp_classes: set[str] | None = None
            ec = _elem_classes(T.param_type(init, params[1]))
            if ec:
                imp_classes = set()
                for fq in ec:
                    ci = repo.classes.get(fq)
                    if ci is not None:
                        imp_classes |= {c.fq for c in repo.mro(ci)} | {c.fq for c in repo.subclasses(ci)}
            verdict, detail, (wf, wn) = order_verdict(repo, init, params[0], params[1], imp_classes)
            if verdict == "undecided":
                res.undecide("C15.R1", okey, detail, where(wf, wn))
            else:
                res.add("C15.R1", okey, verdict == "ok", detail, where(wf, wn), kind="dominance")
    # who may modify a graph after construction: nothing that an evaluation or a public method of a graph holder can reach
    public = [m for g in holders for c in R.hierarchy(g) for m in c.methods.values() if m not in inits and (not m.name.startswith("_") or (m.name.startswith("__") and m.name not in ("__init__", "__post_init__")))]
    outside = reachable_funcs(repo, [*public, *roots], byname=True, stop={i.fq for i in inits})
    for i in inits:
        outside.pop(i, None)
    n_sites = 0
    for f, c, _k, recv in muts:
        rv = R.value(f, recv)
        if rv.obj and rv.only_fresh:
            # a private graph created in this very call (a builder's local, a copy made for drawing): it cannot be a graph that
            # an earlier construction has frozen and handed to an evaluable
            n_sites += 1
            res.add("C15.R1", repo.key(f, stmt_of(c)), True, "the graph modified here is created in the same call: no long-lived graph is touched", where(f, c), kind="effect")
            continue
        n_sites += 1
        ok = f not in outside
        path = outside.get(f)
        res.add(
            "C15.R1",
            repo.key(f, stmt_of(c)),
            ok,
            "graph mutator not reachable from any evaluation entry point or public method of a graph holder (construction only)" if ok else f"`{norm(c)}` mutates the graph and is reachable after construction via {' -> '.join(p.split('::')[1] for p in path) if path else 'a function outside the constructor chain'}",
            where(f, c),
            kind="effect",
        )
    if n_sites == 0:
        res.undecide("C15.R1", "src::graph mutators", "no statement that adds nodes or edges to a networkx graph was recognised")


# --------------------------------------------------------------------------- R2


def _eval_reach(repo: Repo) -> dict:
    key = "_c15_eval_reach"
    if key not in repo.__dict__:
        reach = reachable_funcs(repo, evaluation_roots(repo), byname=True)
        # the shared call graph follows reads of `@property`; reads of `@functools.cached_property` call their function as well
        cached = {}
        for ci in repo.classes.values():
            for m in ci.methods.values():
                if "cached_property" in m.decorators:
                    cached.setdefault(m.name, []).append(m)
        if cached:
            T = types_of(repo)
            work = list(reach)  # (types_of / reachable_funcs do not raise on shapes they cannot resolve: they answer "unknown")
            while work:
                g = work.pop()
                for n in own_nodes(g.node):
                    if isinstance(n, ast.Attribute) and isinstance(n.ctx, ast.Load) and n.attr in cached:
                        try:
                            ms = members(T.expr(g, n.value))
                        except Exception:  # noqa: BLE001
                            ms = []
                        known = {m[1] for m in ms if m[0] == "cls"}
                        for f in cached[n.attr]:
                            related = {c.fq for c in repo.mro(f.cls)} | {c.fq for c in repo.subclasses(f.cls)}
                            if (not known or known & related) and f not in reach:
                                for h, path in reachable_funcs(repo, [f], byname=True).items():
                                    if h not in reach:
                                        reach[h] = reach[g] + path
                                        work.append(h)
        repo.__dict__[key] = reach
    return repo.__dict__[key]


def _roots(repo: Repo) -> Roots:
    key = "_c15_roots"
    if key not in repo.__dict__:
        repo.__dict__[key] = Roots(repo, types_of(repo))
    return repo.__dict__[key]


def memo_engine(repo: Repo, reach=None):
    """The classifier of c15_memo.py for this tree (region: the functions reachable from the evaluation entry points)."""
    from .c15_memo import Memos

    key = "_c15_memo_engine"
    if key not in repo.__dict__:
        region = list(reach if reach is not None else _eval_reach(repo))
        repo.__dict__[key] = Memos(repo, types_of(repo), _roots(repo), region, lambda g, c: _lib_name(repo, g, c))
    return repo.__dict__[key]


def memo_tables(repo: Repo, reach=None) -> list:
    """Instance tables filled by keyed stores during evaluations, each judged (c15_memo.py): memo | violated | other."""
    key = "_c15_memos"
    if key not in repo.__dict__:
        try:
            repo.__dict__[key] = memo_engine(repo, reach).tables()
        except AnalysisError:
            raise
        except Exception:  # noqa: BLE001 - an unusual shape the classifier cannot read: nothing is accepted, C15.R2 judges every write
            repo.__dict__[key] = []
    return repo.__dict__[key]


def _describe(tag, root_fn: FuncInfo) -> str:
    r, level = tag
    what = "receiver" if r[0] == "self" else f"argument `{r[2]}`" if r[0] == "param" else f"module-level `{r[1]}`" if r[0] == "global" else f"object of unknown origin `{r[1]}`"
    if r[0] not in ("self", "param"):
        return what
    return {0: f"its {what}", 1: f"state owned by its {what}", 11: f"an object held by its {what}", 12: f"an object held inside its {what}"}.get(level, f"an object reachable from its {what}")


class Rewrite:
    """A store `self.F = V` in (the inlined view of) an evaluation entry point where V is computed from self.F."""

    def __init__(self, root: FuncInfo, field_: str) -> None:
        self.root = root
        self.field = field_
        self.stores: list[tuple[FuncInfo, ast.AST]] = []  # original statements (function, node)
        self.verdict = "idempotent"  # idempotent | violated | undecided
        self.detail = ""
        self.flags: set[str] = set()


def _is_replace(repo: Repo, ctx: FuncInfo, call: ast.Call) -> bool:
    src = getattr(call, "_src", None)
    mod = src[0].module if src is not None else ctx.module
    fq = repo.resolve_name(mod, call.func) if isinstance(call.func, (ast.Name, ast.Attribute)) else None
    return fq in ("dataclasses.replace", "copy.replace")


def _falsy_const(e: ast.expr) -> bool:
    return isinstance(e, ast.Constant) and e.value in (False, None, 0)


def _single_assignments(v: FuncInfo) -> dict[str, ast.expr]:
    """Locals of the view that are bound exactly once, by a plain assignment."""
    counts: dict[str, int] = {}
    vals: dict[str, ast.expr] = {}
    for n in own_nodes(v.node):
        if isinstance(n, ast.Name) and isinstance(n.ctx, ast.Store):
            counts[n.id] = counts.get(n.id, 0) + 1
        if isinstance(n, (ast.Assign, ast.AnnAssign)) and n.value is not None:
            for t in (n.targets if isinstance(n, ast.Assign) else [n.target]):
                if isinstance(t, ast.Name):
                    vals[t.id] = n.value
    return {k: e for k, e in vals.items() if counts.get(k) == 1 and k not in v.param_names}


def _leaves(v: FuncInfo, e: ast.expr, seen: set[str] | None = None) -> list[ast.expr]:
    """Expressions a value may come from: conditional expressions are split, plain locals are followed to their assignments."""
    seen = seen if seen is not None else set()
    if isinstance(e, ast.IfExp):
        return _leaves(v, e.body, seen) + _leaves(v, e.orelse, seen)
    if isinstance(e, ast.Name) and e.id not in v.param_names and e.id not in seen:
        seen.add(e.id)
        out: list[ast.expr] = []
        simple = True
        for n in own_nodes(v.node):
            if isinstance(n, (ast.Assign, ast.AnnAssign)) and n.value is not None:
                tg = n.targets if isinstance(n, ast.Assign) else [n.target]
                for t in tg:
                    if isinstance(t, ast.Name) and t.id == e.id:
                        out += _leaves(v, n.value, seen)
                    elif any(isinstance(x, ast.Name) and x.id == e.id for x in ast.walk(t)):
                        simple = False
            elif isinstance(n, (ast.For, ast.AsyncFor, ast.comprehension)) and any(isinstance(x, ast.Name) and x.id == e.id for x in ast.walk(n.target)):
                simple = False
            elif isinstance(n, (ast.AugAssign, ast.NamedExpr)) and isinstance(n.target, ast.Name) and n.target.id == e.id:
                simple = False
        if out and simple:
            return out
    return [e]


class _RewriteView:
    """One function (view) in which the old value of the field is known under the texts `ident`."""

    def __init__(self, repo: Repo, v: FuncInfo, ident: set[str], outer=None, depth: int = 0) -> None:
        self.repo = repo
        self.T = types_of(repo)
        self.v = v
        self.ident = set(ident)
        self.outer = outer  # flag name -> True / None / False: what is known about the flag where this view was entered from
        self.depth = depth
        self.single = _single_assignments(v)
        # locals that only ever alias the old value
        for name, val in self.single.items():
            if norm(val) in self.ident:
                self.ident.add(name)

    def is_old(self, e: ast.AST) -> bool:
        return norm(e) in self.ident

    def mentions_old(self, e: ast.AST) -> bool:
        return any(self.is_old(x) for x in ast.walk(e) if isinstance(x, (ast.Attribute, ast.Name)))

    def flag_set(self, node: ast.AST, k: str) -> bool | None:
        """True: the path condition of `node` implies that flag k of the old value is set; False: there is no condition at all;
        None: there is a condition, but it could not be related to the flag."""
        guard = guard_formula(self.v, node)
        texts = {f"{i}.{k}" for i in self.ident}
        names = sorted(texts) + [n for n, val in self.single.items() if norm(val) in texts]
        # `x is True` / `x is False` / truthiness of one attribute are related; a field declared `bool` is one of the two
        from core.guards import f_and, f_not, f_or

        facts = []
        for a in names:
            is_t, is_f, truthy = atom(f"{a} is True"), atom(f"{a} is False"), atom(f"bool({a})")
            facts += [f_or([f_not(is_t), truthy]), f_or([f_not(is_f), f_not(truthy)])]
            try:
                declared_bool = self.T.expr(self.v, ast.parse(a, mode="eval").body) == ("b", "bool", ())
            except Exception:  # noqa: BLE001
                declared_bool = False
            if declared_bool:
                facts.append(f_or([is_t, is_f]))
        constraints = f_and(facts)
        for a in names:
            if implies(guard, atom(f"bool({a})"), constraints):
                return True
        # the condition is made of nothing but tests of the old value's own attributes (or locals holding them): propositional
        # reasoning is then complete, and "not implied" means there is a path with the flag clear
        from core.guards import atoms_of

        known = {n for n, val in self.single.items() if any(norm(val).startswith(f"{i}.") for i in self.ident)}

        def plain(a: str) -> bool:
            body = a[5:-1] if a.startswith("bool(") and a.endswith(")") else a.split(" is ")[0] if " is " in a else a.split(" == ")[0] if " == " in a else None
            if body is None:
                return False
            return any(body.startswith(f"{i}.") and body[len(i) + 1:].isidentifier() for i in self.ident) or body in known

        definite = all(plain(a) for a in atoms_of(guard))
        if self.outer is not None:
            o = self.outer(k)
            if o:
                return True
            return False if (o is False and definite) else None
        return False if definite else None

    def keywords(self, call: ast.Call) -> tuple[dict[str, ast.expr], bool]:
        """Keyword arguments with `**name` expanded where name is a dict display with constant keys; second item: all known."""
        kw: dict[str, ast.expr] = {}
        complete = True
        for k in call.keywords:
            if k.arg is not None:
                kw[k.arg] = k.value
                continue
            d = k.value
            if isinstance(d, ast.Name) and d.id in self.single:
                d = self.single[d.id]
            if isinstance(d, ast.Call) and isinstance(d.func, ast.Name) and d.func.id == "dict" and not d.args:
                for kk in d.keywords:
                    if kk.arg is not None:
                        kw[kk.arg] = kk.value
                    else:
                        complete = False
            elif isinstance(d, ast.Dict):
                for x, val in zip(d.keys, d.values):
                    if isinstance(x, ast.Constant) and isinstance(x.value, str):
                        kw[x.value] = val
                    else:
                        # `**other` inside the display (or a computed key): it may override what was collected so far
                        kw.clear()
                        complete = False
            else:
                complete = False
        return kw, complete

    def classify(self, leaf: ast.expr) -> tuple[str, set[str], str]:
        """('identity' | 'rebuild' | 'bad' | 'opaque', flags cleared, detail) for one value stored back into the field."""
        if self.is_old(leaf):
            return "identity", set(), ""
        if not isinstance(leaf, ast.Call):
            return "bad", set(), f"`{norm(leaf, 90)}` is neither the old value nor a guarded rebuild of it"
        kw, complete = self.keywords(leaf)
        rebuilt = False
        if _is_replace(self.repo, self.v, leaf) and leaf.args and self.is_old(leaf.args[0]):
            rebuilt = True
        elif self.T.ctor_class(self.v, leaf) is not None and any(self.mentions_old(a) for a in [*leaf.args, *[k.value for k in leaf.keywords]]):
            rebuilt = True
        if rebuilt:
            cleared, unsure = set(), False
            for k, val in kw.items():
                if _falsy_const(val):
                    fs = self.flag_set(leaf, k)
                    if fs:
                        cleared.add(k)
                    elif fs is None:
                        unsure = True
            if cleared:
                return "rebuild", cleared, ""
            if unsure or not complete:
                return "opaque", set(), f"`{norm(leaf, 90)}` rebuilds the value under a condition that could not be related to a flag it clears"
            return "bad", set(), f"`{norm(leaf, 90)}` builds a new value from the old one on a path that is not guarded by a flag of the old value which the new value clears: applying the rewrite twice differs from applying it once"
        # a helper that could not be expanded in place: look at what it returns for the old value
        if self.depth < 2:
            try:
                cs, _how = self.T.callees(self.v, leaf, byname_fallback=False)
            except Exception:  # noqa: BLE001
                cs = []
            cs = [c for c in cs if not c.is_abstract]
            if len(cs) == 1 and not isinstance(cs[0].node, ast.Lambda):
                h = cs[0]
                a = h.node.args
                pos = [p.arg for p in [*a.posonlyargs, *a.args]]
                if Roots.self_name(h) is not None and pos:
                    pos = pos[1:]
                bound = [p for p, x in zip(pos, leaf.args) if self.is_old(x)] + [k.arg for k in leaf.keywords if k.arg and self.is_old(k.value)]
                if len(bound) == 1:
                    hv = inline_view(self.repo, h, self.T)
                    inner = _RewriteView(self.repo, hv, {bound[0]}, outer=lambda k, leaf=leaf: self.flag_set(leaf, k), depth=self.depth + 1)
                    rets = [n for n in own_nodes(hv.node) if isinstance(n, ast.Return) and n.value is not None]
                    if rets:
                        kinds, flags, details = [], set(), []
                        for r in rets:
                            for lf in _leaves(hv, r.value):
                                k_, f_, d_ = inner.classify(lf)
                                kinds.append(k_)
                                flags |= f_
                                if d_:
                                    details.append(d_)
                        if "bad" in kinds:
                            return "bad", set(), details[0]
                        if "opaque" in kinds:
                            return "opaque", set(), details[0]
                        return ("rebuild", flags, "") if "rebuild" in kinds else ("identity", set(), "")
        return "opaque", set(), f"`{norm(leaf, 90)}` is computed by a call that could not be expanded"


def _param_tainted(v: FuncInfo, params: set[str]) -> set[str]:
    """Locals of the view whose value may depend on one of `params`."""
    tainted = set(params)
    changed = True
    while changed:
        changed = False
        for n in own_nodes(v.node):
            src, tgts = None, []
            if isinstance(n, ast.Assign):
                src, tgts = n.value, n.targets
            elif isinstance(n, (ast.AnnAssign, ast.AugAssign)) and n.value is not None:
                src, tgts = n.value, [n.target]
            elif isinstance(n, (ast.For, ast.AsyncFor, ast.comprehension)):
                src, tgts = n.iter, [n.target]
            elif isinstance(n, ast.NamedExpr):
                src, tgts = n.value, [n.target]
            if src is None:
                continue
            if any(isinstance(x, ast.Name) and x.id in tainted for x in ast.walk(src)):
                for t in tgts:
                    for x in ast.walk(t):
                        if isinstance(x, ast.Name) and isinstance(x.ctx, ast.Store) and x.id not in tainted:
                            tainted.add(x.id)
                            changed = True
    return tainted


def find_rewrites(repo: Repo, root: FuncInfo) -> list[Rewrite]:
    """Self-rewrites `self.F = h(self.F)` of an entry point, each judged for idempotence on the inlined view."""
    T = types_of(repo)
    sn = Roots.self_name(root)
    if sn is None:
        return []
    v = inline_view(repo, root, T)
    by_field: dict[str, list[ast.Assign]] = {}
    for n in own_nodes(v.node):
        if isinstance(n, (ast.Assign, ast.AnnAssign)) and n.value is not None:
            tg = n.targets if isinstance(n, ast.Assign) else [n.target]
            for t in tg:
                if isinstance(t, ast.Attribute) and isinstance(t.value, ast.Name) and t.value.id == sn:
                    by_field.setdefault(t.attr, []).append(n)
    out: list[Rewrite] = []
    others = {p for p in root.param_names if p != sn}
    tainted = _param_tainted(v, others) if others else set()
    for fld, stores in by_field.items():
        rv = _RewriteView(repo, v, {f"{sn}.{fld}"})
        leaves: list[tuple[ast.AST, ast.expr]] = []
        for st in stores:
            for leaf in _leaves(v, st.value):
                leaves.append((st, leaf))
        if not any(rv.mentions_old(leaf) for _st, leaf in leaves):
            continue  # not a rewrite of the old value: an ordinary write, judged by the effect rule
        rw = Rewrite(root, fld)
        for st in stores:
            src = getattr(st, "_src", None)
            rw.stores.append(src if src is not None else (root, st))
        for st, leaf in leaves:
            kind_, flags, detail = rv.classify(leaf)
            if kind_ == "rebuild":
                rw.flags |= flags
            if kind_ in ("rebuild", "opaque"):
                dep = sorted({x.id for x in ast.walk(leaf) if isinstance(x, ast.Name) and x.id in tainted})
                if dep:
                    rw.verdict, rw.detail = "violated", f"the rewritten `{sn}.{fld}` depends on the argument(s) {', '.join(dep)} of {root.qualname}: the stored value differs between architectures"
            if kind_ == "bad" and rw.verdict != "violated":
                rw.verdict, rw.detail = "violated", detail
            elif kind_ == "opaque" and rw.verdict == "idempotent":
                rw.verdict, rw.detail = "undecided", detail
        if rw.verdict == "idempotent" and not rw.flags:
            rw.detail = f"`{sn}.{fld}` is only ever re-assigned to itself"
        elif rw.verdict == "idempotent":
            rw.detail = f"`{sn}.{fld}` is replaced by a rebuilt copy only while its flag {', '.join(sorted(rw.flags))} is set, and the copy clears that flag; otherwise it is stored back unchanged: applying the rewrite twice equals applying it once, and the rewrite does not look at the architecture"
        out.append(rw)
    return out


def run_r2(repo: Repo, res: Result) -> None:
    T = types_of(repo)
    R = _roots(repo)
    roots = evaluation_roots(repo)
    reach = _eval_reach(repo)
    # reviewed exception: idempotent self-rewrites of an entry point (the alias rewrite of Rule._configuration)
    rewrites: list[Rewrite] = []
    accepted: set[int] = set()
    for r in roots:
        for rw in find_rewrites(repo, r):
            rewrites.append(rw)
            if rw.verdict != "violated":
                accepted |= {id(node) for _fi, node in rw.stores}
    # cached properties that are not provably unobservable write to their instance on first access
    for m in memoised(repo):
        if m["harmless"] is None:
            R.register_cached_property(m["f"])
    # second accepted kind of write: filling a memo table nobody can observe (judged by C15.R4, c15_memo.py)
    for mt in memo_tables(repo):
        if mt.verdict == "memo":
            accepted |= mt.nodes
    S = EffectSummaries(repo, T, R, list(reach), skip=lambda w: id(w.node) in accepted)
    for r in roots:
        mine = [e for e in S.of(r) if e.tag[0][0] in ("self", "param") and e.tag[0][1] == r.fq]
        unknown = [e for e in S.of(r) if e.tag[0][0] == "unknown"]
        seen: set[int] = set()
        for e in mine:
            if id(e.write.node) in seen:
                continue
            seen.add(id(e.write.node))
            w = e.write
            res.add(
                "C15.R2",
                repo.key(w.fi, stmt_of(w.node)) + f" [via {r.qualname}]",
                False,
                f"evaluation entry point {r.qualname} may modify {_describe(e.tag, r)}: `{header(stmt_of(w.node))}` in {getattr(w.fi, 'shown', w.fi.qualname)} (call path: {' -> '.join(p.split('::')[1] for p in e.path)}); a long-lived object changes during evaluation, so the verdict of a later evaluation depends on this history",
                where(w.fi, w.node),
                kind="effect",
            )
        for e in unknown:
            if id(e.write.node) in seen:
                continue
            seen.add(id(e.write.node))
            w = e.write
            res.undecide("C15.R2", repo.key(w.fi, stmt_of(w.node)) + f" [via {r.qualname}]", f"`{header(stmt_of(w.node))}` in {w.fi.qualname} writes to `{e.tag[0][1]}`, whose origin could not be determined", where(w.fi, w.node))
        if not mine and not unknown:
            res.add("C15.R2", f"{r.relpath}::{r.qualname}::no long-lived write", True, f"nothing reachable from {r.qualname} writes to its receiver, its arguments or objects reachable from them", where(r, r.node), kind="effect")
    res.add("C15.R2", "evaluation region::writes to fresh objects", True, f"{S.fresh_writes} writes in {len(reach)} reachable functions go to objects created during the evaluation", kind="effect")
    for rw in rewrites:
        fi0, node0 = rw.stores[0]
        key = repo.key(fi0, stmt_of(node0)) + f" [reviewed: idempotent rewrite, via {rw.root.qualname}]"
        if rw.verdict == "undecided":
            res.undecide("C15.R2", key, f"{rw.root.qualname} stores a value computed from `self.{rw.field}` back into it, and idempotence of that rewrite cannot be established: {rw.detail}", where(fi0, node0))
        else:
            ok = rw.verdict == "idempotent"
            res.add("C15.R2", key, ok, rw.detail if ok else f"the rewrite of `self.{rw.field}` in {rw.root.qualname} is not idempotent: {rw.detail}", where(fi0, node0), kind="effect")
    res.analysed["evaluation_reachable_functions"] = len(reach)
    res.analysed["effect_rounds"] = S.rounds
    # positive fixture (the expected number of findings on the real tree is zero): every textbook way of writing to a long-lived
    # object must be seen, every textbook way of working on fresh objects must be accepted
    import shutil

    tmp, frepo = _fixture_repo("ownership.py")
    try:
        FT = types_of(frepo)
        FR = Roots(frepo, FT)
        FS = EffectSummaries(frepo, FT, FR, frepo.all_functions())
        wrong = []
        seen_bad = seen_ok = 0
        for f in frepo.all_functions():
            if f.cls is None or f.cls.name != "Holder" or not (f.name.startswith("bad_") or f.name.startswith("ok_")):
                continue
            mine = [e for e in FS.of(f) if e.tag[0][0] in ("self", "param") and e.tag[0][1] == f.fq]
            if f.name.startswith("bad_"):
                seen_bad += 1
                if not mine:
                    wrong.append(f"{f.name}: write to a long-lived object not seen")
            else:
                seen_ok += 1
                if mine:
                    wrong.append(f"{f.name}: `{mine[0].write.text}` taken for a write to a long-lived object")
        if wrong or seen_bad < 15 or seen_ok < 8:
            raise AnalysisError(f"C15.R2 fixture: ownership analysis does not classify the fixture as expected ({'; '.join(wrong) or 'fixture methods not found'})")
        res.add("C15.R2", "fixture::engine/rules/c15_fixtures/ownership.py", True, f"positive fixture recognised: {seen_bad} ways of writing to long-lived objects flagged, {seen_ok} ways of working on fresh objects accepted", nontrivial=False)
    finally:
        shutil.rmtree(tmp, ignore_errors=True)


# --------------------------------------------------------------------------- R3

GROWERS = {"add", "update", "append", "extend", "insert", "setdefault", "appendleft"}
SHRINKERS = {"remove", "discard", "pop", "clear", "difference_update", "intersection_update", "popitem", "popleft", "symmetric_difference_update"}


TUPLE = "#T"  # marker: the value is (a collection of) tuples whose components carry their own tags as "<position>@<tag>"


class _OrderFlow(Flow):
    """Tag flow with position-sensitive tuples and generators (local extension of core/flow.py).

    `(subject, verb, sorted(objects))` collected in a loop over a set: the *sequence of tuples* is in set order (tag U on the
    sequence), the third component stays the sorted list it is.  Unpacking (`for s, v, objs in parts`, `a, b = helper()`, `t[2]`)
    hands every component its own tags back; the order of the sequence is not a property of the components."""

    def _expr_inner(self, fi, e, env):
        if isinstance(e, ast.Tuple) and not isinstance(getattr(e, "ctx", None), ast.Store) and not any(isinstance(x, ast.Starred) for x in e.elts):
            out = {TUPLE}
            for i, x in enumerate(e.elts):
                for t in self._expr(fi, x, env):
                    out.add(f"{i}@{t}")
            return frozenset(out)
        if isinstance(e, ast.Subscript) and isinstance(e.slice, ast.Constant) and isinstance(e.slice.value, int) and not isinstance(e.slice.value, bool):
            base = self._expr(fi, e.value, env)
            if TUPLE in base:
                pre = f"{e.slice.value}@"
                return frozenset(t[len(pre):] for t in base if t.startswith(pre))
            return self._it(base)
        if isinstance(e, ast.Yield):
            v = self._expr(fi, e.value, env) if e.value is not None else frozenset()
            add = self._col(v) - self.spec.non_absorbed
            if self.spec.loop_tag and self._yield_in_unordered_loop(fi, e):
                add = add | {self.spec.loop_tag}
            self._join_into(self.ret_tags, fi.fq, add)
            return frozenset()
        if isinstance(e, ast.YieldFrom):
            self._join_into(self.ret_tags, fi.fq, self._expr(fi, e.value, env))
            return frozenset()
        return super()._expr_inner(fi, e, env)

    def _analyse(self, fi) -> None:
        """core/flow.py binds the target of a `for` weakly (old tags | element tags) at the loop header, for the body as well as for
        the code after the loop.  Inside the body the target is always freshly bound: a loop variable that re-uses the name of an
        unordered collection (`group = list(a_set)` ... `for group in sorted_groups:`) is what the iterable yields and nothing
        else.  Same worklist as the base class; the body edge of a loop gets the strongly updated state, the exit edge the weak one."""
        from core.cfg import ENTRY

        cfg = self.cfg(fi)
        init: dict[str, frozenset] = {}
        for p in fi.param_names:
            t = self.param_tags.get((fi.fq, p), frozenset())
            if t:
                init[p] = t
        if not hasattr(self, "_final_env"):
            self._final_env = {}
        if fi.outer is not None:
            for k, v in self._final_env.get(fi.outer.fq, {}).items():
                init.setdefault(k, v)
        states: dict[object, dict[str, frozenset]] = {ENTRY: init}
        work = [ENTRY]
        order = 0
        final_env: dict[str, frozenset] = dict(init)
        while work:
            n = work.pop()
            order += 1
            if order > 20000:
                break
            st = states.get(n, {})
            out = dict(st)
            body_out = None
            if isinstance(n, ast.AST):
                for var, t in st.items():
                    self.var_at[(id(n), var)] = t
                self._stmt(fi, n, out)
                if isinstance(n, (ast.For, ast.AsyncFor)):
                    body_out = dict(st)
                    self._assign(fi, n.target, self._it(self._expr(fi, n.iter, body_out)), body_out, n.iter)
                for k, v in out.items():
                    if v:
                        final_env[k] = final_env.get(k, frozenset()) | v
            for m in cfg.g.successors(n):
                o = body_out if body_out is not None and cfg.g[n][m].get("labels") == {True} else out
                old = states.get(m)
                if old is None:
                    states[m] = dict(o)
                    work.append(m)
                else:
                    changed = False
                    for k, v in o.items():
                        if not v <= old.get(k, frozenset()):
                            old[k] = old.get(k, frozenset()) | v
                            changed = True
                    if changed:
                        work.append(m)
        self._final_env[fi.fq] = final_env

    def _yield_in_unordered_loop(self, fi, node) -> bool:
        for a in ancestors(node):
            if a is fi.node:
                break
            if isinstance(a, (ast.For, ast.AsyncFor)) and self._iter_unordered(fi, a.iter):
                return True
        return False

    def _assign(self, fi, target, v, env, value, weak=False):
        if isinstance(target, (ast.Tuple, ast.List)) and TUPLE in v and not (isinstance(value, (ast.Tuple, ast.List)) and len(value.elts) == len(target.elts)) and not any(isinstance(x, ast.Starred) for x in target.elts):
            for i, el in enumerate(target.elts):
                pre = f"{i}@"
                self._assign(fi, el, frozenset(t[len(pre):] for t in v if t.startswith(pre)), env, None, weak)
            return
        super()._assign(fi, target, v, env, value, weak)


class Order:
    """Which collections carry the arbitrary iteration order of a set (tag flow), shared by the sink rule and the loop rule."""

    def __init__(self, repo: Repo) -> None:
        self.repo = repo
        T = self.T = types_of(repo)

        memo: dict[int, bool] = {}

        def set_typed(f: FuncInfo, e: ast.expr) -> bool:
            k = id(e)
            if k not in memo:
                try:
                    memo[k] = is_set_type(T.expr(f, e))
                except Exception:  # noqa: BLE001
                    memo[k] = False
            return memo[k]

        self.set_typed = set_typed

        def sources(f: FuncInfo, e: ast.expr):
            # a list/tuple/iterator made from a set keeps the set's arbitrary order
            if isinstance(e, ast.Call) and isinstance(e.func, ast.Name) and e.func.id in ("list", "tuple", "iter", "enumerate", "map", "filter", "reversed") and e.args:
                if any(set_typed(f, a) for a in e.args if not isinstance(a, ast.Starred)):
                    return {"U"}
            # a set stays a set when it is handed to a parameter annotated Iterable/Sequence: remember its nature
            if isinstance(e, (ast.Name, ast.Attribute, ast.Call, ast.Set, ast.SetComp)) and set_typed(f, e):
                return {"S"}
            # a sequence handed to the public API arrives in the order in which the caller happened to list its items (tag L)
            if isinstance(e, ast.Name) and listed_param(f, e.id):
                return {"L"}
            return None

        lp_memo: dict[tuple[str, str], bool] = {}

        def listed_param(f: FuncInfo, name: str) -> bool:
            k = (f.fq, name)
            if k not in lp_memo:
                ok = False
                if not isinstance(f.node, ast.Lambda) and f.outer is None and name in f.param_names and name != Roots.self_name(f):
                    public = (not f.name.startswith("_") or f.name in ("__init__", "__call__")) and (f.cls is None or not f.cls.name.startswith("_"))
                    if public:
                        try:
                            t = T.param_type(f, name)
                        except Exception:  # noqa: BLE001
                            t = ("unknown",)
                        ok = any(m[0] == "b" and m[1] in ("list", "seq", "tuple", "iter") for m in members(t))
                lp_memo[k] = ok
            return lp_memo[k]

        def transfer(f: FuncInfo, call: ast.Call, names, args, recv, kwargs):
            fn = call.func
            if isinstance(fn, ast.Name) and fn.id in ("sorted", "set", "frozenset", "len", "any", "all", "sum", "min", "max"):
                return set()
            if isinstance(fn, ast.Name) and fn.id in ("list", "tuple", "iter", "enumerate", "reversed", "map", "filter", "zip") and not names:
                # a sequence made from an unordered collection is an unordered *sequence* (tag U), no longer "a set" (tag S)
                tags = set()
                for a in [*args, *kwargs.values()]:
                    tags |= set(a)
                unordered = bool(tags & {"S", "U"}) or any(set_typed(f, a) for a in call.args if not isinstance(a, ast.Starred))
                return {"U"} if unordered else set()
            if isinstance(fn, ast.Attribute) and fn.attr in ("add", "update", "discard", "remove", "intersection", "union", "difference"):
                t = T.expr(f, fn.value)
                if any(m[0] == "b" and m[1] in ("set", "frozenset") for m in members(t)):
                    return set()  # sets absorb elements in any order
            return None

        gen_memo: dict[str, bool] = {}

        def calls_generator(f: FuncInfo, e: ast.expr) -> bool:
            """A call of a generator function: the resolver types it by its (absent) return statements, it is an iterator."""
            if not isinstance(e, ast.Call):
                return False
            try:
                cs, _how = T.callees(f, e, byname_fallback=False)
            except Exception:  # noqa: BLE001
                return False
            for g in cs:
                if g.fq not in gen_memo:
                    gen_memo[g.fq] = not isinstance(g.node, ast.Lambda) and any(isinstance(n, (ast.Yield, ast.YieldFrom)) for n in own_nodes(g.node))
                if gen_memo[g.fq]:
                    return True
            return False

        def post(f: FuncInfo, e: ast.expr, tags):
            # the tag describes the *order of a collection*: scalars, strings and repo objects do not carry it
            if calls_generator(f, e):
                return tags
            t = T.expr(f, e)
            ms = members(t)
            if ms and all(m[0] in ("cls", "type", "fn") or (m[0] == "b" and m[1] in ("str", "int", "bool", "none", "float", "set", "frozenset")) for m in ms):
                keep_s = any(m[0] == "b" and m[1] in ("set", "frozenset") for m in ms)
                return frozenset(x for x in tags if x not in ("U", "L") and (x != "S" or keep_s))
            return tags

        self.flow = _OrderFlow(repo, T, Spec(sources=sources, transfer=transfer, post=post, sort_kills={"U", "S"}, loop_tag="U", unordered_tags=frozenset({"S"}), non_absorbed=frozenset({"S"}), unordered_iter=set_typed, objects_carry=False, opaque={"len", "isinstance", "hasattr", "bool", "any", "all", "sum", "min", "max", "set", "frozenset", "sorted"}))

    def unordered(self, f: FuncInfo, e: ast.expr) -> bool:
        """`e` (an expression of f, or of a view of f) is iterated in an order that depends on the hash seed."""
        if self.set_typed(f, e):
            return True
        src = getattr(e, "_src", None)
        orig = src[1] if src is not None else e
        return bool({"U", "S"} & self.flow.tags(orig))

    def listed(self, f: FuncInfo, e: ast.expr) -> bool:
        """`e` holds items in the order in which a caller of the public API listed them."""
        src = getattr(e, "_src", None)
        orig = src[1] if src is not None else e
        return "L" in self.flow.tags(orig)

    # ------------------------------------------------------------------ sinks
    def sinks(self) -> list[dict]:
        """Every place where a collection is turned into text, with the verdict of the flow analysis."""
        T, repo = self.T, self.repo
        out = []
        for f in repo.all_functions():
            for node in own_nodes(f.node):
                sink_arg = None
                what = ""
                if isinstance(node, ast.Call) and isinstance(node.func, ast.Attribute) and node.func.attr == "join" and len(node.args) == 1:
                    rt = T.expr(f, node.func.value)
                    if any(m == ("b", "str", ()) for m in members(rt)):
                        sink_arg, what = node.args[0], f"{norm(node.func.value)}.join"
                elif isinstance(node, ast.FormattedValue):
                    t = T.expr(f, node.value)
                    if any(m[0] == "b" and m[1] in ("set", "frozenset", "list", "tuple", "dict", "seq", "iter") for m in members(t)):
                        sink_arg, what = node.value, "f-string"
                elif isinstance(node, ast.Call) and isinstance(node.func, ast.Name) and node.func.id in ("str", "repr") and node.args:
                    t = T.expr(f, node.args[0])
                    if any(m[0] == "b" and m[1] in ("set", "frozenset", "list", "tuple", "dict") for m in members(t)):
                        sink_arg, what = node.args[0], node.func.id
                if sink_arg is None:
                    continue
                direct_set = self.set_typed(f, sink_arg) or (isinstance(sink_arg, (ast.GeneratorExp, ast.ListComp)) and any(self.set_typed(f, g.iter) for g in sink_arg.generators))
                tagged = bool({"U", "S"} & self.flow.tags(sink_arg))
                out.append({"f": f, "node": node, "arg": sink_arg, "what": what, "ok": not direct_set and not tagged, "direct": direct_set})
        return out

    # ------------------------------------------------------------------ loops
    def loops(self) -> list[dict]:
        """Loops over an unordered collection and the containers their bodies both grow and shrink (helpers expanded)."""
        T, repo = self.T, self.repo
        out = []
        for f in repo.all_functions():
            if isinstance(f.node, ast.Lambda) or not any(isinstance(n, (ast.For, ast.AsyncFor)) and self.unordered(f, n.iter) for n in own_nodes(f.node)):
                continue
            v = inline_view(repo, f, T)
            for lp in own_nodes(v.node):
                if not isinstance(lp, (ast.For, ast.AsyncFor)):
                    continue
                src = getattr(lp, "_src", None)
                if src is not None and src[0] is not f and src[0] != f:
                    continue  # a loop of an expanded helper: judged in the helper itself
                if not self.unordered(v, lp.iter):
                    continue
                grown: dict[str, ast.AST] = {}
                shrunk: dict[str, ast.AST] = {}
                for st in lp.body:
                    for c in ast.walk(st):
                        if isinstance(c, ast.Call) and isinstance(c.func, ast.Attribute):
                            recv = dotted(c.func.value)
                            if not recv:
                                continue
                            if c.func.attr in GROWERS:
                                grown.setdefault(recv, c)
                            elif c.func.attr in SHRINKERS:
                                shrunk.setdefault(recv, c)
                        elif isinstance(c, ast.AugAssign):
                            recv = dotted(c.target)
                            if recv and isinstance(c.op, (ast.Add, ast.BitOr)):
                                grown.setdefault(recv, c)
                            elif recv and isinstance(c.op, (ast.Sub, ast.BitAnd)):
                                shrunk.setdefault(recv, c)
                        elif isinstance(c, ast.Delete):
                            for t in c.targets:
                                if isinstance(t, ast.Subscript) and dotted(t.value):
                                    shrunk.setdefault(dotted(t.value), c)
                        elif isinstance(c, ast.Assign):
                            for t in c.targets:
                                if isinstance(t, ast.Subscript) and dotted(t.value):
                                    grown.setdefault(dotted(t.value), c)
                # a container created anew in every iteration cannot carry anything from one element to the next
                rebound = set()
                for st in lp.body:
                    for n in ast.walk(st):
                        if isinstance(n, (ast.Assign, ast.AnnAssign)) and getattr(n, "value", None) is not None:
                            for t in (n.targets if isinstance(n, ast.Assign) else [n.target]):
                                rebound |= {x.id for x in ast.walk(t) if isinstance(x, ast.Name) and isinstance(x.ctx, ast.Store)}
                both = sorted(r for r in set(grown) & set(shrunk) if r.split(".")[0] not in rebound)
                orig = src[1] if src is not None else lp
                out.append({"f": f, "loop": orig, "iter": lp.iter, "both": both, "grown": grown, "shrunk": shrunk})
        return out


def _fixture_repo(name: str):
    """A scratch repository that consists of one fixture file (positive examples for rules whose expected count is zero)."""
    from pathlib import Path
    import shutil, tempfile

    fx = Path(__file__).resolve().parent / "c15_fixtures" / name
    tmp = Path(tempfile.mkdtemp(prefix="pta-fixture-"))
    (tmp / "src" / "pytestarch").mkdir(parents=True)
    shutil.copy(fx, tmp / "src" / "pytestarch" / f"fixture_{name}")
    return tmp, Repo(tmp)


def run_r3(repo: Repo, res: Result, order: "Order | None" = None) -> None:
    order = order or Order(repo)
    n = 0
    for s in order.sinks():
        f, node, sink_arg, what, ok = s["f"], s["node"], s["arg"], s["what"], s["ok"]
        n += 1
        res.add(
            "C15.R3",
            repo.key(f, stmt_of(node)) + f" [{what}({norm(sink_arg, 60)})]",
            ok,
            "text built from an ordered (sorted or list-ordered) collection" if ok else f"`{norm(sink_arg, 80)}` reaches text through {what} in set-iteration order ({'a set is joined directly' if s['direct'] else 'the collection was filled while iterating a set and never sorted'}): the message depends on PYTHONHASHSEED",
            where(f, node),
            kind="flow",
        )
    res.floor("C15.R3", 4, n)
    # grow-and-shrink of one container inside a loop over an unordered collection
    k = 0
    for l in order.loops():
        f, lp, both, grown, shrunk = l["f"], l["loop"], l["both"], l["grown"], l["shrunk"]
        k += 1
        res.add(
            "C15.R3",
            repo.key(f, lp) + " [order-independent loop body]",
            not both,
            "loop over a set only grows (or only shrinks) each container: the result does not depend on iteration order" if not both else f"`{both[0]}` is both grown (`{norm(grown[both[0]], 60)}`) and shrunk (`{norm(shrunk[both[0]], 60)}`) inside one loop over the set `{norm(l['iter'])}`: the final content depends on the set's iteration order (hash seed)",
            where(f, lp),
            kind="structural",
        )
    res.floor("C15.R3.loops", 3, k)
    res.analysed["text_sinks"] = n
    # positive fixture: the same two extractions must flag the textbook cases and accept their repaired forms
    import shutil

    tmp, frepo = _fixture_repo("unordered.py")
    try:
        fo = Order(frepo)
        bad_sinks = {s["f"].name for s in fo.sinks() if not s["ok"]}
        good_sinks = {s["f"].name for s in fo.sinks() if s["ok"]} - bad_sinks
        bad_loops = {l["f"].name for l in fo.loops() if l["both"]}
        good_loops = {l["f"].name for l in fo.loops() if not l["both"]} - bad_loops
        want_bad_sinks = {"joined_directly", "joined_after_copy", "joined_from_loop", "joined_through_helper", "joined_after_copy_of_iterable", "joined_unsorted_inside_tuple", "joined_unsorted_inside_yielded_tuple", "joined_from_generator_over_set"}
        want_bad_loops = {"grow_and_shrink", "grow_and_shrink_through_helper"}
        if bad_sinks != want_bad_sinks or not {"joined_sorted", "joined_after_inplace_sort", "joined_sorted_inside_tuple", "joined_sorted_inside_yielded_tuple", "joined_loop_variable_reuses_name"} <= good_sinks:
            raise AnalysisError(f"C15.R3 fixture: unordered text sinks not recognised exactly (flagged {sorted(bad_sinks)}, want {sorted(want_bad_sinks)}; accepted {sorted(good_sinks)})")
        if bad_loops != want_bad_loops or not {"two_passes"} <= good_loops or "ordered_pass" in bad_loops:
            raise AnalysisError(f"C15.R3 fixture: order-dependent loop bodies not recognised exactly (flagged {sorted(bad_loops)}, want {sorted(want_bad_loops)}; accepted {sorted(good_loops)})")
        res.add("C15.R3", "fixture::engine/rules/c15_fixtures/unordered.py", True, f"positive fixture recognised: sinks {sorted(bad_sinks)}, loops {sorted(bad_loops)}; repaired forms accepted", nontrivial=False)
    finally:
        shutil.rmtree(tmp, ignore_errors=True)


# --------------------------------------------------------------------------- R4

CACHE_DECORATORS = {"lru_cache", "cache", "cached_property", "memoize", "memoized"}
_IMMUTABLE_KINDS = {"str", "int", "bool", "none", "float", "bytes", "ellipsis"}


def _immutable_type(t) -> bool | None:
    """True / False, None when the annotation is missing or unresolved."""
    ms = members(t)
    if not ms or any(m == ("unknown",) for m in ms):
        return None
    for m in ms:
        if m[0] == "b" and m[1] in _IMMUTABLE_KINDS:
            continue
        if m[0] == "b" and m[1] in ("tuple", "frozenset"):
            inner = [_immutable_type(x) for x in m[2]] if len(m) > 2 else []
            if all(x is True for x in inner):
                continue
            return False if any(x is False for x in inner) else None
        if m[0] == "lib" and m[1] in ("pathlib.Path", "re.Pattern"):
            continue
        return False
    return True


def shared_state_writes(repo: Repo) -> list[dict]:
    """Writes, inside functions, to objects that outlive the call and belong to no instance: module-level names, class-level
    attributes (also through `self.` / `cls.` / a local alias), variables of an enclosing function that survive in a returned closure."""
    T = types_of(repo)
    R = _roots(repo)
    E = Effects(repo, T)
    out: list[dict] = []
    seen: set[int] = set()
    for f in repo.all_functions():
        for w in R.writes(f):
            for r, _l in R.targets(w):
                if r[0] == "global" and id(w.node) not in seen:
                    seen.add(id(w.node))
                    kind_ = "classvar" if r[1] in repo.classes or r[1].rsplit(".", 1)[0] in repo.classes else "global"
                    out.append({"f": f, "node": w.node, "kind": kind_, "name": r[1]})
        for w in E.writes(f):
            if w.root_kind in ("classvar", "global") and id(w.node) not in seen:
                seen.add(id(w.node))
                out.append({"f": f, "node": w.node, "kind": w.root_kind, "name": f"{w.root}.{w.field}".rstrip(".")})
        # closure state: a nested function that is handed out writes to a variable of the function that created it
        if f.outer is not None and not isinstance(f.node, ast.Lambda):
            outer = f.outer
            escapes = any(isinstance(n, ast.Return) and n.value is not None and any(isinstance(x, ast.Name) and x.id == f.name for x in ast.walk(n.value)) for n in own_nodes(outer.node))
            if escapes:
                R._scan(outer)
                R._scan(f)
                for w in R.writes(f):
                    from .c15_roots import root_name

                    root, _p = root_name(w.recv)
                    if isinstance(root, ast.Name) and root.id not in f.param_names and root.id not in R._bindings[f.fq] and (root.id in R._bindings[outer.fq]) and id(w.node) not in seen:
                        seen.add(id(w.node))
                        out.append({"f": f, "node": w.node, "kind": "closure", "name": root.id})
    return out


_PURE_LIBS = ("re.", "dataclasses.replace", "itertools.", "functools.reduce", "operator.", "string.", "posixpath.", "os.path.join", "os.sep", "pathlib.PurePath", "textwrap.")


def _constant_is_immutable(repo: Repo, mod, e: ast.AST | None, depth: int = 0, cls=None) -> bool:
    """A module / class level constant whose value can never change: text, numbers, None, tuples / frozensets of those,
    compiled patterns, and expressions over other such constants."""
    if e is None or depth > 6:
        return False
    if isinstance(e, (ast.Constant, ast.JoinedStr)):
        return not isinstance(e, ast.JoinedStr) or all(_constant_is_immutable(repo, mod, v.value, depth + 1, cls) for v in e.values if isinstance(v, ast.FormattedValue))
    if isinstance(e, ast.Tuple):
        return all(_constant_is_immutable(repo, mod, x, depth + 1, cls) for x in e.elts)
    if isinstance(e, (ast.BinOp,)):
        return _constant_is_immutable(repo, mod, e.left, depth + 1, cls) and _constant_is_immutable(repo, mod, e.right, depth + 1, cls)
    if isinstance(e, ast.UnaryOp):
        return _constant_is_immutable(repo, mod, e.operand, depth + 1, cls)
    if isinstance(e, ast.Name):
        if e.id in mod.constants:
            return _constant_is_immutable(repo, mod, mod.constants[e.id], depth + 1, cls)
        if e.id in mod.classes or e.id in mod.functions:
            return True
        fq = repo.resolve_name(mod, e)
        if fq:
            m2, _, attr = fq.rpartition(".")
            om = repo.modules.get(m2)
            if om is not None and attr in om.constants:
                return _constant_is_immutable(repo, om, om.constants[attr], depth + 1)
            if om is not None and (attr in om.classes or attr in om.functions):
                return True
            if om is None:
                return True  # a library name (module, function, flag such as re.DOTALL)
        return cls is not None and any(e.id in c.class_attrs and _constant_is_immutable(repo, c.module, c.class_attrs[e.id], depth + 1, c) for c in repo.mro(cls))
    if isinstance(e, ast.Attribute):
        fq = repo.resolve_name(mod, e)
        if fq is not None:
            m2, _, attr = fq.rpartition(".")
            if m2 in repo.classes:
                ci = repo.classes[m2]
                for c in repo.mro(ci):
                    if attr in c.class_attrs:
                        return _constant_is_immutable(repo, c.module, c.class_attrs[attr], depth + 1, c)
                    if attr in c.methods:
                        return True
                return False
            om = repo.modules.get(m2)
            if om is not None and attr in om.constants:
                return _constant_is_immutable(repo, om, om.constants[attr], depth + 1)
            return not fq.startswith("pytestarch") or (om is not None and (attr in om.classes or attr in om.functions))
        return False
    if isinstance(e, ast.Call):
        fq = repo.resolve_name(mod, e.func) if isinstance(e.func, (ast.Name, ast.Attribute)) else None
        ok_fn = (fq is not None and (fq in ("re.compile",) or fq.startswith("re.") or fq in ("frozenset", "tuple"))) or (isinstance(e.func, ast.Name) and e.func.id in ("frozenset", "tuple", "str", "int", "len") and fq is None)
        if ok_fn:
            return all(_constant_is_immutable(repo, mod, a, depth + 1, cls) for a in [*e.args, *[k.value for k in e.keywords]])
        if isinstance(e.func, ast.Attribute) and e.func.attr in ("join", "format", "strip", "lower", "upper", "replace"):
            return _constant_is_immutable(repo, mod, e.func.value, depth + 1, cls) and all(_constant_is_immutable(repo, mod, a, depth + 1, cls) for a in e.args)
    return False


def _reads_only_constants(repo: Repo, f: FuncInfo, depth: int = 0, stack: tuple = ()) -> str | None:
    """None if `f` computes its result from its parameters and immutable module / class constants only (helpers it calls
    included) and writes nothing; otherwise the reason."""
    T = types_of(repo)
    R = _roots(repo)
    if depth > 4 or f.fq in stack:
        return f"{f.qualname} could not be followed (recursion / depth)"
    if isinstance(f.node, ast.Lambda):
        nodes = list(own_nodes(f.node))
    else:
        nodes = list(own_nodes(f.node))
    R._scan(f)
    local = set(f.param_names) | set(R._bindings[f.fq])
    sn = Roots.self_name(f)
    if sn is not None and not f.is_classmethod:
        return f"{f.qualname} is bound to an instance whose state it can read"
    if any(not all(r == FRESH for r, _l in R.targets(w)) for w in R.writes(f)):
        return f"{f.qualname} writes to objects it did not create"
    handled: set[int] = set()
    for n in nodes:
        if isinstance(n, ast.Attribute) and isinstance(n.ctx, ast.Load):
            base = n.value
            # cls.X / Class.X : a class constant or a method
            cls_like = (isinstance(base, ast.Name) and ((sn is not None and base.id == sn) or (base.id not in local and (base.id in f.module.classes or (repo.resolve_name(f.module, base) or "") in repo.classes))))
            if cls_like:
                handled.add(id(base))
                ci = f.cls if (sn is not None and base.id == sn) else repo.classes.get(repo.resolve_name(f.module, base) or "")  # type: ignore[union-attr]
                if ci is None:
                    return f"`{norm(n)}` could not be resolved"
                found = False
                for c in [*repo.mro(ci), *repo.subclasses(ci)]:
                    if n.attr in c.methods:
                        found = True
                        break
                    if n.attr in c.class_attrs:
                        found = True
                        if not _constant_is_immutable(repo, c.module, c.class_attrs[n.attr], 0, c):
                            return f"it reads class-level state `{norm(n)}` that is not an immutable constant"
                        break
                if not found:
                    return f"it reads `{norm(n)}`, which is not a constant of the class"
    for n in nodes:
        if isinstance(n, ast.Name) and isinstance(n.ctx, ast.Load) and id(n) not in handled and n.id not in local:
            if f.outer is not None:
                return f"it reads `{n.id}` from an enclosing function"
            if n.id in f.module.constants and not _constant_is_immutable(repo, f.module, f.module.constants[n.id]):
                return f"it reads module-level state `{n.id}` that is not an immutable constant"
            if n.id in f.module.imports:
                fq = repo.resolve_name(f.module, n) or ""
                m2, _, attr = fq.rpartition(".")
                om = repo.modules.get(m2)
                if om is not None and attr in om.constants and not _constant_is_immutable(repo, om, om.constants[attr]):
                    return f"it reads module-level state `{n.id}` that is not an immutable constant"
    for n in nodes:
        if isinstance(n, ast.Call):
            try:
                cs, how = T.callees(f, n, byname_fallback=False)
            except Exception:  # noqa: BLE001
                cs, how = [], "unresolved"
            if T.ctor_class(f, n) is not None and how == "ctor":
                continue
            for g in cs:
                if g.is_abstract:
                    continue
                why = _reads_only_constants(repo, g, depth + 1, stack + (f.fq,))
                if why is not None:
                    return f"it calls {g.qualname}: {why}"
            if not cs and how in ("unresolved", "unknown", "callable-param"):
                return f"it calls `{norm(n.func, 60)}`, which could not be resolved"
    return None


def memoised(repo: Repo, reach=None) -> list[dict]:
    """Functions under a caching decorator; `harmless` when the cache cannot be observed: a function (module-level, static or
    class method - no instance) of immutable arguments only, returning an immutable value (text, numbers, tuples / frozensets of
    those, a compiled pattern), computed from its arguments and immutable module / class constants only, writing nothing."""
    key = "_c15_memoised"
    if key in repo.__dict__:
        return repo.__dict__[key]
    T = types_of(repo)
    out = repo.__dict__[key] = []
    for f in repo.all_functions():
        decos = [d for d in f.decorators if d in CACHE_DECORATORS]
        if not decos or isinstance(f.node, ast.Lambda):
            continue
        why = []
        sn = Roots.self_name(f)
        bound = "cached_property" in decos or (sn is not None and not f.is_classmethod)
        if bound:
            # a memo per instance: unobservable when the method is a function of its arguments and of state that is fixed
            # once the constructor has finished (c15_memo.py), and cannot run before that
            try:
                eng = memo_engine(repo, reach)
                reason = eng.pure(f) if f.cls is not None else "it is not a method of a class"
                if reason is None and f in eng.ctor_reach(f.cls):
                    reason = "it can run while the object is still under construction"
            except AnalysisError:
                raise
            except Exception:  # noqa: BLE001
                reason = "its body could not be analysed"
            if reason is not None:
                why.append(f"it is bound to an instance whose state it can read ({reason}): the value computed for one state of the object is served for every later one")
        per_instance = "cached_property" in decos and all(d == "cached_property" for d in decos)
        for p in f.params:
            if p.arg == sn:
                continue
            it = _immutable_type(T.param_type(f, p.arg))
            if it is not True:
                why.append(f"parameter `{p.arg}` is {'mutable' if it is False else 'of unknown type'}: results computed for one object are served for another state of it")
        rt = _immutable_type(T.return_type(f))
        if rt is not True:
            why.append("the cached result is a mutable object shared between all callers" if rt is False else "the type of the cached result is unknown")
        if not why and not bound:
            reason = _reads_only_constants(repo, f)
            if reason is not None:
                why.append(reason)
        # a cached property lives and dies with its instance: when it is not provably unobservable, the write it performs on first
        # access (the value is stored in the instance) is judged like any other write, by the ownership analysis of C15.R2 - an
        # instance created during the evaluation may cache whatever it likes
        harmless = (not why) if not (why and per_instance) else None
        out.append({"f": f, "decorators": decos, "harmless": harmless, "why": why, "bound": bound})
    return out


def run_r4(repo: Repo, res: Result) -> None:
    ws = shared_state_writes(repo)
    for w in ws:
        f, node = w["f"], w["node"]
        what = {"classvar": "class-level", "global": "module-level", "closure": "closure"}[w["kind"]]
        res.add(
            "C15.R4",
            repo.key(f, stmt_of(node)),
            False,
            f"`{header(stmt_of(node))}` in {f.qualname} writes {what} state `{w['name']}` that outlives the call and is shared by all instances / calls: results of one scan / evaluation leak into the next one in the same process",
            where(f, node),
            kind="effect",
        )
    # caching decorators keep hidden state as well
    ms = memoised(repo)
    for m in ms:
        f = m["f"]
        if m["harmless"] is None:
            res.observe(f"{f.relpath}::{f.qualname}::cache decorator: cached property that is not provably unobservable ({'; '.join(m['why'])}); the write to its instance on first access is judged by C15.R2")
            continue
        res.add(
            "C15.R4",
            f"{f.relpath}::{f.qualname}::cache decorator",
            m["harmless"],
            (f"{f.qualname} is memoised ({', '.join(m['decorators'])}) per instance, takes immutable arguments only, returns an immutable value computed from them and from state that is fixed when the constructor has finished, cannot run before that, and writes nothing: the cache cannot be observed" if m["bound"] else f"{f.qualname} is memoised ({', '.join(m['decorators'])}) but is not bound to an instance, takes immutable arguments only, returns an immutable value computed from them and from immutable constants, and writes nothing: the cache cannot be observed") if m["harmless"] else f"{f.qualname} is memoised ({', '.join(m['decorators'])}): results computed for one architecture / configuration are served to later calls; " + "; ".join(m["why"]),
            where(f, f.node),
            kind="effect",
        )
    # tables on long-lived instances that evaluations fill by key: a memo nobody can observe, or a cache that serves stale answers
    for mt in memo_tables(repo):
        f0, n0, _k, _v = mt.stores[0]
        key = f"{f0.relpath}::{mt.cls.name}.{mt.attr}::instance memo table"
        if mt.verdict == "memo":
            res.add("C15.R4", key, True, mt.detail, where(f0, n0), kind="effect")
        elif mt.verdict == "violated":
            res.add("C15.R4", key, False, f"{mt.cls.name}.{mt.attr} is filled during evaluations and is not keyed completely: {mt.detail}", where(f0, n0), kind="effect")
        else:
            res.observe(f"{key}: not accepted as an unobservable memo ({mt.detail}); its writes are judged by C15.R2")
    bad_memo = [m for m in ms if m["harmless"] is False]
    res.add("C15.R4", "src::no shared mutable state written inside functions", not ws and not bad_memo, f"{len(repo.funcs)} functions analysed: none writes class-level, module-level or closure state, none keeps an observable cache", kind="effect")
    # positive fixture: the rule must recognise the textbook forms (expected count on the real tree is zero)
    import shutil

    tmp, frepo = _fixture_repo("shared_state.py")
    try:
        got = {(w["f"].qualname, w["kind"]) for w in shared_state_writes(frepo)}
        want = {("Cache.lookup", "classvar"), ("Cache.lookup_through_alias", "classvar"), ("remember", "global"), ("remember_through_alias", "global"), ("Cache.via_cls", "classvar"), ("make_counter.count", "closure")}
        clean = {"Cache.own_only", "Cache.__init__", "local_only", "local_only.note", "Index.__init__", "Index.rename"}
        if got != want or any(q in clean for q, _k in got):
            raise AnalysisError(f"C15.R4 fixture: shared-state writes not recognised exactly (got {sorted(got)}, want {sorted(want)})")
        memo = {m["f"].qualname: m["harmless"] for m in memoised(frepo, frepo.all_functions())}
        want_memo = {
            "pure_text": True, "shared_result": False, "state_dependent": False, "of_mutable_argument": False,
            "Patterns.body_pattern": True, "Patterns.escaped": True, "Patterns.matches_of": False, "Patterns.reads_mutable_class_state": False,
            "Patterns.reads_mutable_module_state": False, "Patterns.of_instance": True, "Patterns.lazily": True,
            "Index.of_fixed_state": True, "Index.fixed_lazily": True, "Index.of_later_state": False, "Index.list_lazily": None,
            "Index.during_construction": False, "Index.of_mutable_class_state": False,
        }
        if memo != want_memo:
            raise AnalysisError(f"C15.R4 fixture: memoised functions not classified as expected (got {memo}, want {want_memo})")
        res.add("C15.R4", "fixture::engine/rules/c15_fixtures/shared_state.py", True, f"positive fixture recognised: {sorted(got)}; memoised: {memo}", nontrivial=False)
    finally:
        shutil.rmtree(tmp, ignore_errors=True)
    tmp, frepo = _fixture_repo("memo.py")
    try:
        got_m = {mt.attr.lstrip("_"): mt.verdict for mt in memo_tables(frepo, frepo.all_functions())}
        want_m = {
            "ok_tuple": "memo", "ok_copied": "memo", "ok_setdefault": "memo", "ok_pair": "memo", "bad_half_key": "violated", "bad_flag_ignored": "violated",
            "other_iterated": "other", "other_handed_out": "other", "other_early": "other", "other_later_state": "other", "other_control": "other",
            "other_derived_key": "other",
        }
        if got_m != want_m:
            diff = {k: (got_m.get(k), want_m.get(k)) for k in sorted(set(got_m) | set(want_m)) if got_m.get(k) != want_m.get(k)}
            raise AnalysisError(f"C15.R4 fixture: instance memo tables not classified as expected (table: (got, want)) {diff}")
        res.add("C15.R4", "fixture::engine/rules/c15_fixtures/memo.py", True, f"positive fixture recognised: {got_m}", nontrivial=False)
    finally:
        shutil.rmtree(tmp, ignore_errors=True)


# --------------------------------------------------------------------------- R5


def selections(repo: Repo, order: "Order | None" = None) -> list[dict]:
    """Loops whose keep / drop decisions read state accumulated by earlier iterations (c15_selection.py), with the nature of the
    collection they run over: unordered (set / hash order), listing (directory enumeration), listed (any other sequence)."""
    from . import c15_selection as sel

    T = types_of(repo)
    order = order or Order(repo)
    out = []
    n_loops = 0
    for f in repo.all_functions():
        if isinstance(f.node, ast.Lambda) or not any(isinstance(n, (ast.For, ast.AsyncFor, ast.While)) for n in own_nodes(f.node)):
            continue
        try:
            v = sel.hoisted_view(repo, f, T)  # the inlined view, test-and-set helpers called inside `if` tests expanded as well
        except Exception:  # noqa: BLE001
            v = inline_view(repo, f, T)
        for info in sel.loops_of(v):
            src = getattr(info.loop, "_src", None)
            if src is not None and src[0] != f:
                continue  # a loop of an expanded helper: judged in the helper itself
            n_loops += 1
            findings = sel.analyse(info)
            if not findings:
                continue
            nature = _order_nature(order, v, info.source)
            if nature is None:
                continue  # sorted input, a fixed sequence, or an order that is the function's own business
            for fd in findings:
                out.append({"f": f, "loop": src[1] if src is not None else info.loop, "test": fd.test, "container": fd.container, "why": fd.why, "nature": nature, "elems": sorted(info.elems)})
    return [{"loops": n_loops}, *out]


_RANK = {None: 0, "listed": 1, "listing": 2, "unordered": 3}


def _order_nature(order: "Order", v: FuncInfo, exprs: list[ast.expr], depth: int = 0, seen: set | None = None) -> str | None:
    """Why the order of the elements is not part of the contract: 'unordered' (set / hash order), 'listing' (directory enumeration),
    'listed' (order in which a caller of the public API listed the items); None for a sorted / fixed / internally determined order."""
    from . import c15_selection as sel

    seen = seen if seen is not None else set()
    best: str | None = None

    def up(n: str | None) -> None:
        nonlocal best
        if _RANK[n] > _RANK[best]:
            best = n

    for e in exprs:
        if isinstance(e, ast.Starred):
            e = e.value
        if isinstance(e, ast.Call) and isinstance(e.func, ast.Name) and e.func.id == "sorted":
            continue
        if isinstance(e, ast.Call) and isinstance(e.func, ast.Attribute) and e.func.attr == "sort":
            continue
        if isinstance(e, (ast.List, ast.Tuple)):
            # a display has the order it is written in; only unpacked parts bring an order of their own
            for x in e.elts:
                if isinstance(x, ast.Starred):
                    up(_order_nature(order, v, [x.value], depth + 1, seen))
            continue
        if order.unordered(v, e):
            up("unordered")
            continue
        if isinstance(e, ast.Call) and ((isinstance(e.func, ast.Attribute) and e.func.attr in sel.DIR_LISTING) or (isinstance(e.func, ast.Name) and e.func.id in sel.DIR_LISTING)):
            up("listing")
            continue
        if isinstance(e, ast.Call) and isinstance(e.func, ast.Name) and e.func.id in ("list", "tuple", "iter", "reversed", "enumerate", "zip", "product", "chain", "filter") and depth < 4:
            up(_order_nature(order, v, [a for a in e.args], depth + 1, seen))
            continue
        if isinstance(e, (ast.ListComp, ast.GeneratorExp)) and depth < 4:
            up(_order_nature(order, v, [g.iter for g in e.generators], depth + 1, seen))
            continue
        if isinstance(e, ast.Name) and e.id not in seen and depth < 4 and not isinstance(v.node, ast.Lambda):
            seen.add(e.id)
            vals = []
            sorted_in_place = False
            for n in own_nodes(v.node):
                if isinstance(n, (ast.Assign, ast.AnnAssign)) and n.value is not None and any(isinstance(t, ast.Name) and t.id == e.id for t in (n.targets if isinstance(n, ast.Assign) else [n.target])):
                    vals.append(n.value)
                elif isinstance(n, ast.Call) and isinstance(n.func, ast.Attribute) and n.func.attr == "sort" and dotted(n.func.value) == e.id:
                    sorted_in_place = True
                elif isinstance(n, ast.Call) and isinstance(n.func, ast.Attribute) and n.func.attr in ("append", "extend", "insert") and dotted(n.func.value) == e.id:
                    vals += list(n.args)
            if sorted_in_place:
                continue
            if vals:
                up(_order_nature(order, v, vals, depth + 1, seen))
        if order.listed(v, e):
            up("listed")
    return best


def run_r5(repo: Repo, res: Result, order: "Order | None" = None) -> None:
    found = selections(repo, order)
    n_loops = found[0]["loops"]
    what = {"unordered": "a set (hash order)", "listing": "a directory listing (enumeration order of the file system)", "listed": "a sequence whose order is the order in which the caller listed its items"}
    for s in found[1:]:
        f = s["f"]
        res.add(
            "C15.R5",
            repo.key(f, s["loop"]) + f" [{norm(s['test'], 70)}]",
            False,
            f"the loop runs over {what[s['nature']]}, and {s['why']}: the result depends on the order of the elements",
            where(f, s["test"]),
            kind="structural",
        )
    res.add("C15.R5", "src::order-independent selection", len(found) == 1, f"{n_loops} loops (for / worklist) analysed: no keep-or-drop decision reads what earlier iterations accumulated, other than de-duplication on the element's own identity", kind="structural")
    res.floor("C15.R5", 20, n_loops)
    # positive fixture (the expected number of findings on the real tree is zero)
    import shutil

    tmp, frepo = _fixture_repo("selection.py")
    try:
        flagged = {s["f"].name for s in selections(frepo)[1:]}
        want = {"bad_first_physical_location_wins", "bad_case_insensitive_first_wins", "bad_parents_retained_so_far", "bad_parents_retained_so_far_through_helper", "bad_first_three", "bad_listing_prefix_filter", "bad_flag_loop_over_retained", "bad_test_and_set_helper_decides"}
        if flagged != want:
            raise AnalysisError(f"C15.R5 fixture: order-dependent selections not recognised exactly (flagged {sorted(flagged)}, want {sorted(want)})")
        res.add("C15.R5", "fixture::engine/rules/c15_fixtures/selection.py", True, f"positive fixture recognised: {sorted(flagged)}; de-duplication on the element, sorted input, tests against the complete input, grouping and closure idioms accepted", nontrivial=False)
    finally:
        shutil.rmtree(tmp, ignore_errors=True)


def run(repo: Repo) -> Result:
    res = Result("C15")
    res.explanation = (
        "Decides purity structurally: (R1) every graph-holding class freezes its graph at the end of its constructor, nothing modifies a "
        "graph after construction (mutators reachable only from the constructor) and all modules are nodes before the first import edge is "
        "created; (R2) nothing reachable from an evaluation entry point (every concrete assert_applies, the query interface get_dependencies / "
        "any_* / visualize / modules) writes to its receiver, its arguments or objects reachable from them - decided by an ownership analysis "
        "(fresh / owned / handed-in objects, field- and depth-sensitive, inter-procedural); the single accepted kind of write, a self-rewrite "
        "of a field of the entry point's receiver (alias rewrite of Rule._configuration), is checked to be idempotent and independent of the "
        "architecture; (R3) no set iteration order reaches text (join / f-string / str) without sorted, and no container is grown and shrunk "
        "inside one loop over an unordered collection; (R4) no function writes class-level, module-level or escaping-closure state and no "
        "observable cache exists; (R5) no loop over a set, a directory listing or a caller-listed sequence decides to keep or drop an element "
        "by looking at what earlier iterations kept (other than de-duplication on the element itself). Purity implies history-, re-application- and interleaving-independence of verdicts and messages; ordered "
        "sinks imply hash-seed independence of texts."
    )
    res.not_decided = "seed/ordering effects inside networkx/matplotlib; list order of `modules` (only set equality is claimed); dependence of texts on the order in which list arguments were given, other than through sets; the deprecated decorator's warnings.simplefilter calls (global library state, observed, outside the property's observables)."
    res.trusted_base = ["networkx.freeze makes every mutator raise", "engine resolver / call graph (CHA with name-based fallback)", "ownership analysis of rules/c15_roots.py: flow-insensitive per function, contents of containers kept apart to depth 3, dict keys and values of immutable static type carry no ownership"]
    run_r1(repo, res)
    run_r2(repo, res)
    order = Order(repo)
    run_r3(repo, res, order)
    run_r4(repo, res)
    run_r5(repo, res, order)
    for f in repo.all_functions():
        for c in calls_in(f.node):
            if dotted(c.func) == "warnings.simplefilter":
                res.observe(f"{f.relpath}::{f.qualname}: `{norm(c)}` changes the global warnings filter (library state outside the property's observables; not armed)")
    return res
