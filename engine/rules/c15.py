"""C15 - evaluation is pure and independent of order, history and hash seed.

  C15.R1  the graph is frozen after construction; graph mutators are reachable only from the constructor; all nodes exist before
          the first import edge is created
  C15.R2  no long-lived object is written during evaluation (rule objects, the evaluable and its graph, argument lists); one
          reviewed exception: the idempotent alias rewrite of Rule._configuration
  C15.R3  unordered (set) iteration never reaches text without `sorted`; no set is both grown and shrunk inside one loop over an
          unordered collection (iteration-order dependent result)
  C15.R4  no function writes class-level or module-level state (hidden state shared between scans / evaluations)
"""

from __future__ import annotations

import ast

from core.effects import Effects, Write
from core.flow import Flow, Spec
from core.guards import atom, conds_formula, f_not, implies
from core.loader import AnalysisError, FuncInfo, Repo, ancestors, calls_in, header, norm, own_nodes, parent
from core.report import Result
from core.types import is_set_type, kind, members

from .common import callees_of, cfg_of, conds, dotted, is_attr_call, reachable_funcs, stmt_of, types_of, where

NXGRAPH = "pytestarch.eval_structure.networkxgraph"
EVAL_GRAPH = "pytestarch.eval_structure.evaluable_graph"
RULE = "pytestarch.query_language.rule"
LAYER_RULE = "pytestarch.query_language.layered_architecture_rule"
DIAGRAM_RULE = "pytestarch.diagram_extension.diagram_rule"
MULTI = "pytestarch.query_language.multiple_rule_applier"

GRAPH_MUTATORS = {"add_node", "add_edge", "add_nodes_from", "add_edges_from", "remove_node", "remove_edge", "remove_nodes_from", "remove_edges_from", "clear", "update", "add_weighted_edges_from", "clear_edges"}


def evaluation_roots(repo: Repo) -> list[FuncInfo]:
    roots = [
        repo.func(RULE, "Rule.assert_applies"),
        repo.func(LAYER_RULE, "LayerRule.assert_applies"),
        repo.func(DIAGRAM_RULE, "DiagramRule.assert_applies"),
        repo.func(MULTI, "MultipleRuleApplier.assert_applies"),
    ]
    eg = repo.cls(EVAL_GRAPH, "EvaluableArchitectureGraph")
    for name in ("get_dependencies", "any_dependencies_from_dependents_to_modules_other_than_dependent_upons", "any_other_dependencies_on_dependent_upons_than_from_dependents", "visualize", "modules"):
        m = eg.methods.get(name)
        if m is None:
            raise AnalysisError(f"EvaluableArchitectureGraph.{name} not found")
        roots.append(m)
    return roots


# --------------------------------------------------------------------------- R1


def run_r1(repo: Repo, res: Result) -> None:
    g = repo.cls(NXGRAPH, "NetworkxGraph")
    init = g.methods.get("__init__")
    if init is None:
        raise AnalysisError("NetworkxGraph.__init__ not found")
    cfg = cfg_of(init)
    freeze = [c for c in calls_in(init.node) if (repo.resolve_name(init.module, c.func) or "").endswith("networkx.freeze") or dotted(c.func) in ("nx.freeze", "freeze")]
    builders = [c for c in calls_in(init.node) if isinstance(c.func, ast.Attribute) and dotted(c.func.value) == "self" and c.func.attr.startswith("_") and repo.lookup_method(g, c.func.attr) is not None]
    ok = len(freeze) == 1 and bool(builders)
    detail = "nx.freeze(self._graph) is the last step of the only constructor"
    if ok:
        fz = stmt_of(freeze[0])
        from core.cfg import EXIT

        ok = "_graph" in norm(freeze[0].args[0]) if freeze[0].args else False
        ok = ok and cfg.dominates(fz, EXIT) and all(cfg.dominates(stmt_of(b), fz) for b in builders)
        if not ok:
            detail = "the graph is not frozen on every path after it has been built (freeze must follow _initialise and dominate the exit)"
    else:
        detail = "the constructor does not freeze the graph after building it"
    res.add("C15.R1", f"{init.relpath}::{init.qualname}::freeze", ok, detail, where(init, init.node), kind="dominance")
    # who may mutate the graph
    T = types_of(repo)
    mutating: list[tuple[FuncInfo, ast.Call]] = []
    for f in repo.all_functions():
        for c in calls_in(f.node):
            if isinstance(c.func, ast.Attribute) and c.func.attr in GRAPH_MUTATORS:
                t = T.expr(f, c.func.value)
                if any(m == ("lib", "networkx.DiGraph") for m in members(t)):
                    mutating.append((f, c))
        for n in own_nodes(f.node):
            if isinstance(n, ast.Assign):
                for t_ in n.targets:
                    if isinstance(t_, ast.Subscript) and any(m == ("lib", "networkx.DiGraph") for m in members(T.expr(f, t_.value))):
                        mutating.append((f, n))
    # functions reachable from anything that is not the constructor chain
    public = [m for m in g.methods.values() if m is not init and (not m.name.startswith("_") or m.name.startswith("__"))]
    outside = reachable_funcs(repo, [*public, *evaluation_roots(repo)], byname=True, stop={init.fq})
    outside.pop(init, None)
    from_init = reachable_funcs(repo, [init], byname=False)
    for f, c in mutating:
        ok = f in from_init and f not in outside
        path = outside.get(f)
        res.add(
            "C15.R1",
            repo.key(f, stmt_of(c)),
            ok,
            "graph mutator reachable only from the constructor" if ok else f"`{norm(c)}` mutates the graph and is reachable after construction via {' -> '.join(p.split('::')[1] for p in path) if path else 'a function outside the constructor chain'}",
            where(f, c),
            kind="effect",
        )
    res.floor("C15.R1", 3, len(mutating) + 1)
    # all nodes before the first import edge
    ini = g.methods.get("_initialise")
    if ini is None:
        raise AnalysisError("NetworkxGraph._initialise not found")
    loops = [n for n in own_nodes(ini.node) if isinstance(n, ast.For) and "_imports" in norm(n.iter)]
    adders = [c for c in calls_in(ini.node) if is_attr_call(c, "_add_all_modules_as_nodes")]
    ok = bool(loops) and bool(adders) and all(cfg_of(ini).dominates(stmt_of(adders[0]), l) for l in loops) and not any(a is l for l in loops for a in ancestors(adders[0]))
    res.add("C15.R1", f"{ini.relpath}::{ini.qualname}::nodes before edges", ok, "every module is registered as a node before the first import edge is created" if ok else "import edges are created before all modules are nodes: the has_node guard makes the edge set depend on the order of imports/modules", where(ini, ini.node), kind="dominance")


# --------------------------------------------------------------------------- R2


def run_r2(repo: Repo, res: Result) -> None:
    T = types_of(repo)
    E = Effects(repo, T)
    roots = evaluation_roots(repo)
    reach = reachable_funcs(repo, roots, byname=True)
    # classes whose instances are created during evaluation only (every construction site lies in the reachable region)
    ctor_sites: dict[str, list[FuncInfo]] = {}
    for f in repo.all_functions():
        for c in calls_in(f.node):
            ci = T.ctor_class(f, c)
            if ci is not None:
                ctor_sites.setdefault(ci.fq, []).append(f)
    root_classes = {r.cls.fq for r in roots if r.cls is not None}

    def evaluation_local(cls_fq: str) -> bool:
        sites = ctor_sites.get(cls_fq, [])
        return bool(sites) and cls_fq not in root_classes and all(s in reach for s in sites)

    # summary: which of {self, params} a function may mutate (transitively), with the witnessing write
    summary: dict[FuncInfo, dict[str, tuple[Write, list[str]]]] = {f: {} for f in reach}
    reviewed: list[Write] = []

    def is_reviewed(w: Write) -> bool:
        # Rule._configuration = _convert_aliases(self._configuration): accepted while idempotent (checked below)
        return (
            w.fi.cls is not None and w.fi.cls.fq == f"{RULE}.Rule" and w.fi.name == "assert_applies" and w.how == "attr-store" and w.field == "_configuration"
            and isinstance(w.node, ast.Assign) and isinstance(w.node.value, ast.Call) and "_convert_aliases" in norm(w.node.value.func)
        )

    direct_bad: list[tuple[Write, str]] = []
    for f in reach:
        for w in E.writes(f):
            if w.root_kind == "self":
                if f.name in ("__init__", "__post_init__"):
                    continue
                if is_reviewed(w):
                    reviewed.append(w)
                    continue
                summary[f].setdefault("self", (w, [f.fq]))
            elif w.root_kind == "param":
                summary[f].setdefault(w.root, (w, [f.fq]))
            elif w.root_kind == "local" and not w.fresh:
                origin = _origin(f, w.root)
                if origin is not None:
                    summary[f].setdefault(origin, (w, [f.fq]))
                else:
                    direct_bad.append((w, "an object that is not created inside this function"))
            elif w.root_kind in ("classvar", "global"):
                pass  # R4
            elif w.root_kind == "unknown":
                direct_bad.append((w, "an object of unknown origin"))
    # propagate to callers
    changed = True
    rounds = 0
    while changed and rounds < 30:
        changed = False
        rounds += 1
        for f in reach:
            for c in calls_in(f.node):
                cs, _how = T.callees(f, c, byname_fallback=True)
                for g in cs:
                    if g not in summary:
                        continue
                    for what, (w, path) in list(summary[g].items()):
                        arg = _argument_for(g, c, what)
                        if arg is None:
                            continue
                        root = _expr_root(f, arg)
                        if root is None:
                            continue
                        rk, rn = root
                        if rk == "fresh":
                            continue
                        if g.name in ("__init__", "__post_init__") and what == "self":
                            continue
                        key = rn
                        if rk in ("self", "param"):
                            if f.name in ("__init__", "__post_init__") and rk == "self":
                                continue
                            if key not in summary[f]:
                                summary[f][key] = (w, [f.fq] + path)
                                changed = True
                        elif rk == "nonfresh-local":
                            origin = _origin(f, rn)
                            if origin is not None and origin not in summary[f]:
                                summary[f][origin] = (w, [f.fq] + path)
                                changed = True
    n = 0
    for r in roots:
        for what, (w, path) in summary[r].items():
            cls_of_write = w.fi.cls.fq if w.fi.cls is not None else ""
            # a write to `self` of an evaluation-local class only matters if it propagated to a root's own state
            n += 1
            res.add(
                "C15.R2",
                repo.key(w.fi, stmt_of(w.node)) + f" [via {r.qualname}]",
                False,
                f"evaluation entry point {r.qualname} may modify its long-lived `{what}`: `{header(stmt_of(w.node))}` in {w.fi.qualname} (call path: {' -> '.join(p.split('::')[1] for p in path)}); the verdict of a later evaluation depends on this history",
                where(w.fi, w.node),
                kind="effect",
            )
    for w, why in direct_bad:
        n += 1
        res.add("C15.R2", repo.key(w.fi, stmt_of(w.node)), False, f"`{header(stmt_of(w.node))}` (reachable from an evaluation entry point) modifies {why}", where(w.fi, w.node), kind="effect")
    # discharged instances: every write in the reachable region that stays local
    local_ok = 0
    for f in reach:
        for w in E.writes(f):
            if (w.root_kind == "local" and w.fresh) or (w.root_kind == "self" and f.name in ("__init__", "__post_init__")):
                local_ok += 1
    res.add("C15.R2", "evaluation region::writes to fresh objects", True, f"{local_ok} writes in {len(reach)} reachable functions go to objects created during the evaluation (or constructors' own instance)", kind="effect")
    for r in roots:
        if not summary[r]:
            res.add("C15.R2", f"{r.relpath}::{r.qualname}::no long-lived write", True, f"nothing reachable from {r.qualname} writes to its receiver, its arguments or objects reachable from them", where(r, r.node), kind="effect")
    # the reviewed exception must be idempotent
    rule = repo.cls(RULE, "Rule")
    ca = repo.lookup_method(rule, "_convert_aliases")
    if reviewed:
        ok = ca is not None
        detail = ""
        if ok:
            cfgp = ca.param_names[1]
            rets = [s for s in own_nodes(ca.node) if isinstance(s, ast.Return)]
            same = [s for s in rets if dotted(s.value) == cfgp]
            rep = [s for s in rets if isinstance(s.value, ast.Call) and dotted(s.value.func) == "replace"]
            ok = len(same) == 1 and len(rep) == 1 and len(rets) == 2
            if ok:
                kw = {k.arg: k.value for k in rep[0].value.keywords}
                ok = isinstance(kw.get("rule_object_anything"), ast.Constant) and kw["rule_object_anything"].value is False
                ok = ok and implies(conds_formula(conds(ca, same[0])), f_not(atom(f"bool({cfgp}.rule_object_anything)")))
                ok = ok and not [w for w in E.writes(ca) if w.root_kind in ("param", "self", "classvar", "global")]
            detail = "the alias rewrite returns its argument unchanged unless the alias flag is set, and clears the flag in a new object: applying it twice equals applying it once" if ok else "Rule._convert_aliases is not idempotent (must return the configuration unchanged when the alias flag is clear, and clear the flag in a new object otherwise)"
        for w in reviewed:
            res.add("C15.R2", repo.key(w.fi, stmt_of(w.node)) + " [reviewed: idempotent rewrite]", ok, detail, where(w.fi, w.node), kind="effect")
    res.analysed["evaluation_reachable_functions"] = len(reach)
    res.analysed["evaluation_local_classes"] = sorted(c.rsplit(".", 1)[-1] for c in ctor_sites if evaluation_local(c))


def _argument_for(g: FuncInfo, call: ast.Call, what: str) -> ast.expr | None:
    """Argument expression of `call` bound to parameter / receiver `what` of callee g."""
    if what == "self":
        if isinstance(call.func, ast.Attribute):
            return call.func.value
        return None
    params = g.param_names
    bound = g.cls is not None and g.outer is None and not g.is_staticmethod
    if what not in params:
        return None
    idx = params.index(what) - (1 if bound else 0)
    for k in call.keywords:
        if k.arg == what:
            return k.value
    if 0 <= idx < len(call.args):
        return call.args[idx]
    return None


def _expr_root(f: FuncInfo, e: ast.expr) -> tuple[str, str] | None:
    from core.effects import _root_and_path

    T = None
    root, _path = _root_and_path(e)
    if isinstance(root, ast.Name):
        name = root.id
        bound = f.cls is not None and f.outer is None and not f.is_staticmethod
        if bound and f.params and name == f.params[0].arg:
            return ("self", "self")
        if name in f.param_names:
            return ("param", name)
        E = Effects(_REPO[0], types_of(_REPO[0]))
        if E.fresh_local(f, name):
            return ("fresh", name)
        return ("nonfresh-local", name)
    if isinstance(root, ast.Call):
        E = Effects(_REPO[0], types_of(_REPO[0]))
        return ("fresh", "") if E.fresh_expr(f, root) else ("nonfresh-local", "")
    if isinstance(root, (ast.List, ast.Set, ast.Dict, ast.ListComp, ast.SetComp, ast.DictComp, ast.Constant, ast.JoinedStr, ast.Tuple)):
        return ("fresh", "")
    return None


_REPO: list = [None]


def _origin(f: FuncInfo, local: str) -> str | None:
    """Parameter (or 'self') a non-fresh local is derived from: loop variable over / attribute of / alias of it."""
    seen = set()
    name = local
    for _ in range(6):
        if name in seen:
            return None
        seen.add(name)
        src = None
        for n in own_nodes(f.node):
            if isinstance(n, (ast.For, ast.AsyncFor)) and any(isinstance(x, ast.Name) and x.id == name for x in ast.walk(n.target)):
                src = n.iter
            elif isinstance(n, ast.comprehension) and any(isinstance(x, ast.Name) and x.id == name for x in ast.walk(n.target)):
                src = n.iter
            elif isinstance(n, ast.Assign) and any(isinstance(t, ast.Name) and t.id == name for t in n.targets):
                src = n.value
        if src is None:
            return None
        from core.effects import _root_and_path

        root, _p = _root_and_path(src)
        while isinstance(root, ast.Call) and isinstance(root.func, ast.Attribute):
            root, _p = _root_and_path(root.func.value)
        if isinstance(root, ast.Name):
            bound = f.cls is not None and f.outer is None and not f.is_staticmethod
            if bound and f.params and root.id == f.params[0].arg:
                return "self"
            if root.id in f.param_names:
                return root.id
            name = root.id
        else:
            return None
    return None


# --------------------------------------------------------------------------- R3


def run_r3(repo: Repo, res: Result) -> None:
    T = types_of(repo)

    def set_typed(f: FuncInfo, e: ast.expr) -> bool:
        return is_set_type(T.expr(f, e))

    def sources(f: FuncInfo, e: ast.expr):
        # a list/tuple/iterator made from a set keeps the set's arbitrary order
        if isinstance(e, ast.Call) and isinstance(e.func, ast.Name) and e.func.id in ("list", "tuple", "iter", "enumerate", "map", "filter", "reversed") and e.args:
            if any(set_typed(f, a) for a in e.args if not isinstance(a, ast.Starred)):
                return {"U"}
        # a set stays a set when it is handed to a parameter annotated Iterable/Sequence: remember its nature
        if isinstance(e, (ast.Name, ast.Attribute, ast.Call, ast.Set, ast.SetComp)) and set_typed(f, e):
            return {"S"}
        return None

    def transfer(f: FuncInfo, call: ast.Call, names, args, recv, kwargs):
        fn = call.func
        if isinstance(fn, ast.Name) and fn.id in ("sorted", "set", "frozenset", "len", "any", "all", "sum", "min", "max"):
            return set()
        if isinstance(fn, ast.Attribute) and fn.attr in ("add", "update", "discard", "remove", "intersection", "union", "difference"):
            t = T.expr(f, fn.value)
            if any(m[0] == "b" and m[1] in ("set", "frozenset") for m in members(t)):
                return set()  # sets absorb elements in any order
        return None

    def post(f: FuncInfo, e: ast.expr, tags):
        # the tag describes the *order of a collection*: scalars, strings and repo objects do not carry it
        t = T.expr(f, e)
        ms = members(t)
        if ms and all(m[0] in ("cls", "type", "fn") or (m[0] == "b" and m[1] in ("str", "int", "bool", "none", "float", "set", "frozenset")) for m in ms):
            keep_s = any(m[0] == "b" and m[1] in ("set", "frozenset") for m in ms)
            return frozenset(x for x in tags if x != "U" and (x != "S" or keep_s))
        return tags

    flow = Flow(repo, T, Spec(sources=sources, transfer=transfer, post=post, sort_kills={"U"}, loop_tag="U", unordered_tags=frozenset({"S"}), non_absorbed=frozenset({"S"}), unordered_iter=set_typed, objects_carry=False, opaque={"len", "isinstance", "hasattr", "bool", "any", "all", "sum", "min", "max", "set", "frozenset", "sorted"}))
    n = 0
    sinks = 0
    for f in repo.all_functions():
        for node in own_nodes(f.node):
            sink_arg = None
            what = ""
            if isinstance(node, ast.Call) and isinstance(node.func, ast.Attribute) and node.func.attr == "join" and len(node.args) == 1:
                rt = T.expr(f, node.func.value)
                if any(m == ("b", "str", ()) for m in members(rt)):
                    sink_arg, what = node.args[0], f"{norm(node.func.value)}.join"
            elif isinstance(node, ast.FormattedValue):
                t = T.expr(f, node.value)
                if any(m[0] == "b" and m[1] in ("set", "frozenset", "list", "tuple", "dict", "seq", "iter") for m in members(t)):
                    sink_arg, what = node.value, "f-string"
            elif isinstance(node, ast.Call) and isinstance(node.func, ast.Name) and node.func.id in ("str", "repr") and node.args:
                t = T.expr(f, node.args[0])
                if any(m[0] == "b" and m[1] in ("set", "frozenset", "list", "tuple", "dict") for m in members(t)):
                    sink_arg, what = node.args[0], node.func.id
            if sink_arg is None:
                continue
            sinks += 1
            direct_set = set_typed(f, sink_arg) or (isinstance(sink_arg, (ast.GeneratorExp, ast.ListComp)) and any(set_typed(f, g.iter) for g in sink_arg.generators))
            tagged = bool({"U", "S"} & flow.tags(sink_arg))
            ok = not direct_set and not tagged
            n += 1
            res.add(
                "C15.R3",
                repo.key(f, stmt_of(node)) + f" [{what}({norm(sink_arg, 60)})]",
                ok,
                "text built from an ordered (sorted or list-ordered) collection" if ok else f"`{norm(sink_arg, 80)}` reaches text through {what} in set-iteration order ({'a set is joined directly' if direct_set else 'the collection was filled while iterating a set and never sorted'}): the message depends on PYTHONHASHSEED",
                where(f, node),
                kind="flow",
            )
    res.floor("C15.R3", 8, n)
    # grow-and-shrink of one container inside a loop over an unordered collection
    k = 0
    for f in repo.all_functions():
        for lp in own_nodes(f.node):
            if not isinstance(lp, (ast.For, ast.AsyncFor)) or not set_typed(f, lp.iter):
                continue
            grown: dict[str, ast.AST] = {}
            shrunk: dict[str, ast.AST] = {}
            for c in ast.walk(lp):
                if isinstance(c, ast.Call) and isinstance(c.func, ast.Attribute):
                    recv = dotted(c.func.value)
                    if not recv:
                        continue
                    if c.func.attr in ("add", "update", "append", "extend", "insert", "setdefault"):
                        grown.setdefault(recv, c)
                    elif c.func.attr in ("remove", "discard", "pop", "clear", "difference_update", "intersection_update"):
                        shrunk.setdefault(recv, c)
            k += 1
            both = sorted(set(grown) & set(shrunk))
            res.add(
                "C15.R3",
                repo.key(f, lp) + " [order-independent loop body]",
                not both,
                "loop over a set only grows (or only shrinks) each container: the result does not depend on iteration order" if not both else f"`{both[0]}` is both grown (`{norm(grown[both[0]], 60)}`) and shrunk (`{norm(shrunk[both[0]], 60)}`) inside one loop over the set `{norm(lp.iter)}`: the final content depends on the set's iteration order (hash seed)",
                where(f, lp),
                kind="structural",
            )
    res.floor("C15.R3.loops", 3, k)
    res.analysed["text_sinks"] = sinks


# --------------------------------------------------------------------------- R4


def shared_state_writes(repo: Repo) -> list[Write]:
    T = types_of(repo)
    E = Effects(repo, T)
    out = []
    for f in repo.all_functions():
        for w in E.writes(f):
            if w.root_kind in ("classvar", "global"):
                out.append(w)
    return out


def run_r4(repo: Repo, res: Result) -> None:
    T = types_of(repo)
    ws = shared_state_writes(repo)
    for w in ws:
        res.add(
            "C15.R4",
            repo.key(w.fi, stmt_of(w.node)),
            False,
            f"`{header(stmt_of(w.node))}` in {w.fi.qualname} writes {'class-level' if w.root_kind == 'classvar' else 'module-level'} state `{w.root}.{w.field}` shared by all instances: results of one scan / evaluation leak into the next one in the same process",
            where(w.fi, w.node),
            kind="effect",
        )
    # caching decorators keep hidden state as well
    cached = [f for f in repo.all_functions() if any(d in ("lru_cache", "cache", "cached_property") for d in f.decorators)]
    for f in cached:
        E = Effects(repo, T)
        mutable_ret = not isinstance(f.node, ast.Lambda) and any(isinstance(n, ast.Return) and n.value is not None and kind(T.expr(f, n.value)) in ("set", "list", "dict") for n in own_nodes(f.node))
        res.add(
            "C15.R4",
            f"{f.relpath}::{f.qualname}::cache decorator",
            False,
            f"{f.qualname} is memoised ({', '.join(f.decorators)}): results computed for one architecture/configuration are served to later calls" + (" and the cached mutable result is shared between callers" if mutable_ret else ""),
            where(f, f.node),
            kind="effect",
        )
    res.add("C15.R4", "src::no shared mutable state written inside functions", not ws and not cached, f"{len(repo.funcs)} functions analysed: none writes class-level or module-level state, none is memoised", kind="effect")
    # positive fixture: the rule must recognise a class-level cache (expected count on the real tree is zero)
    from pathlib import Path
    import shutil, tempfile

    fx = Path(__file__).resolve().parents[1] / "fixtures" / "shared_state.py"
    tmp = Path(tempfile.mkdtemp(prefix="pta-fixture-"))
    try:
        (tmp / "src" / "pytestarch").mkdir(parents=True)
        shutil.copy(fx, tmp / "src" / "pytestarch" / "fixture_shared_state.py")
        frepo = Repo(tmp)
        got = {(w.fi.qualname, w.root_kind) for w in shared_state_writes(frepo)}
        want = {("Cache.lookup", "classvar"), ("remember", "global"), ("Cache.via_cls", "classvar")}
        if not want <= got:
            raise AnalysisError(f"C15.R4 fixture: shared-state writes not recognised (got {sorted(got)}, want {sorted(want)})")
        res.add("C15.R4", "fixture::engine/fixtures/shared_state.py", True, f"positive fixture recognised: {sorted(got)}", nontrivial=False)
    finally:
        shutil.rmtree(tmp, ignore_errors=True)


def run(repo: Repo) -> Result:
    _REPO[0] = repo
    res = Result("C15")
    res.explanation = (
        "Decides purity structurally: (R1) the graph is frozen after construction, graph mutators are reachable only from the constructor and all "
        "nodes exist before import edges are created; (R2) nothing reachable from an evaluation entry point (assert_applies x4, the three "
        "queries, visualize, modules) writes to its receiver, its arguments or objects derived from them - writes go only to objects created "
        "during the evaluation; the single reviewed exception (alias rewrite of Rule._configuration) is checked to be idempotent; (R3) no set "
        "iteration order reaches text (join / f-string / str) without sorted, and no container is grown and shrunk inside one loop over a set; "
        "(R4) no function writes class-level or module-level state and nothing is memoised. Purity implies history-, re-application- and "
        "interleaving-independence of verdicts and messages; ordered sinks imply hash-seed independence of texts."
    )
    res.not_decided = "seed/ordering effects inside networkx/matplotlib; list order of `modules` (only set equality is claimed); the deprecated decorator's warnings.simplefilter calls (global library state, observed, outside the property's observables)."
    res.trusted_base = ["networkx.freeze makes every mutator raise", "engine resolver / call graph (CHA with name-based fallback) and freshness analysis"]
    run_r1(repo, res)
    run_r2(repo, res)
    run_r3(repo, res)
    run_r4(repo, res)
    for f in repo.all_functions():
        for c in calls_in(f.node):
            if dotted(c.func) == "warnings.simplefilter":
                res.observe(f"{f.relpath}::{f.qualname}: `{norm(c)}` changes the global warnings filter (library state outside the property's observables; not armed)")
    return res
