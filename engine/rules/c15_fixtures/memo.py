"""Positive fixture for the instance-memo classifier (c15_memo.py): tables on a long-lived object that are filled by key during
queries.  Expected verdicts are listed in rules/c15.py (run_r4)."""

from __future__ import annotations


class Graph:
    def __init__(self, edges: dict[str, set[str]], limit: int) -> None:
        self._edges = edges
        self._limit = limit
        self._mode = "strict"
        self._ok_tuple: dict[str, tuple[str, ...]] = {}
        self._ok_copied: dict[str, list[str]] = {}
        self._ok_setdefault: dict[str, tuple[str, ...]] = {}
        self._ok_pair: dict[tuple[str, str], bool] = {}
        self._bad_half_key: dict[str, bool] = {}
        self._bad_flag_ignored: dict[str, tuple[str, ...]] = {}
        self._other_iterated: dict[str, tuple[str, ...]] = {}
        self._other_handed_out: dict[str, list[str]] = {}
        self._other_early: dict[str, int] = {}
        self._other_later_state: dict[str, str] = {}
        self._other_control: dict[str, tuple[str, ...]] = {}
        self._other_derived_key: dict[str, tuple[str, ...]] = {}
        self._warm = self.early("a")

    def set_mode(self, mode: str) -> None:
        self._mode = mode

    # ---- accepted
    def ok_tuple(self, node: str) -> list[str]:
        if node not in self._ok_tuple:
            self._ok_tuple[node] = tuple(sorted(self._edges[node]))
        return list(self._ok_tuple[node])

    def ok_copied(self, node: str) -> list[str]:
        try:
            return list(self._ok_copied[node])
        except KeyError:
            found = sorted(self._edges[node])
            self._ok_copied[node] = found
            return list(found)

    def ok_setdefault(self, node: str) -> tuple[str, ...]:
        return self._ok_setdefault.setdefault(node, tuple(sorted(self._neighbours(node))))

    def _neighbours(self, node: str) -> set[str]:
        return {n for n in self._edges[node] if n.count(".") <= self._limit}

    def ok_pair(self, start: str, end: str) -> bool:
        known = self._ok_pair.get((start, end))
        if known is None:
            known = self._ok_pair[start, end] = end in self._edges[start]
        return known

    # ---- stale answers (reported)
    def bad_half_key(self, start: str, end: str) -> bool:
        if start not in self._bad_half_key:
            self._bad_half_key[start] = end in self._edges[start]
        return self._bad_half_key[start]

    def bad_flag_ignored(self, node: str, deep: bool = False) -> tuple[str, ...]:
        if node not in self._bad_flag_ignored:
            found = set(self._edges[node])
            extra = {m for n in found for m in self._edges[n]} if deep else set()
            self._bad_flag_ignored[node] = tuple(sorted(found | extra))
        return self._bad_flag_ignored[node]

    # ---- not a memo nobody can observe (left to the purity rule)
    def other_iterated(self, node: str) -> tuple[str, ...]:
        if node not in self._other_iterated:
            self._other_iterated[node] = tuple(sorted(self._edges[node]))
        return self._other_iterated[node]

    def asked_for(self) -> list[str]:
        return list(self._other_iterated)

    def other_handed_out(self, node: str) -> list[str]:
        if node not in self._other_handed_out:
            self._other_handed_out[node] = sorted(self._edges[node])
        return self._other_handed_out[node]

    def early(self, node: str) -> int:
        if node not in self._other_early:
            self._other_early[node] = len(self._edges[node])
        return self._other_early[node]

    def other_later_state(self, node: str) -> str:
        if node not in self._other_later_state:
            self._other_later_state[node] = self._mode + node
        return self._other_later_state[node]

    def other_control(self, node: str, strict: bool = True) -> tuple[str, ...]:
        if strict and node not in self._edges:
            raise KeyError(node)
        if node not in self._other_control:
            self._other_control[node] = tuple(sorted(self._edges.get(node, ())))
        return self._other_control[node]

    def other_derived_key(self, node: str) -> tuple[str, ...]:
        key = node.lower()
        if key not in self._other_derived_key:
            self._other_derived_key[key] = tuple(sorted(self._edges[node]))
        return self._other_derived_key[key]
