"""Positive fixture for C15.R2 (never imported by anything): every `bad_*` method of Holder, taken as an entry point, writes to its
receiver, to an argument or to something reachable from them; every `ok_*` method writes only to objects it created itself."""

from __future__ import annotations

from dataclasses import dataclass, replace


@dataclass
class Config:
    name: str
    flag: bool = False


class Wrapper:
    def __init__(self, items: list[str]) -> None:
        self._items = items

    def add(self, item: str) -> None:
        self._items.append(item)


class Worker:
    """Keeps per-run state of its own; only reads what it was given."""

    def __init__(self, items: list[str]) -> None:
        self._items = items
        self._seen: dict[str, list[str]] = {}
        self.result: list[str] = []

    def run(self) -> None:
        for item in self._items:
            self._seen.setdefault(item[:1], []).append(item)
            self._note(item)

    def _note(self, item: str) -> None:
        self.result.append(item)


def _push(target: list[str], item: str) -> None:
    target.append(item)


def _same(items: list[str]) -> list[str]:
    return items


class Holder:
    def __init__(self, items: list[str], cfg: Config) -> None:
        self._items = items
        self._cache: dict[str, list[str]] = {}
        self._cfg = cfg

    def bad_store(self, x: str) -> None:
        self._last = x

    def bad_append_shared(self, x: str) -> None:
        self._items.append(x)

    def bad_alias(self, x: str) -> None:
        items = self._items
        items.append(x)

    def bad_getattr(self, x: str) -> None:
        getattr(self, "_items").append(x)

    def bad_computed_getattr(self, name: str, x: str) -> None:
        getattr(self, name).append(x)

    def bad_setattr(self, x: str) -> None:
        setattr(self, "_seen", x)

    def bad_param_sort(self, names: list[str]) -> None:
        names.sort()

    def bad_param_aug(self, names: list[str]) -> None:
        names += ["x"]

    def bad_own_cache(self, x: str) -> None:
        self._cache.setdefault(x, []).append(x)

    def bad_through_helper(self, x: str) -> None:
        _push(self._items, x)

    def bad_through_identity(self, x: str) -> None:
        _same(self._items).append(x)

    def bad_element(self, configs: list[Config]) -> None:
        configs[0].flag = True

    def bad_loop_element(self, configs: list[Config]) -> None:
        for position, config in enumerate(configs):
            config.flag = position > 0

    def bad_wrapper_of_shared(self) -> None:
        wrapper = Wrapper(self._items)
        wrapper.add("x")

    def bad_cached_values(self) -> None:
        for names in self._cache.values():
            names.append("x")

    def bad_configuration_field(self) -> None:
        self._cfg.flag = True

    def bad_lambda(self, names: list[str]) -> None:
        add = lambda n: names.append(n)  # noqa: E731
        add("x")

    def ok_local(self, names: list[str]) -> list[str]:
        out = []
        for n in names:
            out.append(n)
        return out

    def ok_copy(self, names: list[str]) -> list[str]:
        ordered = list(names)
        ordered.sort()
        return ordered

    def ok_grouping(self, configs: list[Config]) -> dict[str, list[Config]]:
        groups: dict[str, list[Config]] = {}
        for config in configs:
            groups.setdefault(config.name, []).append(config)
        for members in groups.values():
            members.reverse()
        return groups

    def ok_grouping_get(self, configs: list[Config]) -> dict[str, list[Config]]:
        groups: dict[str, list[Config]] = {}
        for config in configs:
            known = groups.get(config.name)
            if known is None:
                known = groups[config.name] = []
            known.append(config)
        return groups

    def ok_fresh_wrapper(self, x: str) -> Wrapper:
        wrapper = Wrapper([])
        wrapper.add(x)
        return wrapper

    def ok_fresh_worker(self) -> list[str]:
        worker = Worker(self._items)
        worker.run()
        return worker.result

    def ok_kwargs(self, **kwargs: str) -> dict[str, str]:
        kwargs.pop("a", None)
        kwargs["b"] = "1"
        return kwargs

    def ok_replace(self) -> Config:
        changed = replace(self._cfg, flag=False)
        changed.name = "copy"
        return changed

    def ok_helper_on_local(self, x: str) -> list[str]:
        out: list[str] = []
        _push(out, x)
        _same(out).append(x)
        return out
