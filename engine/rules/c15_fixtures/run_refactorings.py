#!/venv/bin/python
"""Regression corpus for C15: behaviour-preserving refactorings of /repo HEAD (written by independent agents and by hand while the
rules were re-engineered, each verified against the test-suite).  The C15 check must stay silent on every one of them.

usage: run_refactorings.py [glob of *.diff ...]     (default: refactorings/*.diff next to this file)
Applies each patch to a scratch copy of /repo HEAD (src + docs) under tempfile.mkdtemp and runs the C15 rules on it.
"""
import glob, multiprocessing as mp, os, shutil, subprocess, sys, tempfile
from pathlib import Path

HERE = Path(__file__).resolve().parent
sys.path.insert(0, str(HERE.parents[1]))


def one(p: str):
    import check
    from core.loader import AnalysisError

    tmp = Path(tempfile.mkdtemp(prefix="pta-c15-refac-"))
    try:
        subprocess.run(f"git -C /repo archive HEAD src docs | tar -x -C {tmp}", shell=True, check=True)
        subprocess.run(["git", "init", "-q", "."], cwd=tmp, capture_output=True)
        r = subprocess.run(["git", "apply", "--whitespace=nowarn", p], cwd=tmp, capture_output=True, text=True)
        if r.returncode != 0:
            return p, "PATCH-ERROR", [r.stderr.strip()[-200:]]
        try:
            res = check.analyse("C15", tmp)
        except AnalysisError as e:
            return p, "ANALYSIS-ERROR", [str(e)[:400]]
        bad = [f"{o.rule} {o.construct[-100:]} :: {o.detail[:300]}" for o in res.violations]
        return p, ("VIOLATION" if bad else "silent"), bad
    finally:
        shutil.rmtree(tmp, ignore_errors=True)


if __name__ == "__main__":
    args = sys.argv[1:] or [str(HERE / "refactorings" / "*.diff")]
    ps = [os.path.abspath(x) for a in args for x in sorted(glob.glob(a))]
    with mp.get_context("fork").Pool(min(16, max(1, len(ps)))) as pool:
        rs = pool.map(one, ps)
    quiet = 0
    for p, st, lines in rs:
        if st != "silent":
            print(f"{Path(p).stem}: {st}")
            for l in lines[:4]:
                print("     ", l)
        quiet += st == "silent"
    print(f"{quiet}/{len(rs)} refactorings leave C15 silent")
    sys.exit(0 if quiet == len(rs) else 1)
