"""Positive fixture for C15.R5 (never imported by anything): keep / drop decisions that depend on what earlier iterations kept.

`bad_*`: order dependent selections; `ok_*`: their order independent counterparts."""

from __future__ import annotations

from pathlib import Path


def bad_first_physical_location_wins(root: Path) -> list[Path]:
    pending = [root]
    seen: set[Path] = set()
    found = []
    while pending:
        path = pending.pop()
        location = path.resolve()
        if location in seen:
            continue
        seen.add(location)
        if path.is_dir():
            pending.extend(path.iterdir())
        else:
            found.append(path)
    return found


def bad_case_insensitive_first_wins(names: set[str]) -> list[str]:
    seen = set()
    kept = []
    for name in names:
        if name.lower() not in seen:
            seen.add(name.lower())
            kept.append(name)
    return kept


def bad_parents_retained_so_far(modules: list[str]) -> list[str]:
    retained: list[str] = []
    for module in modules:
        has_parent = any(module.startswith(f"{kept}.") for kept in retained)
        if not has_parent:
            retained.append(module)
    return retained


def _has_parent_among(module: str, candidates: list[str]) -> bool:
    return any(module.startswith(f"{candidate}.") for candidate in candidates)


def bad_parents_retained_so_far_through_helper(modules: list[str]) -> list[str]:
    retained: list[str] = []
    for module in modules:
        if _has_parent_among(module, retained):
            continue
        retained.append(module)
    return retained


def bad_first_three(entries: set[str]) -> list[str]:
    chosen: list[str] = []
    for entry in entries:
        if len(chosen) < 3:
            chosen.append(entry)
    return chosen


def bad_listing_prefix_filter(root: Path) -> list[str]:
    kept: list[str] = []
    for entry in root.iterdir():
        if not entry.name.startswith(tuple(kept)):
            kept.append(entry.name)
    return kept


def ok_deduplicate(names: list[str]) -> list[str]:
    seen = set()
    kept = []
    for name in names:
        if name in seen:
            continue
        seen.add(name)
        kept.append(name)
    return kept


def ok_traversal(root: Path) -> list[Path]:
    pending = [root]
    visited: set[Path] = set()
    found = []
    while pending:
        path = pending.pop()
        if path in visited:
            continue
        visited.add(path)
        if path.is_dir():
            pending.extend(path.iterdir())
        else:
            found.append(path)
    return found


def ok_only_the_key_is_kept(names: set[str]) -> list[str]:
    seen = set()
    kept = []
    for name in names:
        lowered = name.lower()
        if lowered not in seen:
            seen.add(lowered)
            kept.append(lowered)
    return kept


def ok_against_all_names(modules: list[str]) -> list[str]:
    all_names = sorted(modules)
    retained: list[str] = []
    for module in modules:
        has_parent = any(module.startswith(f"{name}.") for name in all_names)
        if not has_parent:
            retained.append(module)
    return retained


def ok_sorted_first(modules: list[str]) -> list[str]:
    retained: list[str] = []
    for module in sorted(modules):
        if not any(module.startswith(f"{kept}.") for kept in retained):
            retained.append(module)
    return retained


def ok_sorted_in_place(modules: set[str]) -> list[str]:
    ordered = list(modules)
    ordered.sort()
    retained: list[str] = []
    for module in ordered:
        if not module.startswith(tuple(retained)):
            retained.append(module)
    return retained


def ok_grouping(modules: list[str]) -> dict[str, list[str]]:
    groups: dict[str, list[str]] = {}
    for module in modules:
        top = module.split(".")[0]
        if top not in groups:
            groups[top] = []
        groups[top].append(module)
    return groups


def ok_closure(imported: set[str], known: list[str]) -> set[str]:
    extended = set(known)
    for name in imported:
        if name not in extended:
            extended.update(name.split("."))
    return extended


def bad_flag_loop_over_retained(modules: list[str]) -> list[str]:
    retained: list[str] = []
    for module in modules:
        parent_found = False
        for kept in retained:
            if module.startswith(f"{kept}."):
                parent_found = True
        if not parent_found:
            retained.append(module)
    return retained


def ok_flag_loop_over_all(modules: list[str]) -> list[str]:
    names = sorted(modules)
    retained: list[str] = []
    for module in modules:
        parent_found = False
        for name in names:
            if module.startswith(f"{name}."):
                parent_found = True
        if not parent_found:
            retained.append(module)
    return retained


def ok_grouping_with_lookup(modules: set[str]) -> dict[str, set[str]]:
    groups: dict[str, set[str]] = {}
    for module in modules:
        top = module.split(".")[0]
        known = groups.get(top)
        if known is None:
            known = groups[top] = set()
        known.add(module)
    return groups


class Walker:
    """A helper that looks a derived name up in a set, records it and reports whether it was new ("test and set")."""

    def __init__(self, root: Path) -> None:
        self._root = root
        self._names: list[str] = []
        self._known: set[str] = set()

    def _name_of(self, path: Path) -> str:
        relative = path.relative_to(self._root)
        if str(relative) == ".":
            return self._root.name
        return ".".join(relative.with_suffix("").parts)

    def _register(self, name: str) -> bool:
        if name in self._known:
            return False
        self._known.add(name)
        self._names.append(name)
        return True

    def bad_test_and_set_helper_decides(self) -> list[Path]:
        # `pkg/foo.py` and `pkg/foo/` have the same name: whichever the listing yields first is parsed, the other one dropped
        pending = [self._root]
        parsed = []
        while pending:
            path = pending.pop()
            if path.is_dir():
                if not self._register(self._name_of(path)):
                    continue
                pending.extend(path.iterdir())
            else:
                name = self._name_of(path)
                if self._register(name):
                    parsed.append(path)
        return parsed

    def ok_test_and_set_helper_only_lists_names(self) -> list[Path]:
        # every name is listed once, but nothing else depends on whether it was new
        pending = [self._root]
        parsed = []
        while pending:
            path = pending.pop()
            if path.is_dir():
                self._register(self._name_of(path))
                pending.extend(path.iterdir())
            else:
                self._register(self._name_of(path))
                parsed.append(path)
        return parsed
