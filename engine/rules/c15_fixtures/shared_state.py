"""Positive fixture for C15.R4 (never imported by anything): state that survives a call and is shared between calls / instances."""

from __future__ import annotations

import functools
import re

_SEEN: dict[str, int] = {}
_LOG: list[str] = []


def remember(key: str, value: int) -> int:
    _SEEN[key] = value
    return value


def remember_through_alias(key: str) -> None:
    log = _LOG
    log.append(key)


class Cache:
    _entries: dict[str, int] = {}
    _names: list[str] = []

    def __init__(self) -> None:
        self._own: dict[str, int] = {}

    def lookup(self, key: str) -> int:
        if key not in self._entries:
            self._entries[key] = len(key)
        self._own[key] = 1
        return self._entries[key]

    def lookup_through_alias(self, key: str) -> int:
        known = self._entries
        known.setdefault(key, len(key))
        return known[key]

    @classmethod
    def via_cls(cls, name: str) -> None:
        cls._names.append(name)

    def own_only(self, key: str) -> None:
        self._own[key] = 2


def make_counter():
    seen: dict[str, int] = {}

    def count(key: str) -> int:
        seen[key] = seen.get(key, 0) + 1
        return seen[key]

    return count


def local_only(keys: list[str]) -> dict[str, int]:
    seen: dict[str, int] = {}

    def note(key: str) -> None:
        seen[key] = 1

    for k in keys:
        note(k)
    return seen


@functools.lru_cache(maxsize=None)
def pure_text(pattern: str) -> str:
    return re.escape(pattern) + "$"


@functools.lru_cache(maxsize=None)
def shared_result(pattern: str) -> list[str]:
    return pattern.split(".")


@functools.lru_cache(maxsize=None)
def state_dependent(key: str) -> int:
    return _SEEN.get(key, 0)


@functools.cache
def of_mutable_argument(graph: Cache) -> int:
    return len(graph._own)


_START = "@startuml"
_FLAGS = re.MULTILINE
_TABLE = {"a": 1}


class Patterns:
    _GROUP = "m1"
    _GROUPS = ("d1", "d2")
    _known: list[str] = []

    @classmethod
    @functools.cache
    def body_pattern(cls) -> re.Pattern[str]:
        text = f"{_START}(?P<{cls._GROUP}>.+)" + cls._named(cls._GROUPS[0])
        return re.compile(text, _FLAGS | re.DOTALL)

    @classmethod
    def _named(cls, name: str) -> str:
        return f"(?P<{name}>.+)"

    @staticmethod
    @functools.lru_cache(maxsize=None)
    def escaped(part: str) -> str:
        return re.escape(part) + _START

    @classmethod
    @functools.cache
    def matches_of(cls, diagram: str) -> list[str]:
        return cls.body_pattern().findall(diagram)

    @classmethod
    @functools.cache
    def reads_mutable_class_state(cls) -> tuple[str, ...]:
        return tuple(cls._known)

    @classmethod
    @functools.cache
    def reads_mutable_module_state(cls, key: str) -> int:
        return _TABLE[key]

    @functools.cache
    def of_instance(self) -> str:
        return self._GROUP

    @functools.cached_property
    def lazily(self) -> str:
        return self._GROUP


class Index:
    """Memoisation per instance: cannot be observed when the value is computed from the arguments and from state that is fixed
    once the constructor has finished - and only then."""

    _known: list[str] = []

    def __init__(self, prefix: str, names: tuple[str, ...]) -> None:
        self._prefix = prefix
        self._names = names
        self._label = ""
        self._first = self.during_construction("x")

    def rename(self, label: str) -> None:
        self._label = label

    @functools.lru_cache(maxsize=None)
    def of_fixed_state(self, name: str) -> str:
        return self._prefix + name

    @functools.cached_property
    def fixed_lazily(self) -> tuple[str, ...]:
        return tuple(sorted(self._names))

    @functools.lru_cache(maxsize=None)
    def of_later_state(self, name: str) -> str:
        return self._label + name

    @functools.cached_property
    def list_lazily(self) -> list[str]:
        return sorted(self._names)

    @functools.lru_cache(maxsize=None)
    def during_construction(self, name: str) -> str:
        return self._prefix + name

    @functools.cache
    def of_mutable_class_state(self) -> tuple[str, ...]:
        return tuple(self._known)
