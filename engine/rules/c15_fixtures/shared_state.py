"""Positive fixture for C15.R4 (never imported by anything): state that survives a call and is shared between calls / instances."""

from __future__ import annotations

import functools
import re

_SEEN: dict[str, int] = {}
_LOG: list[str] = []


def remember(key: str, value: int) -> int:
    _SEEN[key] = value
    return value


def remember_through_alias(key: str) -> None:
    log = _LOG
    log.append(key)


class Cache:
    _entries: dict[str, int] = {}
    _names: list[str] = []

    def __init__(self) -> None:
        self._own: dict[str, int] = {}

    def lookup(self, key: str) -> int:
        if key not in self._entries:
            self._entries[key] = len(key)
        self._own[key] = 1
        return self._entries[key]

    def lookup_through_alias(self, key: str) -> int:
        known = self._entries
        known.setdefault(key, len(key))
        return known[key]

    @classmethod
    def via_cls(cls, name: str) -> None:
        cls._names.append(name)

    def own_only(self, key: str) -> None:
        self._own[key] = 2


def make_counter():
    seen: dict[str, int] = {}

    def count(key: str) -> int:
        seen[key] = seen.get(key, 0) + 1
        return seen[key]

    return count


def local_only(keys: list[str]) -> dict[str, int]:
    seen: dict[str, int] = {}

    def note(key: str) -> None:
        seen[key] = 1

    for k in keys:
        note(k)
    return seen


@functools.lru_cache(maxsize=None)
def pure_text(pattern: str) -> str:
    return re.escape(pattern) + "$"


@functools.lru_cache(maxsize=None)
def shared_result(pattern: str) -> list[str]:
    return pattern.split(".")


@functools.lru_cache(maxsize=None)
def state_dependent(key: str) -> int:
    return _SEEN.get(key, 0)


@functools.cache
def of_mutable_argument(graph: Cache) -> int:
    return len(graph._own)
