"""Positive fixture for C15.R3 (never imported by anything): set order reaching text, order-dependent loop bodies."""

from __future__ import annotations


def joined_directly(names: set[str]) -> str:
    return ", ".join(names)


def joined_after_copy(names: set[str]) -> str:
    ordered = list(names)
    return ", ".join(ordered)


def joined_from_loop(names: set[str]) -> str:
    lines = []
    for name in names:
        lines.append(f"{name}!")
    return "\n".join(lines)


def _collect(names: set[str]) -> list[str]:
    return [n.upper() for n in names]


def joined_through_helper(names: set[str]) -> str:
    return ", ".join(_collect(names))


def joined_sorted(names: set[str]) -> str:
    lines = []
    for name in names:
        lines.append(f"{name}!")
    lines.sort()
    return "\n".join(sorted(names)) + "\n".join(lines)


def grow_and_shrink(items: set[str], related: dict[str, set[str]]) -> set[str]:
    excluded: set[str] = set()
    for item in items:
        excluded.update(related[item])
        excluded.discard(item)
    return excluded


def _take_out(excluded: set[str], item: str) -> None:
    excluded.discard(item)


def grow_and_shrink_through_helper(items: set[str], related: dict[str, set[str]]) -> set[str]:
    excluded: set[str] = set()
    for item in items:
        excluded |= related[item]
        _take_out(excluded, item)
    return excluded


def two_passes(items: set[str], related: dict[str, set[str]]) -> set[str]:
    excluded: set[str] = set()
    for item in items:
        excluded.update(related[item])
    for item in items:
        excluded.discard(item)
    return excluded


def ordered_pass(items: set[str], related: dict[str, set[str]]) -> set[str]:
    excluded: set[str] = set()
    for item in sorted(items):
        excluded.update(related[item])
        excluded.discard(item)
    return excluded


def joined_after_inplace_sort(names: set[str]) -> str:
    lines = list({n.strip() for n in names})
    lines.sort()
    return "\n".join(lines)


def joined_after_copy_of_iterable(names) -> str:
    return ", ".join(tuple(_as_set(names)))


def _as_set(names) -> set[str]:
    return set(names)
