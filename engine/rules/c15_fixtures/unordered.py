"""Positive fixture for C15.R3 (never imported by anything): set order reaching text, order-dependent loop bodies."""

from __future__ import annotations


def joined_directly(names: set[str]) -> str:
    return ", ".join(names)


def joined_after_copy(names: set[str]) -> str:
    ordered = list(names)
    return ", ".join(ordered)


def joined_from_loop(names: set[str]) -> str:
    lines = []
    for name in names:
        lines.append(f"{name}!")
    return "\n".join(lines)


def _collect(names: set[str]) -> list[str]:
    return [n.upper() for n in names]


def joined_through_helper(names: set[str]) -> str:
    return ", ".join(_collect(names))


def joined_sorted(names: set[str]) -> str:
    lines = []
    for name in names:
        lines.append(f"{name}!")
    lines.sort()
    return "\n".join(sorted(names)) + "\n".join(lines)


def grow_and_shrink(items: set[str], related: dict[str, set[str]]) -> set[str]:
    excluded: set[str] = set()
    for item in items:
        excluded.update(related[item])
        excluded.discard(item)
    return excluded


def _take_out(excluded: set[str], item: str) -> None:
    excluded.discard(item)


def grow_and_shrink_through_helper(items: set[str], related: dict[str, set[str]]) -> set[str]:
    excluded: set[str] = set()
    for item in items:
        excluded |= related[item]
        _take_out(excluded, item)
    return excluded


def two_passes(items: set[str], related: dict[str, set[str]]) -> set[str]:
    excluded: set[str] = set()
    for item in items:
        excluded.update(related[item])
    for item in items:
        excluded.discard(item)
    return excluded


def ordered_pass(items: set[str], related: dict[str, set[str]]) -> set[str]:
    excluded: set[str] = set()
    for item in sorted(items):
        excluded.update(related[item])
        excluded.discard(item)
    return excluded


def joined_after_inplace_sort(names: set[str]) -> str:
    lines = list({n.strip() for n in names})
    lines.sort()
    return "\n".join(lines)


def joined_after_copy_of_iterable(names) -> str:
    return ", ".join(tuple(_as_set(names)))


def _as_set(names) -> set[str]:
    return set(names)


def _parts_sorted(groups: dict[str, set[str]], subjects: set[str]) -> list[tuple[str, str, list[str]]]:
    parts = []
    for subject in subjects:
        objects = sorted(o.strip() for o in groups[subject])
        parts.append((subject.strip(), "imports", objects))
    return parts


def joined_sorted_inside_tuple(groups: dict[str, set[str]], subjects: set[str]) -> set[str]:
    lines = set()
    for subject, verb, objects in _parts_sorted(groups, subjects):
        lines.add(f"{subject} {verb} " + ", ".join(objects))
    return lines


def _parts_unsorted(groups: dict[str, set[str]], subjects: set[str]) -> list[tuple[str, str, list[str]]]:
    parts = []
    for subject in subjects:
        objects = [o.strip() for o in groups[subject]]
        parts.append((subject.strip(), "imports", objects))
    return parts


def joined_unsorted_inside_tuple(groups: dict[str, set[str]], subjects: set[str]) -> set[str]:
    lines = set()
    for subject, verb, objects in _parts_unsorted(groups, subjects):
        lines.add(f"{subject} {verb} " + ", ".join(objects))
    return lines


def _iter_parts_sorted(groups: dict[str, set[str]], subjects: set[str]):
    for subject in subjects:
        yield subject.strip(), sorted(groups[subject])


def joined_sorted_inside_yielded_tuple(groups: dict[str, set[str]], subjects: set[str]) -> set[str]:
    return {subject + ": " + ", ".join(objects) for subject, objects in _iter_parts_sorted(groups, subjects)}


def _iter_parts_unsorted(groups: dict[str, set[str]], subjects: set[str]):
    for subject in sorted(subjects):
        yield subject.strip(), list(groups[subject])


def joined_unsorted_inside_yielded_tuple(groups: dict[str, set[str]], subjects: set[str]) -> list[str]:
    lines = []
    for part in _iter_parts_unsorted(groups, subjects):
        lines.append(part[0] + ": " + ", ".join(part[1]))
    return lines


def _iter_names(names: set[str]):
    for name in names:
        yield name.upper()


def joined_from_generator_over_set(names: set[str]) -> str:
    return ", ".join(_iter_names(names))


def joined_loop_variable_reuses_name(groups: dict[str, set[str]], first: set[str]) -> list[str]:
    # the name `group` first holds a copy of a set (unordered); as a loop variable it is rebound to sorted lists
    group = list(first)
    size = len(group)
    lines = [str(size)]
    for group in [sorted(g) for g in groups.values()]:
        lines.append(", ".join(group))
    return lines
