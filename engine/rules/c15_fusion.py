"""Loop fusion for C15.R1: a view of a function in which *producer / consumer protocols over iterators* are spelled as plain loops.

The order of graph-building events is a property of the trace, not of the spelling.  A constructor may describe its work as a
stream of requests (generator functions yielding records, chained with itertools.chain) and apply them one at a time; the trace of
events is the same as that of the nested loops the generators stand for.  This module rewrites (a copy of) an inlined view:

    for x in chain(A, B): body              ->  for x in A: body ; for x in B: body
         (itertools.chain, chain.from_iterable(<display>), [*A, *B], (*A, *B), list(A) + list(B))
    for s in (A, B): body                   ->  body[s := A] ; body[s := B]                      (short displays of iterables)
    for x in gen(args): body                ->  <body of gen, every `yield e` replaced by `x = e ; body`,
                                                 every `yield from E` by `for x in E: body` (fused again)>
    for x in (e for a in A if c): body      ->  for a in A: if c: x = e ; body
    for x in list(A) / tuple(A) / iter(A)   ->  for x in A
    xs = <one of the above>; for x in xs    ->  as if written in place (a local bound once and used by that loop only)
    for x in map(F, A): body                ->  for e in A: x = F(e) ; body
    deque(map(F, A), maxlen=0) / list(map(F, A)) / [F(a) for a in A]  as a statement  ->  for a in A: F(a)
    x = C(...); if isinstance(x, D): P else: Q   ->  P or Q, when C is a repo class (records dispatched by their class; also
                                                 `match x: case D(...)`)

Every step preserves the sequence of executed statements (the consumer body runs once per produced element, in production
order), so dominance and "once per element of" questions asked of the fused view have the answers they have for the program.
Anything outside these shapes is left as it is.  Nothing is executed.
"""

from __future__ import annotations

import ast

from core.inline_stmt import Inliner, _recopy, _Rename, _names_in
from core.loader import FuncInfo, Repo, own_nodes, set_parents

MAX_FUSION_DEPTH = 5
_LIST_WRAPPERS = {"list", "tuple", "iter"}


def _own_loop_exits(body: list[ast.stmt]) -> tuple[bool, bool]:
    """(has break, has continue) that belong to the loop whose body this is."""
    brk = cont = False
    stack = list(body)
    while stack:
        n = stack.pop()
        if isinstance(n, ast.Break):
            brk = True
        elif isinstance(n, ast.Continue):
            cont = True
        elif isinstance(n, (ast.For, ast.AsyncFor, ast.While)):
            stack.extend(n.orelse)  # the else branch of an inner loop still belongs to the outer one
        elif isinstance(n, (ast.FunctionDef, ast.AsyncFunctionDef, ast.ClassDef, ast.Lambda)):
            continue
        else:
            stack.extend(ast.iter_child_nodes(n))
    return brk, cont


def _stores(stmts: list[ast.stmt], name: str) -> bool:
    return any(isinstance(n, ast.Name) and n.id == name and isinstance(n.ctx, (ast.Store, ast.Del)) for s in stmts for n in ast.walk(s))


class Fuser:
    def __init__(self, repo: Repo, T, view: FuncInfo) -> None:
        self.repo = repo
        self.T = T
        self.view = view
        self.inl = Inliner(repo, T)
        self.origin: dict = {}
        self.taken: set[str] = set()
        self.fused: list[str] = []  # what was rewritten (diagnostics)

    # ------------------------------------------------------------------ names
    def _lib(self, ctx: FuncInfo, e: ast.AST) -> str:
        src = getattr(e, "_src", None)
        mod = src[0].module if src is not None else ctx.module
        if isinstance(e, (ast.Name, ast.Attribute)):
            try:
                return self.repo.resolve_name(mod, e) or ""
            except Exception:  # noqa: BLE001
                return ""
        return ""

    def _is_builtin(self, ctx: FuncInfo, call: ast.Call, names: set[str]) -> bool:
        return isinstance(call.func, ast.Name) and call.func.id in names and not self._lib(ctx, call.func)

    # ------------------------------------------------------------------ segments of an iterable
    def _segments(self, ctx: FuncInfo, it: ast.expr) -> list[ast.expr] | None:
        """The iterables whose elements `it` produces one after the other, or None when `it` is not a concatenation."""
        if isinstance(it, ast.Call):
            lib = self._lib(ctx, it.func)
            if lib == "itertools.chain" and it.args and not it.keywords:
                if all(not isinstance(a, ast.Starred) for a in it.args):
                    return list(it.args)
                if len(it.args) == 1 and isinstance(it.args[0].value, (ast.List, ast.Tuple)) and all(not isinstance(x, ast.Starred) for x in it.args[0].value.elts):
                    return list(it.args[0].value.elts)
            if lib == "itertools.chain.from_iterable" and len(it.args) == 1 and isinstance(it.args[0], (ast.List, ast.Tuple)) and it.args[0].elts and all(not isinstance(x, ast.Starred) for x in it.args[0].elts):
                return list(it.args[0].elts)
        if isinstance(it, (ast.List, ast.Tuple)) and it.elts and all(isinstance(x, ast.Starred) for x in it.elts):
            return [x.value for x in it.elts]
        if isinstance(it, ast.BinOp) and isinstance(it.op, ast.Add):
            left = self._segments(ctx, it.left) or [it.left]
            right = self._segments(ctx, it.right) or [it.right]
            return left + right
        return None

    def _strip(self, ctx: FuncInfo, it: ast.expr) -> ast.expr:
        while isinstance(it, ast.Call) and self._is_builtin(ctx, it, _LIST_WRAPPERS) and len(it.args) == 1 and not it.keywords and not isinstance(it.args[0], ast.Starred):
            it = it.args[0]
        return it

    # ------------------------------------------------------------------ generators
    def _generator(self, ctx: FuncInfo, call: ast.Call, stack: tuple[str, ...]) -> FuncInfo | None:
        g = self.inl._resolve(ctx, call)
        if g is None or g.fq in stack or isinstance(g.node, ast.Lambda) or g.is_abstract or g.is_property:
            return None
        a = g.node.args
        if a.vararg or a.kwarg or isinstance(g.node, ast.AsyncFunctionDef):
            return None
        yields = 0
        for n in own_nodes(g.node):
            if isinstance(n, (ast.Yield, ast.YieldFrom)):
                yields += 1
                p = getattr(n, "_parent", None)
                if not isinstance(p, ast.Expr):
                    return None  # the generator reads what is sent to it: a coroutine protocol, not a producer
            elif isinstance(n, (ast.Return, ast.Await, ast.Global, ast.Nonlocal, ast.FunctionDef, ast.AsyncFunctionDef, ast.ClassDef)):
                return None  # an early `return` ends the stream: not expressible by substitution
        return g if yields else None

    # ------------------------------------------------------------------ isinstance folding
    def _class_of(self, ctx: FuncInfo, e: ast.expr):
        if not isinstance(e, ast.Call):
            return None
        src = getattr(e, "_src", None)
        try:
            return self.T.ctor_class(src[0], src[1]) if src is not None and isinstance(src[1], ast.Call) else self.T.ctor_class(ctx, e)
        except Exception:  # noqa: BLE001
            return None

    def _classes_named(self, ctx: FuncInfo, e: ast.expr):
        """Repo classes an isinstance() second argument names; None when one of them is not a repo class."""
        parts = e.elts if isinstance(e, ast.Tuple) else [e]
        out = []
        for p in parts:
            ci = self.repo.classes.get(self._lib(ctx, p))
            if ci is None:
                return None
            out.append(ci)
        return out

    def _fold(self, ctx: FuncInfo, stmts: list[ast.stmt], name: str, ci) -> list[ast.stmt]:
        """`name` holds a fresh instance of repo class `ci` throughout `stmts`: decide class tests on it."""
        mro = {c.fq for c in self.repo.mro(ci)}

        def decide(test: ast.expr) -> bool | None:
            if isinstance(test, ast.UnaryOp) and isinstance(test.op, ast.Not):
                d = decide(test.operand)
                return None if d is None else not d
            if isinstance(test, ast.Call) and isinstance(test.func, ast.Name) and test.func.id == "isinstance" and len(test.args) == 2 and isinstance(test.args[0], ast.Name) and test.args[0].id == name:
                cs = self._classes_named(ctx, test.args[1])
                if cs is not None:
                    return any(c.fq in mro for c in cs)
            if isinstance(test, ast.Compare) and len(test.ops) == 1 and isinstance(test.ops[0], (ast.Is, ast.IsNot, ast.Eq, ast.NotEq)):
                l, r = test.left, test.comparators[0]
                if isinstance(l, ast.Call) and isinstance(l.func, ast.Name) and l.func.id == "type" and len(l.args) == 1 and isinstance(l.args[0], ast.Name) and l.args[0].id == name:
                    cs = self._classes_named(ctx, r)
                    if cs is not None and len(cs) == 1:
                        same = cs[0].fq == ci.fq
                        return same if isinstance(test.ops[0], (ast.Is, ast.Eq)) else not same
            return None

        def block(ss: list[ast.stmt]) -> list[ast.stmt]:
            out: list[ast.stmt] = []
            for s in ss:
                if isinstance(s, ast.If):
                    d = decide(s.test)
                    if d is not None:
                        out += block(s.body if d else s.orelse)
                        continue
                if isinstance(s, ast.Match) and isinstance(s.subject, ast.Name) and s.subject.id == name:
                    chosen = None
                    for case in s.cases:
                        pat = case.pattern
                        if isinstance(pat, ast.MatchAs) and pat.pattern is None and case.guard is None:
                            chosen = case
                            break
                        if isinstance(pat, ast.MatchClass) and case.guard is None:
                            cs = self._classes_named(ctx, pat.cls)
                            if cs is None:
                                break
                            if cs[0].fq in mro:
                                chosen = case
                                break
                            continue
                        break
                    if chosen is not None:
                        out += block(chosen.body)
                        continue
                for fld in ("body", "orelse", "finalbody"):
                    blk = getattr(s, fld, None)
                    if isinstance(blk, list) and blk and isinstance(blk[0], ast.stmt):
                        setattr(s, fld, block(blk) or [ast.copy_location(ast.Pass(), s)] if fld == "body" else block(blk))
                if isinstance(s, ast.Try):
                    for h in s.handlers:
                        h.body = block(h.body) or [ast.copy_location(ast.Pass(), s)]
                out.append(s)
            return out

        return block(stmts)

    # ------------------------------------------------------------------ one produced element
    def _emit(self, ctx: FuncInfo, target: ast.expr, value: ast.expr, body: list[ast.stmt], at: ast.AST) -> list[ast.stmt]:
        """`target = value ; body` - the consumer's body for one produced element."""
        tgt = _recopy(target)
        for n in ast.walk(tgt):
            if isinstance(n, (ast.Name, ast.Tuple, ast.List, ast.Starred, ast.Attribute, ast.Subscript)) and hasattr(n, "ctx") and not isinstance(n.ctx, ast.Load):
                n.ctx = ast.Store()
        st = ast.copy_location(ast.Assign(targets=[tgt], value=value), at)
        if hasattr(at, "_src"):
            st._src = at._src  # type: ignore[attr-defined]
        copy = [_recopy(s) for s in body]
        _brk, cont = _own_loop_exits(copy)
        if isinstance(target, ast.Name) and not _stores(copy, target.id):
            ci = self._class_of(ctx, value)
            if ci is not None:
                copy = self._fold(ctx, copy, target.id, ci)
        if cont:
            # `continue` means "next element": keep that meaning by running the body as the single pass of a loop of its own
            once = ast.For(target=ast.Name(id="_", ctx=ast.Store()), iter=ast.Tuple(elts=[ast.Constant(value=None)], ctx=ast.Load()), body=copy or [ast.Pass()], orelse=[])
            copy = [ast.copy_location(once, at)]
        return [st, *copy]

    # ------------------------------------------------------------------ loops
    def _for(self, ctx: FuncInfo, loop: ast.For, target: ast.expr, it: ast.expr, body: list[ast.stmt], stack: tuple[str, ...], depth: int, env: dict[str, ast.expr]) -> list[ast.stmt]:
        """Statements equivalent to `for target in it: body` (body already fused)."""
        brk, _cont = _own_loop_exits(body)
        it = self._strip(ctx, it)
        if isinstance(it, ast.Name) and it.id in env:
            it = self._strip(ctx, _recopy(env[it.id]))
        if depth < MAX_FUSION_DEPTH and not brk:
            segs = self._segments(ctx, it)
            if segs is not None:
                self.fused.append(f"concatenation of {len(segs)} iterables")
                out: list[ast.stmt] = []
                for seg in segs:
                    out += self._for(ctx, loop, target, seg, body, stack, depth + 1, env)
                return out
            if isinstance(it, ast.Call):
                g = self._generator(ctx, it, stack)
                if g is not None:
                    got = self.inl._expand(ctx, it, g, self.taken, self.origin, stack)
                    if got is not None:
                        prefix, gbody = got
                        self.fused.append(f"generator {g.qualname}")
                        return [*prefix, *self._yields(g, gbody, target, body, stack + (g.fq,), depth + 1)]
            if isinstance(it, ast.Call) and self._is_builtin(ctx, it, {"map"}) and len(it.args) == 2 and not it.keywords and not any(isinstance(a, ast.Starred) for a in it.args):
                # for x in map(F, X): body  ->  for e in X: x = F(e) ; body
                name = Inliner._fresh("element", "map", self.taken)
                self.taken.add(name)
                applied = ast.copy_location(ast.Call(func=_recopy(it.args[0]), args=[ast.Name(id=name, ctx=ast.Load())], keywords=[]), it)
                ast.fix_missing_locations(applied)
                if hasattr(it, "_src"):
                    applied._src = it._src  # type: ignore[attr-defined]
                inner = self._emit(ctx, target, applied, body, loop)
                self.fused.append("map")
                return self._for(ctx, loop, ast.Name(id=name, ctx=ast.Store()), it.args[1], inner, stack, depth + 1, env)
            if isinstance(it, (ast.GeneratorExp, ast.ListComp)) and all(not g.is_async for g in it.generators):
                comp = _recopy(it)
                names = {n.id for g in comp.generators for n in ast.walk(g.target) if isinstance(n, ast.Name)}
                ren: dict[str, str] = {}
                for n in sorted(names):
                    if n in self.taken:
                        ren[n] = Inliner._fresh(n, "comp", self.taken)
                        self.taken.add(ren[n])
                    else:
                        self.taken.add(n)
                if ren:
                    comp = _Rename(ren, {}).visit(comp)
                inner: list[ast.stmt] = self._emit(ctx, target, comp.elt, body, loop)
                for g in reversed(comp.generators):
                    for cond in reversed(g.ifs):
                        inner = [ast.copy_location(ast.If(test=cond, body=inner, orelse=[]), loop)]
                    inner = self._for(ctx, loop, g.target, g.iter, inner, stack, depth + 1, env)
                self.fused.append("comprehension")
                return inner
        new = ast.copy_location(ast.For(target=_recopy(target), iter=_recopy(it), body=[_recopy(s) for s in body] or [ast.Pass()], orelse=[], type_comment=None), loop)
        if hasattr(loop, "_src"):
            new._src = loop._src  # type: ignore[attr-defined]
        return [new]

    def _yields(self, g: FuncInfo, gbody: list[ast.stmt], target: ast.expr, body: list[ast.stmt], stack: tuple[str, ...], depth: int) -> list[ast.stmt]:
        """The generator's body with the consumer's body in place of every yield."""
        out: list[ast.stmt] = []
        for s in gbody:
            if isinstance(s, ast.Expr) and isinstance(s.value, ast.Yield):
                val = s.value.value if s.value.value is not None else ast.Constant(value=None)
                out += self._emit(g, target, val, body, s)
                continue
            if isinstance(s, ast.Expr) and isinstance(s.value, ast.YieldFrom):
                pseudo = ast.copy_location(ast.For(target=target, iter=s.value.value, body=body, orelse=[]), s)
                out += self._for(g, pseudo, target, s.value.value, body, stack, depth, {})
                continue
            if isinstance(s, (ast.For, ast.AsyncFor, ast.While, ast.If, ast.With, ast.AsyncWith, ast.Try)):
                for fld in ("body", "orelse", "finalbody"):
                    blk = getattr(s, fld, None)
                    if isinstance(blk, list) and blk and isinstance(blk[0], ast.stmt):
                        new = self._yields(g, blk, target, body, stack, depth)
                        setattr(s, fld, new or ([ast.copy_location(ast.Pass(), s)] if fld == "body" else []))
                if isinstance(s, ast.Try):
                    for h in s.handlers:
                        h.body = self._yields(g, h.body, target, body, stack, depth) or [ast.copy_location(ast.Pass(), s)]
            elif isinstance(s, ast.Match):
                for c in s.cases:
                    c.body = self._yields(g, c.body, target, body, stack, depth) or [ast.copy_location(ast.Pass(), s)]
            out.append(s)
        return out

    # ------------------------------------------------------------------ blocks
    def _single_use_iterables(self, stmts: list[ast.stmt]) -> dict[str, ast.expr]:
        """Locals bound exactly once, by a plain assignment, to an expression this module understands (a call, a comprehension,
        a concatenation, a display): a loop over such a local is treated as if the expression stood in it.  The assignment stays
        where it is."""
        stores: dict[str, int] = {}
        vals: dict[str, ast.expr] = {}
        for s in stmts:
            for n in ast.walk(s):
                if isinstance(n, ast.Name) and isinstance(n.ctx, (ast.Store, ast.Del)):
                    stores[n.id] = stores.get(n.id, 0) + 1
                if isinstance(n, ast.Assign) and len(n.targets) == 1 and isinstance(n.targets[0], ast.Name):
                    vals[n.targets[0].id] = n.value
        out = {}
        for k, v in vals.items():
            if stores.get(k) == 1 and k not in self.view.param_names and isinstance(v, (ast.Call, ast.GeneratorExp, ast.ListComp, ast.BinOp, ast.List, ast.Tuple)):
                out[k] = v
        return out

    def _fusable(self, ctx: FuncInfo, it: ast.expr, stack: tuple[str, ...], env: dict[str, ast.expr]) -> bool:
        it = self._strip(ctx, it)
        if isinstance(it, ast.Name) and it.id in env:
            it = self._strip(ctx, env[it.id])
        if self._segments(ctx, it) is not None or isinstance(it, (ast.GeneratorExp, ast.ListComp)):
            return True
        return isinstance(it, ast.Call) and self._generator(ctx, it, stack) is not None

    def _drained(self, ctx: FuncInfo, s: ast.stmt) -> ast.expr | None:
        """The iterator an expression statement merely runs to its end for the effects of producing its elements:
        `deque(map(f, xs), maxlen=0)`, `list(map(f, xs))`, `[f(x) for x in xs]`."""
        if not isinstance(s, ast.Expr):
            return None
        e = s.value
        src = getattr(s, "_src", None)
        c = src[0] if src is not None else ctx
        if isinstance(e, ast.ListComp) or isinstance(e, ast.SetComp):
            return ast.copy_location(ast.GeneratorExp(elt=e.elt, generators=e.generators), e)
        if isinstance(e, ast.Call) and e.args and not isinstance(e.args[0], ast.Starred):
            lib = self._lib(c, e.func)
            # (any / all stop at the first decisive element: they do not drain)
            drains = (isinstance(e.func, ast.Name) and e.func.id in ("list", "tuple", "set", "frozenset", "sum", "sorted", "max", "min") and not lib) or lib == "collections.deque"
            inner = e.args[0]
            if drains and (isinstance(inner, (ast.GeneratorExp, ast.ListComp)) or (isinstance(inner, ast.Call) and self._is_builtin(c, inner, {"map"}))):
                return inner
        return None

    def _bulk_as_loop(self, ctx: FuncInfo, s: ast.stmt, stack: tuple[str, ...], env: dict[str, ast.expr]) -> ast.For | None:
        """`xs.extend(P)` / `xs += P` / `s.update(P)` with a producer P this module can open up: `for e in P: xs.append(e)`."""
        recv = prod = None
        one = "append"
        if isinstance(s, ast.Expr) and isinstance(s.value, ast.Call) and isinstance(s.value.func, ast.Attribute) and s.value.func.attr in ("extend", "update") and len(s.value.args) == 1 and not s.value.keywords:
            recv, prod = s.value.func.value, s.value.args[0]
            one = "append" if s.value.func.attr == "extend" else "add"
        elif isinstance(s, ast.AugAssign) and isinstance(s.op, ast.Add) and isinstance(s.target, (ast.Name, ast.Attribute)):
            recv, prod = s.target, s.value
        if recv is None or isinstance(prod, ast.Starred) or not self._fusable(ctx, prod, stack, env):
            return None
        name = Inliner._fresh("element", "bulk", self.taken)
        self.taken.add(name)
        r = _recopy(recv)
        for n in ast.walk(r):
            if hasattr(n, "ctx"):
                n.ctx = ast.Load()
        call = ast.Call(func=ast.Attribute(value=r, attr=one, ctx=ast.Load()), args=[ast.Name(id=name, ctx=ast.Load())], keywords=[])
        body = ast.copy_location(ast.Expr(value=call), s)
        loop = ast.copy_location(ast.For(target=ast.Name(id=name, ctx=ast.Store()), iter=prod, body=[body], orelse=[]), s)
        ast.fix_missing_locations(loop)
        if hasattr(s, "_src"):
            loop._src = s._src  # type: ignore[attr-defined]
            body._src = s._src  # type: ignore[attr-defined]
        return loop

    def _block(self, ctx: FuncInfo, stmts: list[ast.stmt], stack: tuple[str, ...], env: dict[str, ast.expr]) -> list[ast.stmt]:
        out: list[ast.stmt] = []
        for s in stmts:
            drained = self._drained(ctx, s)
            if drained is not None:
                sink = ast.Name(id="_", ctx=ast.Store())
                loop = ast.copy_location(ast.For(target=sink, iter=drained, body=[ast.copy_location(ast.Pass(), s)], orelse=[]), s)
                ast.fix_missing_locations(loop)
                if hasattr(s, "_src"):
                    loop._src = s._src  # type: ignore[attr-defined]
                self.fused.append("drained iterator")
                s = loop
            src0 = getattr(s, "_src", None)
            bulk = self._bulk_as_loop(src0[0] if src0 is not None else ctx, s, stack, env)
            if bulk is not None:
                self.fused.append("bulk insertion")
                s = bulk
            for fld in ("body", "orelse", "finalbody"):
                blk = getattr(s, fld, None)
                if isinstance(blk, list) and blk and isinstance(blk[0], ast.stmt):
                    setattr(s, fld, self._block(ctx, blk, stack, env) or ([ast.copy_location(ast.Pass(), s)] if fld == "body" else []))
            if isinstance(s, ast.Try):
                for h in s.handlers:
                    h.body = self._block(ctx, h.body, stack, env)
            if isinstance(s, ast.Match):
                for c in s.cases:
                    c.body = self._block(ctx, c.body, stack, env)
            if isinstance(s, ast.For) and not s.orelse:
                src = getattr(s, "_src", None)
                c = src[0] if src is not None else ctx
                it = self._strip(c, s.iter)
                if isinstance(it, ast.Name) and it.id in env:
                    it = self._strip(c, env[it.id])
                brk, _cont = _own_loop_exits(s.body)
                # `for s in (A, B): body` with a short display of iterables: one copy of the body per item
                if isinstance(it, (ast.Tuple, ast.List)) and 1 < len(it.elts) <= 4 and isinstance(s.target, ast.Name) and not brk and not _stores(s.body, s.target.id) and all(isinstance(x, (ast.Call, ast.Attribute, ast.Name)) for x in it.elts) and any(isinstance(n, ast.For) and any(isinstance(y, ast.Name) and y.id == s.target.id for y in ast.walk(n.iter)) for b in s.body for n in ast.walk(b)):
                    self.fused.append(f"display of {len(it.elts)} iterables")
                    for x in it.elts:
                        copy = [_Rename({}, {s.target.id: x}).visit(_recopy(b)) for b in s.body]
                        out += self._block(c, copy, stack, env)
                    continue
                out += self._for(c, s, s.target, s.iter, s.body, stack, 0, env)
                continue
            out.append(s)
        return out

    # ------------------------------------------------------------------ entry
    def run(self) -> FuncInfo:
        v = self.view
        if isinstance(v.node, ast.Lambda):
            return v
        node = _recopy(v.node)
        self.taken = _names_in(node)
        env = self._single_use_iterables(node.body)
        base = getattr(v, "base", v)
        node.body = self._block(v, node.body, (base.fq,), env)
        if not self.fused:
            return v
        ast.fix_missing_locations(node)
        set_parents(node)
        out = FuncInfo(name=v.name, qualname=v.qualname + "~fused", node=node, module=v.module, cls=v.cls, decorators=list(v.decorators), outer=v.outer)
        out.shown = getattr(v, "shown", v.qualname)  # type: ignore[attr-defined]
        out.origin = self.origin  # type: ignore[attr-defined]
        out.inlined = list(getattr(v, "inlined", [])) + self.inl.inlined  # type: ignore[attr-defined]
        out.base = base  # type: ignore[attr-defined]
        out.fused = list(self.fused)  # type: ignore[attr-defined]
        node._func = out  # type: ignore[attr-defined]
        for child in Repo._nested_callables(node):
            src = getattr(child, "_src", None)
            if src is not None and hasattr(src[1], "_func"):
                child._func = src[1]._func  # type: ignore[attr-defined]
        return out


def fused_view(repo: Repo, view: FuncInfo, T) -> FuncInfo:
    """`view` (an inlined view) with iterator protocols spelled as loops; `view` itself when nothing was to be rewritten."""
    key = ("c15_fused_view", id(view.node))
    cache = repo.__dict__.setdefault("_view_cache", {})
    if key not in cache:
        cache[key] = Fuser(repo, T, view).run()
    return cache[key]
