"""Instance memo tables for C15.R4 / C15.R2: `self.M[k] = v` written during an evaluation.

A write to a long-lived object during an evaluation is a violation of purity (C15.R2) - unless nobody can ever tell.  A table that
is filled on demand cannot be told from one that was filled completely at construction time when

  (access)    every use of the table, anywhere, is keyed: `t[k]`, `t.get(k)`, `k in t`, `t[k] = v`, `t.setdefault(k, v)` (nobody
              iterates it, measures it, hands it out), and it starts empty, in the constructor;
  (key)       the key consists of parameters of the storing method, and the stored value is computed from those parameters only
              - data flow and control flow - plus state of the receiver that no evaluation can change (fields assigned during
              construction only; the frozen graph), through calls that are themselves free of effects;
  (timing)    the storing method cannot run before the constructor has finished (else a value computed from a half-built
              object would be served later);
  (aliasing)  the stored value is immutable, or every keyed read copies it (`list(t[k])`, `sorted(t[k])`, iteration).

Then equal keys always get equal values, whenever they are computed: the table is a *memo*, its writes are accepted.  When the
stored value provably depends - by data flow - on a parameter that is not part of the key, the table serves stale answers: that is
reported (C15.R4) with the parameter named.  In every other case the write is left to C15.R2, which reports it as what it is: a
long-lived object changed by an evaluation.
"""

from __future__ import annotations

import ast
from dataclasses import dataclass, field

from core.loader import FuncInfo, Repo, norm, own_nodes, parent
from core.types import members

from .c15_roots import FRESH, Roots

PURE_BUILTINS = {
    "sorted", "tuple", "list", "set", "frozenset", "dict", "len", "str", "int", "bool", "float", "min", "max", "sum", "any", "all", "zip", "enumerate",
    "map", "filter", "reversed", "iter", "next", "isinstance", "issubclass", "repr", "range", "abs", "hash", "type", "getattr", "hasattr", "round",
}
COPIES = {"list", "tuple", "sorted", "set", "frozenset", "dict", "len", "any", "all", "sum", "min", "max", "bool", "str", "reversed", "enumerate", "iter"}
READ_ONLY_METHODS = {
    # dict / list / set / str reads
    "get", "items", "keys", "values", "copy", "index", "count", "union", "intersection", "difference", "issubset", "issuperset", "isdisjoint",
    "split", "rsplit", "join", "replace", "strip", "lstrip", "rstrip", "format", "lower", "upper", "startswith", "endswith", "partition", "rpartition",
    "removeprefix", "removesuffix", "find", "rfind", "splitlines", "title", "isidentifier", "encode",
    # networkx graph reads
    "successors", "predecessors", "neighbors", "has_node", "has_edge", "get_edge_data", "nodes", "edges", "in_edges", "out_edges", "degree",
    "in_degree", "out_degree", "number_of_nodes", "number_of_edges", "adjacency", "subgraph", "reverse", "pred", "succ", "adj", "is_directed",
}
_NX_WRITERS = ("networkx.set_", "networkx.add_", "networkx.relabel", "networkx.freeze", "networkx.remove", "networkx.contracted", "networkx.draw")


@dataclass
class MemoTable:
    cls: object  # ClassInfo
    attr: str
    stores: list = field(default_factory=list)  # (function, written node, key expression, value expression)
    verdict: str = "other"  # memo | violated | other
    detail: str = ""

    @property
    def nodes(self) -> set[int]:
        return {id(n) for _f, n, _k, _v in self.stores}


def _immutable_type(t) -> bool | None:
    ms = members(t)
    if not ms or any(m == ("unknown",) for m in ms):
        return None
    for m in ms:
        if m[0] == "b" and m[1] in ("str", "int", "bool", "none", "float", "bytes", "ellipsis"):
            continue
        if m[0] == "b" and m[1] in ("tuple", "frozenset"):
            inner = [_immutable_type(x) for x in m[2] if x != ("b", "ellipsis", ())] if len(m) > 2 else []
            if all(x is True for x in inner):
                continue
            return False if any(x is False for x in inner) else None
        return False
    return True


def frozen_class(repo: Repo, T, ci, depth: int = 0) -> bool:
    """A frozen dataclass / NamedTuple / Enum whose fields are of immutable type: instances never change."""
    if depth > 2:
        return False
    frozen = any(isinstance(d, ast.Call) and norm(d.func).split(".")[-1] == "dataclass" and any(k.arg == "frozen" and isinstance(k.value, ast.Constant) and k.value.value is True for k in d.keywords) for d in ci.node.decorator_list)
    named = any(b.split(".")[-1] in ("NamedTuple", "Enum", "IntEnum", "StrEnum", "Flag") for b in ci.bases) or any(norm(b).split(".")[-1] in ("NamedTuple", "Enum") for b in ci.base_exprs)
    if not (frozen or named):
        return False
    if any(b.split(".")[-1] in ("Enum", "IntEnum", "StrEnum", "Flag") for b in ci.bases):
        return True
    for c in repo.mro(ci):
        for ann in c.ann_attrs.values():
            if immutable_type(repo, T, T.ann(c.module, ann), depth + 1) is not True:
                return False
    return True


def immutable_type(repo: Repo, T, t, depth: int = 0) -> bool | None:
    """_immutable_type plus repo classes whose instances never change."""
    ms = members(t)
    if not ms or any(m == ("unknown",) for m in ms):
        return None
    for m in ms:
        if m[0] == "cls" and m[1] in repo.classes:
            if frozen_class(repo, T, repo.classes[m[1]], depth):
                continue
            return False
        if m[0] == "b" and m[1] in ("tuple", "frozenset"):
            inner = [immutable_type(repo, T, x, depth) for x in m[2] if x != ("b", "ellipsis", ())] if len(m) > 2 else []
            if all(x is True for x in inner):
                continue
            return False if any(x is False for x in inner) else None
        r = _immutable_type(m)
        if r is not True:
            return r
    return True


class Memos:
    def __init__(self, repo: Repo, T, R: Roots, reach, lib_name) -> None:
        self.repo = repo
        self.T = T
        self.R = R
        self.reach = reach  # functions reachable from the evaluation entry points
        self.lib_name = lib_name
        self._pure: dict[str, str | None] = {}
        self._ctor_reach: dict[str, set] = {}
        self._evaluation_stores: dict | None = None

    # ------------------------------------------------------------------ helpers
    def _hier(self, ci) -> list:
        return self.R.hierarchy(ci)

    def _is_instance_of(self, f: FuncInfo, e: ast.AST, hier_fqs: set[str]) -> bool | None:
        """True: `e` denotes an instance of the hierarchy; False: something else; None: unknown."""
        sn = Roots.self_name(f)
        if isinstance(e, ast.Name) and sn is not None and e.id == sn and f.cls is not None:
            return f.cls.fq in hier_fqs
        try:
            ms = members(self.T.expr(f, e))
        except Exception:  # noqa: BLE001
            return None
        if not ms or any(m == ("unknown",) for m in ms):
            return None
        if any(m[0] == "cls" and m[1] in hier_fqs for m in ms):
            return True
        return False

    def _attr_stores(self) -> dict[str, list[tuple[FuncInfo, set[str]]]]:
        """attribute name -> (function, classes (fq) of the receiver; {'?'} when unknown) for every assignment of that attribute."""
        if self._evaluation_stores is None:
            out: dict[str, list[tuple[FuncInfo, set[str]]]] = {}
            for g in self.repo.all_functions():
                for w in self.R.writes(g):
                    if w.how in ("attr-store", "del", "setattr"):
                        try:
                            ms = members(self.T.expr(g, w.recv))
                        except Exception:  # noqa: BLE001
                            ms = []
                        sn = Roots.self_name(g)
                        cls = {m[1] for m in ms if m[0] == "cls"}
                        if isinstance(w.recv, ast.Name) and sn is not None and w.recv.id == sn and g.cls is not None:
                            cls.add(g.cls.fq)
                        out.setdefault(w.field if w.how != "setattr" else "?", []).append((g, cls or {"?"}))
            self._evaluation_stores = out
        return self._evaluation_stores

    def _construction_only(self, ci, attr: str) -> bool:
        """Every assignment of `attr` on instances of the hierarchy happens in a constructor, or in a helper that only
        constructors can reach."""
        hier = self._hier(ci)
        hier_fqs = {c.fq for c in hier}
        reach = set(self.reach)
        for g, cls in [*self._attr_stores().get(attr, []), *self._attr_stores().get("?", [])]:
            if not (cls & hier_fqs) and "?" not in cls:
                continue
            if g.name in ("__init__", "__post_init__") and g.cls is not None and g.cls.fq in hier_fqs:
                continue
            if g in self.ctor_reach(ci) and g not in reach:
                continue
            return False
        return True

    def ctor_reach(self, ci) -> set:
        from .common import reachable_funcs

        if ci.fq not in self._ctor_reach:
            inits = [c.methods[n] for c in self._hier(ci) for n in ("__init__", "__post_init__") if n in c.methods]
            self._ctor_reach[ci.fq] = set(reachable_funcs(self.repo, inits, byname=True)) - set(inits)
        return self._ctor_reach[ci.fq]

    # ------------------------------------------------------------------ effect-free computations
    def pure(self, g: FuncInfo, depth: int = 0, stack: tuple = ()) -> str | None:
        """None when `g` computes its result from its arguments and from state no evaluation changes, and writes nothing;
        otherwise the reason."""
        if g.fq in self._pure:
            return self._pure[g.fq]
        if depth > 4 or g.fq in stack:
            return f"{g.qualname} could not be followed (recursion / depth)"
        why = self._pure_body(g, list(own_nodes(g.node)), depth, stack)
        self._pure[g.fq] = why
        return why

    def _pure_body(self, g: FuncInfo, nodes: list[ast.AST], depth: int, stack: tuple, skip_attr: str | None = None) -> str | None:
        R, T, repo = self.R, self.T, self.repo
        sn = Roots.self_name(g)
        hier_fqs = {c.fq for c in self._hier(g.cls)} if g.cls is not None else set()
        for n in nodes:
            if isinstance(n, (ast.Global, ast.Nonlocal, ast.Yield, ast.YieldFrom, ast.Await)):
                return f"{g.qualname} is a generator / uses global state"
            if isinstance(n, ast.Attribute) and isinstance(n.ctx, ast.Load) and isinstance(n.value, ast.Name) and sn is not None and n.value.id == sn and n.attr != skip_attr:
                meth = repo.lookup_method(g.cls, n.attr) if g.cls is not None else None
                if meth is not None:
                    if meth.is_property:
                        for impl in repo.implementations(g.cls, n.attr):
                            w = self.pure(impl, depth + 1, stack + (g.fq,))
                            if w is not None:
                                return f"it reads the property {n.attr}: {w}"
                    continue
                shared = next((c for c in repo.mro(g.cls) if n.attr in c.class_attrs), None) if g.cls is not None else None
                if shared is not None:
                    from .c15 import _constant_is_immutable

                    if not _constant_is_immutable(repo, shared.module, shared.class_attrs[n.attr], 0, shared):
                        return f"it reads class-level state `{norm(n)}` that is not an immutable constant"
                if g.cls is not None and not self._construction_only(g.cls, n.attr):
                    return f"it reads `{norm(n)}`, which is assigned after construction"
            if isinstance(n, ast.Name) and isinstance(n.ctx, ast.Load) and n.id in g.module.constants:
                from .c15 import _constant_is_immutable

                if not _constant_is_immutable(repo, g.module, g.module.constants[n.id]):
                    return f"it reads module-level state `{n.id}`"
            if not isinstance(n, ast.Call):
                continue
            fn = n.func
            if isinstance(fn, ast.Name) and fn.id in PURE_BUILTINS and not self.lib_name(g, n):
                continue
            lib = self.lib_name(g, n)
            if lib and not lib.startswith("pytestarch"):
                if lib.startswith("networkx.") and not lib.startswith(_NX_WRITERS):
                    continue
                if lib.startswith(("re.", "itertools.", "functools.reduce", "functools.partial", "operator.", "collections.", "dataclasses.replace", "posixpath.", "os.path.", "typing.")):
                    continue
                return f"it calls the library function {lib}"
            try:
                cs, how = T.callees(g, n, byname_fallback=False)
            except Exception:  # noqa: BLE001
                cs, how = [], "unresolved"
            cs = [c for c in cs if not c.is_abstract]
            if T.ctor_class(g, n) is not None:
                for c in cs:
                    w = self.pure(c, depth + 1, stack + (g.fq,)) if c.name in ("__init__", "__post_init__") else None
                    # a constructor writes to the object it creates: only what it reads matters here
                    if w is not None and "writes" not in w:
                        return f"it constructs {c.qualname.split('.')[0]}: {w}"
                continue
            if cs:
                for c in cs:
                    w = self.pure(c, depth + 1, stack + (g.fq,))
                    if w is not None:
                        return f"it calls {c.qualname}: {w}"
                continue
            if isinstance(fn, ast.Attribute) and fn.attr in READ_ONLY_METHODS:
                continue
            return f"it calls `{norm(fn, 60)}`, which could not be resolved"
        if skip_attr is None:
            for w in R.writes(g):
                if not all(r == FRESH for r, _l in R.targets(w)):
                    return f"{g.qualname} writes to objects it did not create (`{w.text[:60]}`)"
        return None

    # ------------------------------------------------------------------ dependences of a stored value
    def _slice(self, f: FuncInfo, v: ast.expr, table_attr: str) -> tuple[set[str], set[str], list[ast.AST]]:
        """(parameters the value depends on by data flow, parameters it may depend on by control flow, nodes of the slice)."""
        sn = Roots.self_name(f)
        params = {p for p in f.param_names if p != sn}
        assigns: dict[str, list[ast.AST]] = {}
        for n in own_nodes(f.node):
            if isinstance(n, (ast.Assign, ast.AnnAssign, ast.AugAssign)) and getattr(n, "value", None) is not None:
                for t in (n.targets if isinstance(n, ast.Assign) else [n.target]):
                    for x in ast.walk(t):
                        if isinstance(x, ast.Name) and isinstance(x.ctx, ast.Store):
                            assigns.setdefault(x.id, []).append(n.value)
                            if isinstance(n, ast.AugAssign):
                                assigns[x.id].append(ast.Name(id=x.id, ctx=ast.Load()))
            elif isinstance(n, (ast.For, ast.AsyncFor, ast.comprehension)):
                for x in ast.walk(n.target):
                    if isinstance(x, ast.Name):
                        assigns.setdefault(x.id, []).append(n.iter)
            elif isinstance(n, ast.NamedExpr):
                assigns.setdefault(n.target.id, []).append(n.value)
            elif isinstance(n, (ast.With, ast.AsyncWith)):
                for it in n.items:
                    if it.optional_vars is not None:
                        for x in ast.walk(it.optional_vars):
                            if isinstance(x, ast.Name):
                                assigns.setdefault(x.id, []).append(it.context_expr)
            elif isinstance(n, ast.ExceptHandler) and n.name:
                assigns.setdefault(n.name, [])
        data: set[str] = set()
        nodes: list[ast.AST] = []
        seen: set[str] = set()
        work: list[ast.AST] = [v]
        while work:
            e = work.pop()
            for x in ast.walk(e):
                nodes.append(x)
                if isinstance(x, ast.Name) and isinstance(x.ctx, ast.Load):
                    if x.id in params and x.id not in assigns:
                        data.add(x.id)
                    elif x.id in assigns and x.id not in seen:
                        seen.add(x.id)
                        if x.id in params:
                            data.add(x.id)
                        work += assigns[x.id]
        # control flow: every test of the function other than "is the key in the table" may decide whether / what is stored
        control: set[str] = set()
        for n in own_nodes(f.node):
            tests = []
            if isinstance(n, (ast.If, ast.While, ast.IfExp)):
                tests = [n.test]
            elif isinstance(n, ast.Assert):
                tests = [n.test]
            for t in tests:
                if any(isinstance(x, ast.Attribute) and x.attr == table_attr for x in ast.walk(t)):
                    continue
                sub: list[ast.AST] = [t]
                seen_c: set[str] = set()
                while sub:
                    e = sub.pop()
                    for x in ast.walk(e):
                        if isinstance(x, ast.Name) and isinstance(x.ctx, ast.Load):
                            if x.id in params:
                                control.add(x.id)
                            if x.id in assigns and x.id not in seen_c:
                                seen_c.add(x.id)
                                sub += assigns[x.id]
        return data, control, nodes

    # ------------------------------------------------------------------ tables
    def tables(self) -> list[MemoTable]:
        repo, T = self.repo, self.T
        found: dict[tuple[str, str], MemoTable] = {}
        for f in self.reach:
            sn = Roots.self_name(f)
            if sn is None or f.cls is None or isinstance(f.node, ast.Lambda) or f.name in ("__init__", "__post_init__"):
                continue
            for n in own_nodes(f.node):
                hit = None
                if isinstance(n, ast.Assign) and all(isinstance(t, (ast.Name, ast.Subscript)) for t in n.targets):
                    # `self.M[k] = v`, also `local = self.M[k] = v`
                    subs = [t for t in n.targets if isinstance(t, ast.Subscript)]
                    if len(subs) == 1:
                        t = subs[0]
                        if isinstance(t.value, ast.Attribute) and isinstance(t.value.value, ast.Name) and t.value.value.id == sn:
                            hit = (t.value.attr, t.slice, n.value)
                elif isinstance(n, ast.Call) and isinstance(n.func, ast.Attribute) and n.func.attr == "setdefault" and len(n.args) == 2 and not n.keywords:
                    b = n.func.value
                    if isinstance(b, ast.Attribute) and isinstance(b.value, ast.Name) and b.value.id == sn:
                        hit = (b.attr, n.args[0], n.args[1])
                if hit is None:
                    continue
                top = min(c.fq for c in self._hier(f.cls))
                mt = found.setdefault((top, hit[0]), MemoTable(f.cls, hit[0]))
                mt.stores.append((f, n, hit[1], hit[2]))
        out = []
        for mt in found.values():
            self._judge(mt)
            out.append(mt)
        return out

    def _census(self, mt: MemoTable) -> tuple[str | None, list[ast.AST]]:
        """(why the table is observable / None, keyed read expressions)."""
        hier_fqs = {c.fq for c in self._hier(mt.cls)}
        reads: list[ast.AST] = []
        inits = 0
        for g in self.repo.all_functions():
            for n in own_nodes(g.node):
                if not (isinstance(n, ast.Attribute) and n.attr == mt.attr):
                    continue
                inst = self._is_instance_of(g, n.value, hier_fqs)
                if inst is False:
                    continue
                if inst is None and not (g.cls is not None and g.cls.fq in hier_fqs):
                    # an attribute of this name on an object of unknown type, outside the class: it may be the table
                    return f"`{norm(n)}` in {g.qualname} may be the table (receiver of unknown type)", reads
                p = parent(n)
                if isinstance(p, ast.Subscript) and p.value is n:
                    if isinstance(p.ctx, ast.Load):
                        reads.append(p)
                        continue
                    if isinstance(p.ctx, ast.Store) and isinstance(parent(p), ast.Assign):
                        continue
                    return f"`{norm(parent(p) or p, 60)}` in {g.qualname} removes or rewrites entries", reads
                if isinstance(p, ast.Attribute) and p.value is n and isinstance(parent(p), ast.Call) and parent(p).func is p:
                    call = parent(p)
                    if p.attr == "get" and 1 <= len(call.args) <= 2:
                        reads.append(call)
                        continue
                    if p.attr == "setdefault" and len(call.args) == 2:
                        if not isinstance(parent(call), ast.Expr):
                            reads.append(call)
                        continue
                    if p.attr == "__contains__":
                        continue
                    return f"`{norm(call, 60)}` in {g.qualname} looks at the table as a whole", reads
                if isinstance(p, ast.Compare) and n in p.comparators and all(isinstance(o, (ast.In, ast.NotIn)) for o in p.ops):
                    continue
                if isinstance(n.ctx, ast.Store) and isinstance(p, (ast.Assign, ast.AnnAssign)):
                    val = p.value
                    empty = isinstance(val, ast.Dict) and not val.keys or (isinstance(val, ast.Call) and isinstance(val.func, ast.Name) and val.func.id in ("dict", "defaultdict", "OrderedDict") and not val.args and not val.keywords)
                    if g.name in ("__init__", "__post_init__") and g.cls is not None and g.cls.fq in hier_fqs and empty:
                        inits += 1
                        continue
                    return f"`{norm(p, 60)}` in {g.qualname} replaces the table (other than by an empty one in the constructor)", reads
                return f"`{norm(p if p is not None else n, 60)}` in {g.qualname} uses the table as a whole (iteration, size, handing it out)", reads
        if inits == 0:
            return "the table is not created empty in the constructor", reads
        return None, reads

    def _judge(self, mt: MemoTable) -> None:
        T = self.T
        hier_fqs = {c.fq for c in self._hier(mt.cls)}
        name = f"{mt.cls.name}.{mt.attr}"
        stale: list[str] = []
        for f, node, k, v in mt.stores:
            sn = Roots.self_name(f)
            params = {p for p in f.param_names if p != sn}
            kparts = k.elts if isinstance(k, ast.Tuple) else [k]
            if not all((isinstance(x, ast.Name) and x.id in params) or isinstance(x, ast.Constant) for x in kparts):
                mt.detail = f"the key `{norm(k, 50)}` of `{norm(node, 70)}` in {f.qualname} is not made of parameters of the method"
                return
            if any(_stored(f, x.id) for x in kparts if isinstance(x, ast.Name)):
                mt.detail = f"a key parameter of {f.qualname} is re-assigned before it is used"
                return
            keyed = {x.id for x in kparts if isinstance(x, ast.Name)}
            for kp in sorted(keyed):
                try:
                    kt = immutable_type(self.repo, T, T.param_type(f, kp))
                except Exception:  # noqa: BLE001
                    kt = None
                if kt is not True:
                    mt.detail = f"the key parameter `{kp}` of {f.qualname} is {'a mutable object' if kt is False else 'of unknown type'}: the value computed for one state of it would be served for another"
                    return
            data, control, nodes = self._slice(f, v, mt.attr)
            if data - keyed:
                stale.append(f"`{norm(node, 90)}` in {f.qualname} stores a value computed from the parameter(s) {', '.join(sorted(data - keyed))} under a key made of {', '.join(sorted(keyed)) or 'constants'} only: a later call with the same key and other arguments is served the value computed for the first ones")
                continue
            if control - keyed:
                mt.detail = f"what {f.qualname} stores may depend on its parameter(s) {', '.join(sorted(control - keyed))}, which are not part of the key"
                return
            if f in self.ctor_reach(mt.cls):
                mt.detail = f"{f.qualname} can run while the object is still under construction: a value computed from the half-built object would be served later"
                return
            why = self._pure_body(f, nodes, 0, (), skip_attr=mt.attr)
            if why is None:
                # the rest of the method must not have effects either (other than filling the table)
                for w in self.R.writes(f):
                    if id(w.node) in mt.nodes:
                        continue
                    if not all(r == FRESH for r, _l in self.R.targets(w)):
                        why = f"{f.qualname} also writes `{w.text[:60]}`"
                        break
            if why is not None:
                mt.detail = f"the value stored by {f.qualname} is not a function of the key and of state that evaluations leave alone: {why}"
                return
        if stale:
            mt.verdict, mt.detail = "violated", stale[0]
            return
        observable, reads = self._census(mt)
        if observable is not None:
            mt.detail = f"{name} is not used as a memo only: {observable}"
            return
        imm = [_immutable_type(T.expr(f, v)) for f, _n, _k, v in mt.stores]
        if not all(x is True for x in imm):
            for r in reads:
                p = parent(r)
                copied = (isinstance(p, ast.Call) and isinstance(p.func, ast.Name) and p.func.id in COPIES and r in p.args) or (isinstance(p, (ast.For, ast.comprehension)) and p.iter is r) or (isinstance(p, ast.Compare) and r in p.comparators) or isinstance(p, ast.Starred)
                if not copied:
                    mt.detail = f"{name} holds mutable values and `{norm(p if p is not None else r, 60)}` hands the stored object itself out"
                    return
        mt.verdict = "memo"
        fs = sorted({f.qualname for f, _n, _k, _v in mt.stores})
        mt.detail = f"{name} is a memo table: created empty in the constructor, only ever used by key, filled by {', '.join(fs)} (not reachable from the constructor) with a value that is a function of the key parameters and of state no evaluation assigns; stored values are immutable or copied on every read - filling it on demand cannot be observed"


def _stored(f: FuncInfo, name: str) -> bool:
    return any(isinstance(n, ast.Name) and n.id == name and isinstance(n.ctx, (ast.Store, ast.Del)) for n in own_nodes(f.node))
