"""Ownership ("roots") analysis for C15: which long-lived object may an expression denote, and which objects may a function write to.

Every value is abstracted by
    obj      set of (root, level): what the denoted object itself may be
    content  K sets of roots:      content[i] = where the (non-fresh) objects stored at depth i+1 *inside* it may come from
                                   (a dict of lists of modules keeps its three layers apart; the last level absorbs deeper ones)
with
    root   FRESH                      created during the current call of the function under analysis (or of a callee on its behalf)
           ("self", owner_fq)         the receiver of the method `owner`
           ("param", owner_fq, name)  a parameter of `owner`
           ("global", dotted)         module / class level state
           ("unknown", text)
    level  0  = the root object itself
           1  = an object *owned* by the root: created by the root's own methods and only stored inside it (e.g. `self._cache = {}`);
                when the root itself turns out to be a fresh object at a call site, its owned parts are fresh too
           11 = an object found exactly one step inside the root (a field / element handed in from outside), 12 = two steps inside
           2  = an object reachable from the root at unknown depth

The analysis is flow-insensitive inside a function (a local is the join of all its bindings), field-sensitive for instance
attributes of repo classes (own vs. shared, from all stores in the class hierarchy), and inter-procedural through return
summaries and write summaries bound at call sites.  Nothing is executed.

Variable names, helper names, the split into helpers, aliases (`x = d.get(k)`, `getattr(o, name)`), comprehension vs. loop do not
matter: only where an object comes from.
"""

from __future__ import annotations

import ast
from dataclasses import dataclass, field

from core.cfg import MUTATORS
from core.loader import ClassInfo, FuncInfo, Repo, own_nodes
from core.types import Types, members

FRESH = ("fresh",)
K = 3  # depth to which the contents of containers are kept apart (dict of lists of objects)

Root = tuple
Tag = tuple  # (root, level)
_NOC = (frozenset(),) * K


@dataclass(frozen=True)
class Value:
    """obj: what the object itself may be.  content[i]: roots of the objects explicitly stored at depth i+1 inside it (the last
    level absorbs everything deeper).  Implicitly, whatever lies inside an object tagged (r, l) with l != 1 belongs to r as well, and
    whatever lies inside an object found at some content level belongs to the same root."""

    obj: frozenset = frozenset()
    content: tuple = _NOC

    def __or__(self, other: "Value") -> "Value":
        if other is self or (not other.obj and other.content == _NOC):
            return self
        if not self.obj and self.content == _NOC:
            return other
        return Value(self.obj | other.obj, tuple(a | b for a, b in zip(self.content, other.content)))

    @property
    def obj_roots(self) -> frozenset:
        return frozenset(r for r, _l in self.obj if r != FRESH)

    @property
    def roots(self) -> frozenset:
        """Every non-fresh root the object or anything inside it may belong to."""
        out = set(self.obj_roots)
        for c in self.content:
            out |= c
        return frozenset(out)

    @property
    def only_fresh(self) -> bool:
        return all(r == FRESH for r, _l in self.obj)

    def with_content(self, extra: tuple) -> "Value":
        if extra == _NOC:
            return self
        return Value(self.obj, tuple(a | b for a, b in zip(self.content, extra)))


EMPTY = Value()
NEW = Value(frozenset({(FRESH, 0)}))


def at_root(r: Root) -> Value:
    return Value(frozenset({(r, 0)}))


def shifted(v: Value, d: int) -> tuple:
    """Content contribution of storing the object `v` at depth d (>= 1) inside something."""
    lv = [set() for _ in range(K)]
    lv[min(d - 1, K - 1)] |= v.obj_roots
    for j, c in enumerate(v.content):
        lv[min(d + j, K - 1)] |= c
    return tuple(frozenset(x) for x in lv)


def shifted_elems(v: Value, d: int) -> tuple:
    """Content contribution of storing the *elements* of `v` at depth d (x.extend(v))."""
    lv = [set() for _ in range(K)]
    lv[min(d - 1, K - 1)] |= v.obj_roots  # implicit content of a long-lived container, owned parts degrade to reachable ones
    for j, c in enumerate(v.content):
        lv[min(d - 1 + j, K - 1)] |= c
    return tuple(frozenset(x) for x in lv)


def join_content(parts) -> tuple:
    lv = [set() for _ in range(K)]
    for p_ in parts:
        for i, c in enumerate(p_):
            lv[i] |= c
    return tuple(frozenset(x) for x in lv)


def wrap(values) -> Value:
    """A new object that directly holds the given values (constructor call, list literal, tuple)."""
    return Value(frozenset({(FRESH, 0)}), join_content(shifted(v, 1) for v in values))


def same_elems(values) -> Value:
    """A new container holding the elements of the given containers (list(x), sorted(x), a + b)."""
    return Value(frozenset({(FRESH, 0)}), join_content(shifted_elems(v, 1) for v in values))


def view_of(values) -> Value:
    """An iterator / view handing out the elements of the given containers; owned elements stay owned."""
    obj = {(FRESH, 0)}
    for v in values:
        obj |= {(r, l) for r, l in v.obj if r != FRESH}
    return Value(frozenset(obj), join_content(v.content for v in values))


def tuples_of(values) -> Value:
    """An iterator of new tuples whose components are elements of the given containers (items(), enumerate, zip)."""
    return Value(frozenset({(FRESH, 0)}), join_content(shifted_elems(v, 2) for v in values))


ANY, AT1, AT2 = 2, 11, 12
_DEEPER = {0: AT1, AT1: AT2, AT2: ANY, ANY: ANY, 1: 1}


def elem(v: Value) -> Value:
    """An object stored directly inside `v` (element, value of a mapping, attribute of unknown kind)."""
    obj = set()
    for r, l in v.obj:
        if r == FRESH:
            obj.add((FRESH, 0))
        else:
            obj.add((r, _DEEPER[l]))
    for r in v.content[0]:
        obj.add((r, ANY))
    return Value(frozenset(obj), tuple(v.content[min(i + 1, K - 1)] for i in range(K)))


def own(v: Value) -> Value:
    """Objects owned by (created by and only stored inside) the objects `v` stands for."""
    obj = set()
    for r, l in v.obj:
        # an owned part of something that merely lies inside r lies deeper inside r, at a depth that is not known
        obj.add((r, 0) if r == FRESH else (r, 1) if l in (0, 1) else (r, ANY))
    return Value(frozenset(obj), v.content)


def reach(v: Value) -> Value:
    """Anything inside `v`, at any depth."""
    obj = set()
    for r, l in v.obj:
        if r == FRESH:
            obj.add((FRESH, 0))
        elif l == 1:
            obj.add((r, 1))  # what an owned part holds from outside is listed in its content
        else:
            obj.add((r, ANY))
    allc = set()
    for c in v.content:
        allc |= c
    for r in allc:
        obj.add((r, ANY))
    return Value(frozenset(obj), (frozenset(allc),) * K)


def project(a: Value, level: int) -> Value:
    """The objects a tag of the given level, rooted at a parameter bound to `a`, stands for in the caller."""
    if level == 0:
        return a
    if level == 1:
        return own(a)
    if level == AT1:
        return elem(a)
    if level == AT2:
        return elem(elem(a))
    return reach(a)


GROW = {"add", "update", "append", "extend", "insert", "setdefault", "appendleft", "add_node", "add_edge", "add_nodes_from", "add_edges_from", "add_weighted_edges_from"}
SHRINK = {"remove", "discard", "pop", "clear", "difference_update", "intersection_update", "popitem", "popleft", "symmetric_difference_update", "remove_node", "remove_edge", "remove_nodes_from", "remove_edges_from", "clear_edges"}
REORDER = {"sort", "reverse"}
LIB_MUTATORS = {"add_node", "add_edge", "add_nodes_from", "add_edges_from", "add_weighted_edges_from", "remove_node", "remove_edge", "remove_nodes_from", "remove_edges_from", "clear_edges"}
ALL_MUTATORS = MUTATORS | LIB_MUTATORS

CONTAINER_BUILDERS = {"list", "set", "dict", "tuple", "frozenset", "sorted", "defaultdict", "OrderedDict", "Counter", "deque", "chain", "product", "partial", "groupby", "permutations", "combinations", "zip_longest", "islice", "accumulate", "starmap", "tee", "bytearray"}
VIEWS = {"iter", "enumerate", "zip", "reversed", "map", "filter"}  # hand out the elements of their arguments
SELECTORS = {"next", "min", "max"}
SCALAR_BUILTINS = {"len", "isinstance", "issubclass", "hasattr", "bool", "int", "str", "repr", "float", "any", "all", "sum", "id", "hash", "callable", "print", "type", "ord", "chr", "abs", "round", "format", "range", "open", "setattr", "delattr", "divmod", "bin", "hex"}
COPYING_METHODS = {"copy", "union", "intersection", "difference", "symmetric_difference", "reverse_view", "to_directed", "to_undirected", "__copy__", "__deepcopy__"}
TEXT_METHODS = {"split", "rsplit", "join", "replace", "strip", "lstrip", "rstrip", "format", "lower", "upper", "splitlines", "partition", "rpartition", "removeprefix", "removesuffix", "encode", "decode", "title", "capitalize", "startswith", "endswith", "as_posix", "read_text", "group", "groups", "groupdict", "is_dir", "is_file", "exists", "index", "count", "find", "rfind"}
IMMUTABLE_B = {"str", "int", "bool", "none", "float", "bytes", "ellipsis"}


@dataclass
class Write:
    fi: FuncInfo
    node: ast.AST  # statement / call performing the write
    recv: ast.expr  # expression denoting the written object
    how: str  # "attr-store" | "item-store" | "del" | "call:<method>" | "aug" | "setattr"
    field: str  # attribute stored / method called
    klass: str  # grow | shrink | set | reorder
    path: str = ""  # attribute path below the root variable ("_configuration.should"), "" if none / not syntactic

    @property
    def text(self) -> str:
        return " ".join(ast.unparse(self.node).split())[:140]


@dataclass
class FieldVal:
    has_own: bool = False  # some store puts an object created by the instance itself
    has_shared: bool = False  # some store puts an object that came from outside (or unknown)
    content_shared: bool = False  # something from outside is stored *into* the field's object
    classvar: str | None = None  # class-level attribute never assigned on the instance: dotted name
    stores: int = 0


def owner_of(f: FuncInfo) -> FuncInfo:
    while f.outer is not None:
        f = f.outer
    return f


def root_name(e: ast.AST) -> tuple[ast.AST, list[str]]:
    """Innermost expression a store / mutation goes through, and the attribute path below it."""
    path: list[str] = []
    while True:
        if isinstance(e, ast.Attribute):
            path.append(e.attr)
            e = e.value
        elif isinstance(e, ast.Subscript):
            path.append("[]")
            e = e.value
        elif isinstance(e, ast.Call) and isinstance(e.func, ast.Attribute) and e.func.attr in ("setdefault", "get", "__getitem__", "values", "items", "keys"):
            path.append("[]")
            e = e.func.value
        elif isinstance(e, ast.Call) and isinstance(e.func, ast.Name) and e.func.id in ("getattr", "vars") and e.args:
            path.append("?" if e.func.id == "getattr" and not (len(e.args) > 1 and isinstance(e.args[1], ast.Constant)) else (str(e.args[1].value) if e.func.id == "getattr" else "__dict__"))
            e = e.args[0]
        elif isinstance(e, ast.Starred):
            e = e.value
        else:
            break
    return e, list(reversed(path))


class Roots:
    def __init__(self, repo: Repo, types: Types) -> None:
        self.repo = repo
        self.T = types
        self._names: dict[tuple[str, str], Value] = {}
        self._ret: dict[str, Value] = {}
        self._field: dict[tuple[str, str], FieldVal] = {}
        self._bindings: dict[str, dict[str, list]] = {}
        self._into: dict[str, dict[str, list]] = {}
        self._busy: set = set()
        self._cycles = 0
        self._store_index: dict[tuple[str, str], list] | None = None
        self._ext_store_index: dict[str, list] | None = None
        self._writes: dict[str, list[Write]] = {}
        # writes that are not spelled as statements: `@cached_property` stores its result in the instance on first access
        # (registered by rules/c15.py for the cached properties that are not provably unobservable)
        self.extra_writes: dict[str, list[Write]] = {}

    # ------------------------------------------------------------------ small facts
    @staticmethod
    def self_name(f: FuncInfo) -> str | None:
        if f.cls is not None and f.outer is None and not f.is_staticmethod and not isinstance(f.node, ast.Lambda) and f.params:
            return f.params[0].arg
        return None

    def type_of(self, f: FuncInfo, e: ast.AST):
        try:
            return self.T.expr(f, e)
        except Exception:  # noqa: BLE001
            return ("unknown",)

    def immutable(self, f: FuncInfo, e: ast.expr) -> bool:
        """The static type says that the value cannot be modified in place (text, numbers, None, functions, classes).

        A union with an unresolved part counts by its resolved parts (a join of bindings of which one could not be typed)."""
        ms = [m for m in members(self.type_of(f, e)) if m != ("unknown",)]
        if not ms:
            return False
        for m in ms:
            if m[0] == "b" and m[1] in IMMUTABLE_B:
                continue
            if m[0] in ("fn", "type", "libref"):
                continue
            if m[0] == "b" and m[1] == "callable":
                continue
            if m[0] == "lib" and m[1] in ("pathlib.Path", "re.Pattern", "re.Match"):
                continue
            return False
        return True

    def _scan(self, f: FuncInfo) -> None:
        """Bindings of every local name, and everything stored *into* the object a name denotes (with the depth it is stored at)."""
        if f.fq in self._bindings:
            return
        b: dict[str, list] = {}
        into: dict[str, list] = {}
        self._bindings[f.fq] = b
        self._into[f.fq] = into
        if isinstance(f.node, ast.Lambda):
            return

        def bind(target: ast.AST, kind: str, expr: ast.AST | None, depth: int = 0) -> None:
            if isinstance(target, ast.Name):
                b.setdefault(target.id, []).append((kind, expr, depth))
            elif isinstance(target, (ast.Tuple, ast.List)):
                for i, el in enumerate(target.elts):
                    if kind == "assign" and depth == 0 and isinstance(expr, (ast.Tuple, ast.List)) and len(expr.elts) == len(target.elts) and not any(isinstance(x, ast.Starred) for x in expr.elts):
                        bind(el, "assign", expr.elts[i], 0)
                    else:
                        bind(el, kind, expr, depth + 1)
            elif isinstance(target, ast.Starred):
                bind(target.value, kind, expr, depth)
            elif isinstance(target, (ast.Attribute, ast.Subscript)) and expr is not None:
                store_into(target.value, expr, "obj", depth)

        def store_into(recv: ast.AST, expr: ast.AST, kind: str = "obj", unpack: int = 0) -> None:
            root, path = root_name(recv)
            if isinstance(root, ast.Name):
                into.setdefault(root.id, []).append((kind, expr, len(path) + 1, unpack))

        for n in own_nodes(f.node):
            if isinstance(n, ast.Assign):
                for t in n.targets:
                    bind(t, "assign", n.value)
            elif isinstance(n, ast.AnnAssign) and n.value is not None:
                bind(n.target, "assign", n.value)
            elif isinstance(n, ast.AugAssign):
                if isinstance(n.target, ast.Name):
                    into.setdefault(n.target.id, []).append(("elems", n.value, 1, 0))
                elif isinstance(n.target, (ast.Attribute, ast.Subscript)):
                    root, path = root_name(n.target)
                    if isinstance(root, ast.Name):
                        into.setdefault(root.id, []).append(("elems", n.value, len(path) + 1, 0))
            elif isinstance(n, (ast.For, ast.AsyncFor)):
                bind(n.target, "elem", n.iter, 1)
            elif isinstance(n, ast.comprehension):
                bind(n.target, "elem", n.iter, 1)
            elif isinstance(n, (ast.With, ast.AsyncWith)):
                for it in n.items:
                    if it.optional_vars is not None:
                        bind(it.optional_vars, "assign", it.context_expr)
            elif isinstance(n, ast.ExceptHandler) and n.name:
                b.setdefault(n.name, []).append(("fresh", None, 0))
            elif isinstance(n, ast.NamedExpr):
                bind(n.target, "assign", n.value)
            elif isinstance(n, (ast.Import, ast.ImportFrom)):
                for a in n.names:
                    b.setdefault(a.asname or a.name.split(".")[0], []).append(("global", a.name, 0))
            elif isinstance(n, ast.Call) and isinstance(n.func, ast.Attribute) and n.func.attr in GROW:
                args = list(n.args)
                if n.func.attr in ("setdefault", "insert") and args:
                    args = args[1:]  # key / index
                bulk = n.func.attr in ("extend", "update", "add_nodes_from", "add_edges_from")
                for a in [*args, *[k.value for k in n.keywords]]:
                    store_into(n.func.value, a, "elems" if bulk else "obj")
            elif isinstance(n, ast.Call) and isinstance(n.func, ast.Name) and n.func.id == "setattr" and len(n.args) == 3:
                store_into(n.args[0], n.args[2])

    # ------------------------------------------------------------------ values
    def value(self, f: FuncInfo, e: ast.AST) -> Value:
        if e is None:
            return EMPTY
        if isinstance(e, (ast.Constant, ast.JoinedStr, ast.Compare)):
            return EMPTY
        if isinstance(e, ast.expr) and not isinstance(e, ast.Starred) and self.immutable(f, e):
            return EMPTY
        if isinstance(e, ast.Name):
            return self.name_value(f, e.id, e)
        if isinstance(e, ast.Attribute):
            return self._attribute(f, e)
        if isinstance(e, ast.Call):
            return self._call(f, e)
        if isinstance(e, ast.Subscript):
            base = self.value(f, e.value)
            if isinstance(e.slice, ast.Slice):
                return same_elems([base])
            return elem(base)
        if isinstance(e, (ast.List, ast.Tuple, ast.Set)):
            parts = []
            spread = []
            for x in e.elts:
                if isinstance(x, ast.Starred):
                    spread.append(self.value(f, x.value))
                else:
                    parts.append(self.value(f, x))
            out = wrap(parts)
            return out | same_elems(spread) if spread else out
        if isinstance(e, ast.Dict):
            parts, spread = [], []
            for k, v in zip(e.keys, e.values):
                if k is None:
                    spread.append(self.value(f, v))
                else:
                    parts.append(self.value(f, v))  # keys are hashable: nothing is modified through them
            out = wrap(parts)
            return out | same_elems(spread) if spread else out
        if isinstance(e, (ast.ListComp, ast.SetComp, ast.GeneratorExp)):
            return wrap([self.value(f, e.elt)])
        if isinstance(e, ast.DictComp):
            return wrap([self.value(f, e.value)])
        if isinstance(e, ast.BinOp):
            return same_elems([self.value(f, e.left), self.value(f, e.right)])
        if isinstance(e, ast.BoolOp):
            out = EMPTY
            for v in e.values:
                out = out | self.value(f, v)
            return out
        if isinstance(e, ast.IfExp):
            return self.value(f, e.body) | self.value(f, e.orelse)
        if isinstance(e, ast.UnaryOp):
            return EMPTY if isinstance(e.op, ast.Not) else self.value(f, e.operand)
        if isinstance(e, (ast.Starred, ast.Await, ast.NamedExpr)):
            return self.value(f, e.value)
        if isinstance(e, ast.Lambda):
            return NEW
        if isinstance(e, (ast.Yield, ast.YieldFrom)):
            return at_root(("unknown", "value sent into a generator"))
        return EMPTY

    def name_value(self, f: FuncInfo, name: str, node: ast.AST | None = None) -> Value:
        key = (f.fq, name)
        if key in self._names:
            return self._names[key]
        if key in self._busy:
            self._cycles += 1
            return EMPTY
        self._busy.add(key)
        c0 = self._cycles
        try:
            v = self._name_value(f, name, node)
        finally:
            self._busy.discard(key)
        if self._cycles == c0 or not self._busy:
            self._names[key] = v
        return v

    def _name_value(self, f: FuncInfo, name: str, node: ast.AST | None) -> Value:
        self._scan(f)
        out = EMPTY
        known = False
        sn = self.self_name(f)
        if name == sn:
            known = True
            out = out | at_root(("global", f.cls.fq) if f.is_classmethod else ("self", f.fq))
        elif name in f.param_names:
            known = True
            r = ("param", f.fq, name)
            a = f.node.args
            if (a.vararg is not None and a.vararg.arg == name) or (a.kwarg is not None and a.kwarg.arg == name):
                # *args / **kwargs are packed into a new tuple / dict per call
                out = out | Value(frozenset({(FRESH, 0)}), (frozenset({r}),) + _NOC[1:])
            else:
                out = out | at_root(r)
        binds = self._bindings[f.fq].get(name, [])
        for kind, expr, depth in binds:
            known = True
            if kind == "fresh":
                out = out | NEW
            elif kind == "global":
                out = out | at_root(("global", str(expr)))
            else:
                v = self.value(f, expr)
                for _ in range(depth):
                    v = elem(v)
                out = out | v
        if known:
            extra = []
            for kind, expr, depth, unpack in self._into[f.fq].get(name, []):
                v = self.value(f, expr)
                for _ in range(unpack):
                    v = elem(v)
                extra.append(shifted_elems(v, depth) if kind == "elems" else shifted(v, depth))
            return out.with_content(join_content(extra)) if extra else out
        # free variable of a nested function / lambda
        if f.outer is not None:
            return self.name_value(f.outer, name, node)
        # a name copied from another module by an inlined view
        mod = f.module
        src = getattr(node, "_src", None) if node is not None else None
        if src is not None and isinstance(src[1], ast.Name) and src[1].id == name and src[0].module is not mod:
            mod = src[0].module
        if name in mod.classes or name in mod.functions:
            return EMPTY  # class / function objects: calling them is handled by the call rules, stores through them by `global_root`
        if name in mod.constants:
            return at_root(("global", f"{mod.name}.{name}"))
        if name in mod.imports:
            return at_root(("global", self.repo.resolve_name(mod, ast.Name(id=name, ctx=ast.Load())) or name))
        return EMPTY  # builtins

    def global_root(self, f: FuncInfo, e: ast.AST) -> str | None:
        """Dotted name if `e` is a module-level object (class, module constant, imported module attribute)."""
        if isinstance(e, ast.Name):
            g: FuncInfo | None = f
            while g is not None:
                self._scan(g)
                if e.id in g.param_names or e.id in self._bindings[g.fq]:
                    return None
                g = g.outer
            if e.id in f.module.classes:
                return f"{f.module.name}.{e.id}"
            if e.id in f.module.constants or e.id in f.module.imports:
                return self.repo.resolve_name(f.module, e) or e.id
        return None

    # ------------------------------------------------------------------ attributes
    def _build_store_index(self) -> None:
        """(class, attr) -> stores of `self.attr` / stores into the object held by `self.attr`, over all methods; and stores through
        other receivers (`other.attr = v`) by attribute name."""
        idx: dict[tuple[str, str], list] = {}
        ext: dict[str, list] = {}
        for m in self.repo.all_functions():
            if isinstance(m.node, ast.Lambda):
                continue
            # the receiver name of the enclosing method is visible in nested functions as well
            owner = owner_of(m)
            sn = self.self_name(owner) if not owner.is_classmethod else None
            cfq = owner.cls.fq if owner.cls is not None else None

            def into(recv: ast.AST, v: ast.AST, m=m, sn=sn, cfq=cfq) -> None:
                """v is stored somewhere inside the object `recv` denotes."""
                root, path = root_name(recv)
                if isinstance(root, ast.Name) and root.id == sn and cfq is not None and path and path[0] not in ("[]", "?", "__dict__"):
                    idx.setdefault((cfq, path[0]), []).append((m, "into", v, "assign"))
                elif isinstance(root, ast.Name) and root.id == sn and cfq is not None and path:
                    ext.setdefault("*", []).append((m, root, v))

            def obj_store(t: ast.AST, v: ast.AST, how: str, m=m, sn=sn, cfq=cfq, into=into) -> None:
                """`t = v` for one (non-tuple) target."""
                if isinstance(t, ast.Attribute):
                    if isinstance(t.value, ast.Name) and t.value.id == sn and cfq is not None:
                        idx.setdefault((cfq, t.attr), []).append((m, "into" if how == "aug" else "store", v, how))
                        return
                    ext.setdefault(t.attr, []).append((m, t.value, v))
                    into(t.value, v)
                elif isinstance(t, ast.Subscript):
                    into(t.value, v)

            for n in own_nodes(m.node):
                if isinstance(n, ast.Assign):
                    for t in n.targets:
                        if isinstance(t, (ast.Tuple, ast.List)):
                            for i, el in enumerate(t.elts):
                                if isinstance(n.value, (ast.Tuple, ast.List)) and len(n.value.elts) == len(t.elts):
                                    obj_store(el, n.value.elts[i], "assign")
                                else:
                                    obj_store(el, n.value, "elem")
                        else:
                            obj_store(t, n.value, "assign")
                elif isinstance(n, ast.AnnAssign) and n.value is not None:
                    obj_store(n.target, n.value, "assign")
                elif isinstance(n, ast.AugAssign):
                    obj_store(n.target, n.value, "aug")
                elif isinstance(n, ast.Call) and isinstance(n.func, ast.Attribute) and n.func.attr in GROW:
                    args = list(n.args)
                    if n.func.attr in ("setdefault", "insert") and args:
                        args = args[1:]
                    for a in [*args, *[k.value for k in n.keywords]]:
                        into(n.func.value, a)
                elif isinstance(n, ast.Call) and isinstance(n.func, ast.Name) and n.func.id == "setattr" and len(n.args) == 3:
                    a1 = n.args[1]
                    if isinstance(a1, ast.Constant) and isinstance(a1.value, str):
                        obj_store(ast.Attribute(value=n.args[0], attr=a1.value, ctx=ast.Store()), n.args[2], "assign")
                    else:
                        ext.setdefault("*", []).append((m, n.args[0], n.args[2]))
                        into(n.args[0], n.args[2])
        self._store_index = idx
        self._ext_store_index = ext

    def hierarchy(self, ci: ClassInfo) -> list[ClassInfo]:
        out = list(self.repo.mro(ci))
        for s in self.repo.subclasses(ci):
            if s not in out:
                out.append(s)
        return out

    def field(self, ci: ClassInfo, attr: str) -> FieldVal:
        key = (ci.fq, attr)
        if key in self._field:
            return self._field[key]
        if self._store_index is None:
            self._build_store_index()
        if ("field",) + key in self._busy:
            self._cycles += 1
            return FieldVal(has_own=True)  # optimistic start of the fixpoint: self-referential stores keep ownership
        self._busy.add(("field",) + key)
        c0 = self._cycles
        fv = FieldVal()
        try:
            classes = self.hierarchy(ci)
            fqs = {c.fq for c in classes}
            obj_stores = 0
            for c in classes:
                for m, kind, v, how in self._store_index.get((c.fq, attr), []):  # type: ignore[union-attr]
                    fv.stores += 1
                    val = self.value(m, v)
                    if how == "elem":
                        val = elem(val)
                    me = ("self", owner_of(m).fq)
                    if kind == "store":
                        obj_stores += 1
                        for r, l in val.obj:
                            if r == FRESH or (r == me and l == 1):
                                fv.has_own = True
                            else:
                                fv.has_shared = True
                        if any(val.content):
                            fv.content_shared = True
                    elif val.roots:
                        fv.content_shared = True
                # dataclass fields are filled from constructor arguments
                if c.is_dataclass and attr in c.ann_attrs:
                    fv.stores += 1
                    obj_stores += 1
                    fv.has_shared = True
                    fv.content_shared = True
                    if attr in c.class_attrs:
                        fv.has_own = True
            # stores through other names than the method's own receiver (`rule._configuration = x`)
            for m, recv, v in [*self._ext_store_index.get(attr, []), *self._ext_store_index.get("*", [])]:  # type: ignore[union-attr]
                ms = members(self.type_of(m, recv))
                if any(x[0] == "cls" and x[1] in fqs for x in ms) or all(x[0] == "unknown" for x in ms):
                    fv.stores += 1
                    obj_stores += 1
                    fv.has_shared = True
                    fv.content_shared = True
            if obj_stores == 0:
                for c in self.repo.mro(ci):
                    if attr in c.class_attrs:
                        fv.classvar = f"{c.fq}.{attr}"
                        break
                else:
                    fv.has_shared = True
                    fv.content_shared = True
        finally:
            self._busy.discard(("field",) + key)
        if self._cycles == c0 or not self._busy:
            self._field[key] = fv
        return fv

    def _attribute(self, f: FuncInfo, e: ast.Attribute) -> Value:
        g = self.repo.resolve_name(f.module, e) if self.global_root(f, self._leftmost(e)) else None
        if g is not None:
            return at_root(("global", g))
        base = self.value(f, e.value)
        bt = self.type_of(f, e.value)
        out = EMPTY
        generic = False
        for m in members(bt):
            if m[0] == "cls" and m[1] in self.repo.classes:
                ci = self.repo.classes[m[1]]
                meth = self.repo.lookup_method(ci, e.attr)
                if meth is not None and meth.is_property:
                    for impl in self.repo.implementations(ci, e.attr):
                        out = out | self._apply(impl, {self.self_name(impl) or "self": base}, f)
                elif meth is not None:
                    out = out | base  # bound method object: keeps its receiver alive
                else:
                    out = out | self._field_read(base, self.field(ci, e.attr))
            elif m[0] in ("type", "libref"):
                continue
            else:
                generic = True
        if generic or not members(bt):
            out = out | elem(base)
        glob = frozenset((r, ANY) for r, _l in base.obj if r[0] == "global")
        if glob:
            out = Value(out.obj | glob, out.content)
        return out

    @staticmethod
    def _leftmost(e: ast.AST) -> ast.AST:
        while isinstance(e, ast.Attribute):
            e = e.value
        return e

    @staticmethod
    def _field_read(base: Value, fv: FieldVal) -> Value:
        if fv.classvar is not None:
            return at_root(("global", fv.classvar))
        obj: set = set()
        for r, l in base.obj:
            if r == FRESH:
                if fv.has_own:
                    obj.add((FRESH, 0))
            elif l == 0:
                if fv.has_own:
                    obj.add((r, 1))
                if fv.has_shared:
                    obj.add((r, AT1))
            elif l == 1:
                if fv.has_own:
                    obj.add((r, 1))
                if fv.has_shared:
                    obj.add((r, ANY))
            else:
                obj.add((r, _DEEPER[l]))
        if fv.has_shared:
            for r in base.content[0]:
                obj.add((r, ANY))
        if fv.has_shared or fv.content_shared:
            # what the field's object holds came from outside the instance: anything the instance can reach
            allr = base.roots
            content = (allr,) * K
        else:
            content = _NOC
        return Value(frozenset(obj), content)

    # ------------------------------------------------------------------ calls
    def bind(self, callee: FuncInfo, call: ast.Call, f: FuncInfo, ctor: bool = False) -> dict[str, Value]:
        """Values (in the caller's terms) of the callee's parameters at this call."""
        a = callee.node.args
        pos = [p.arg for p in [*a.posonlyargs, *a.args]]
        out: dict[str, Value] = {}
        sn = self.self_name(callee)
        if sn is not None and pos and pos[0] == sn:
            pos = pos[1:]
            explicit_dunder = isinstance(call.func, ast.Attribute) and call.func.attr == callee.name
            if ctor or (callee.name in ("__init__", "__post_init__", "__new__") and not explicit_dunder):
                out[sn] = NEW
            elif callee.is_classmethod:
                out[sn] = at_root(("global", callee.cls.fq))
            elif isinstance(call.func, ast.Attribute):
                out[sn] = self.value(f, call.func.value)
            else:
                out[sn] = EMPTY
        i = 0
        for x in call.args:
            if isinstance(x, ast.Starred):
                v = elem(self.value(f, x.value))
                for p in pos[i:]:
                    out[p] = out.get(p, EMPTY) | v
                if a.vararg is not None:
                    out[a.vararg.arg] = out.get(a.vararg.arg, EMPTY) | wrap([v])
                break
            if i < len(pos):
                out[pos[i]] = self.value(f, x)
            elif a.vararg is not None:
                out[a.vararg.arg] = out.get(a.vararg.arg, EMPTY) | wrap([self.value(f, x)])
            i += 1
        names = set(callee.param_names)
        special = {x.arg for x in (a.vararg, a.kwarg) if x is not None}
        for k in call.keywords:
            if k.arg is None:
                v = elem(self.value(f, k.value))
                for p in names:
                    if p not in out and p not in special:
                        out[p] = v
                if a.kwarg is not None:
                    out[a.kwarg.arg] = out.get(a.kwarg.arg, EMPTY) | wrap([v])
            elif k.arg in names and k.arg not in special:
                out[k.arg] = self.value(f, k.value)
            elif a.kwarg is not None:
                out[a.kwarg.arg] = out.get(a.kwarg.arg, EMPTY) | wrap([self.value(f, k.value)])
        return out

    def translate(self, v: Value, callee: FuncInfo, binding: dict[str, Value]) -> Value:
        """A value expressed in the callee's roots, re-expressed in the caller's."""
        obj: set = set()
        parts: list[tuple] = []
        for r, l in v.obj:
            a = self._bound(r, callee, binding)
            if a is None:
                obj.add((r, l))
                continue
            pa = project(a, l)
            obj |= pa.obj
            parts.append(pa.content)
        for i, c in enumerate(v.content):
            for r in c:
                a = self._bound(r, callee, binding)
                if a is None:
                    lv = [frozenset()] * K
                    lv[i] = frozenset({r})
                    parts.append(tuple(lv))
                else:
                    # "an object of / inside the parameter at depth i+1": the depth inside the argument is not known
                    lv = [frozenset()] * K
                    lv[i] = a.roots
                    parts.append(tuple(lv))
        return Value(frozenset(obj), join_content(parts))

    def _bound(self, r: Root, callee: FuncInfo, binding: dict[str, Value]) -> Value | None:
        if r == FRESH:
            return None
        if r[0] == "self" and r[1] == callee.fq:
            return binding.get(self.self_name(callee) or "self", EMPTY)
        if r[0] == "param" and r[1] == callee.fq:
            return binding.get(r[2], EMPTY)
        return None

    def ret(self, g: FuncInfo) -> Value:
        if g.fq in self._ret:
            return self._ret[g.fq]
        key = ("ret", g.fq)
        if key in self._busy:
            self._cycles += 1
            return EMPTY
        self._busy.add(key)
        c0 = self._cycles
        out = EMPTY
        try:
            if isinstance(g.node, ast.Lambda):
                out = self.value(g, g.node.body)
            else:
                yields: list[Value] = []
                spread: list[Value] = []
                gen = False
                for n in own_nodes(g.node):
                    if isinstance(n, ast.Return) and n.value is not None:
                        out = out | self.value(g, n.value)
                    elif isinstance(n, ast.Yield):
                        gen = True
                        if n.value is not None:
                            yields.append(self.value(g, n.value))
                    elif isinstance(n, ast.YieldFrom):
                        gen = True
                        spread.append(self.value(g, n.value))
                if gen:
                    out = wrap(yields) | (same_elems(spread) if spread else EMPTY)
        finally:
            self._busy.discard(key)
        if self._cycles == c0 or not self._busy:
            self._ret[g.fq] = out
        return out

    def _apply(self, callee: FuncInfo, binding: dict[str, Value], f: FuncInfo) -> Value:
        return self.translate(self.ret(callee), callee, binding)

    def _arg_values(self, f: FuncInfo, call: ast.Call) -> list[Value]:
        out = []
        for a in call.args:
            out.append(elem(self.value(f, a.value)) if isinstance(a, ast.Starred) else self.value(f, a))
        for k in call.keywords:
            out.append(elem(self.value(f, k.value)) if k.arg is None else self.value(f, k.value))
        return out

    def _call(self, f: FuncInfo, call: ast.Call) -> Value:
        fn = call.func
        T = self.T
        if isinstance(fn, ast.Name):
            shadowed = fn.id in T.locals(f) or self.repo.resolve_name(f.module, fn) is not None
            if not shadowed:
                n = fn.id
                if n in SCALAR_BUILTINS:
                    return EMPTY
                if n in ("list", "set", "tuple", "frozenset", "sorted", "dict", "deque", "Counter", "OrderedDict"):
                    return same_elems(self._arg_values(f, call)[:1]) | (wrap([self.value(f, k.value) for k in call.keywords if k.arg not in (None, "key", "reverse")]) if call.keywords else EMPTY) if (call.args or call.keywords) else NEW
                if n in CONTAINER_BUILDERS:
                    return wrap(self._arg_values(f, call))
                if n == "map":
                    return wrap(self._arg_values(f, call))
                if n in ("iter", "reversed", "filter"):
                    return view_of([self.value(f, a) for a in call.args[-1:]])
                if n in ("enumerate", "zip"):
                    return tuples_of([self.value(f, a) for a in call.args])
                if n in SELECTORS:
                    out = EMPTY
                    for a in call.args:
                        out = out | (elem(self.value(f, a)) if len(call.args) == 1 or n == "next" else self.value(f, a))
                    return out
                if n == "getattr" and call.args:
                    if len(call.args) > 1 and isinstance(call.args[1], ast.Constant) and isinstance(call.args[1].value, str):
                        synth = ast.Attribute(value=call.args[0], attr=call.args[1].value, ctx=ast.Load())
                        ast.copy_location(synth, call)
                        v = self._attribute(f, synth)
                    else:
                        v = self._any_field(f, call.args[0])
                    if len(call.args) > 2:
                        v = v | self.value(f, call.args[2])
                    return v
                if n == "vars" and call.args:
                    return self.value(f, call.args[0])
                if n == "super":
                    owner = owner_of(f)
                    sn = self.self_name(owner)
                    return self.name_value(owner, sn) if sn else EMPTY
                if n == "cast" and len(call.args) == 2:
                    return self.value(f, call.args[1])
                if n in ("object", "Exception") or n.endswith("Error"):
                    return wrap(self._arg_values(f, call))
        # library functions with a known relation between argument and result
        lib = self.repo.resolve_name(f.module, fn) if isinstance(fn, (ast.Name, ast.Attribute)) else None
        if lib is not None and not lib.startswith("pytestarch"):
            tail = lib.rsplit(".", 1)[-1]
            if lib == "networkx.freeze" and call.args:
                return self.value(f, call.args[0])
            if tail == "deepcopy":
                return NEW
            if lib in ("typing.cast",) and len(call.args) == 2:
                return self.value(f, call.args[1])
            if lib in ("dataclasses.replace", "copy.copy", "copy.replace") and call.args:
                return same_elems([self.value(f, call.args[0])]) | wrap([self.value(f, k.value) for k in call.keywords])
            if lib in ("itertools.chain",):
                return same_elems(self._arg_values(f, call))
            if lib in ("itertools.product", "itertools.zip_longest", "itertools.combinations", "itertools.permutations"):
                return tuples_of(self._arg_values(f, call))
            return wrap(self._arg_values(f, call))
        ctor = T.ctor_class(f, call)
        try:
            cs, how = T.callees(f, call, byname_fallback=False)
        except Exception:  # noqa: BLE001
            cs, how = [], "unresolved"
        if ctor is not None:
            return wrap(self._arg_values(f, call))
        if cs:
            out = EMPTY
            for c in cs:
                if c.is_abstract:
                    continue
                if c.name in ("__init__", "__post_init__"):
                    out = out | wrap(self._arg_values(f, call))
                    continue
                out = out | self._apply(c, self.bind(c, call, f), f)
            return out
        if isinstance(fn, ast.Attribute):
            recv = self.value(f, fn.value)
            attr = fn.attr
            if attr in COPYING_METHODS:
                return same_elems([recv, *self._arg_values(f, call)])
            if attr in ("get", "pop", "popitem", "popleft", "__getitem__"):
                out = elem(recv)
                if attr == "get" and len(call.args) > 1:
                    out = out | self.value(f, call.args[1])
                return out
            if attr == "setdefault":
                out = elem(recv)
                if len(call.args) > 1:
                    out = out | self.value(f, call.args[1])
                return out
            if attr in ("keys", "values"):
                return view_of([recv])
            if attr == "items":
                return tuples_of([recv])
            if attr in TEXT_METHODS:
                return EMPTY
            if attr in ALL_MUTATORS:
                return EMPTY
            # unknown method of a library / unknown object: a new object, or something stored inside the receiver
            e = elem(recv)
            return Value(e.obj | frozenset({(FRESH, 0)}), join_content([e.content, *(shifted(a, 1) for a in self._arg_values(f, call))]))
        # call of a callable parameter / unknown name
        return wrap(self._arg_values(f, call))

    def _any_field(self, f: FuncInfo, base_e: ast.expr) -> Value:
        """`getattr(o, name)` with a computed name: join over the instance fields of o's class."""
        base = self.value(f, base_e)
        bt = self.type_of(f, base_e)
        out = EMPTY
        resolved = False
        for m in members(bt):
            if m[0] == "cls" and m[1] in self.repo.classes:
                ci = self.repo.classes[m[1]]
                names: set[str] = set()
                for c in self.repo.mro(ci):
                    names |= set(c.ann_attrs)
                if self._store_index is None:
                    self._build_store_index()
                hier = {c.fq for c in self.hierarchy(ci)}
                names |= {a for (cfq, a) in self._store_index if cfq in hier}  # type: ignore[union-attr]
                if names:
                    resolved = True
                    for a in sorted(names):
                        out = out | self._field_read(base, self.field(ci, a))
        if not resolved:
            out = elem(base)
        return out

    # ------------------------------------------------------------------ writes
    def writes(self, f: FuncInfo) -> list[Write]:
        if f.fq in self._writes:
            return self._writes[f.fq]
        out: list[Write] = []
        self._writes[f.fq] = out

        def path_of(recv: ast.AST, suffix: str = "") -> str:
            _root, path = root_name(recv)
            parts = [p for p in path if p not in ("[]",)]
            if suffix:
                parts.append(suffix)
            return ".".join(parts)

        def store(t: ast.AST, n: ast.AST, aug: ast.AST | None = None) -> None:
            if isinstance(t, (ast.Tuple, ast.List)):
                for el in t.elts:
                    store(el, n, aug)
            elif isinstance(t, ast.Starred):
                store(t.value, n, aug)
            elif isinstance(t, ast.Attribute):
                out.append(Write(f, n, t.value, "attr-store", t.attr, "set", path_of(t.value, t.attr)))
            elif isinstance(t, ast.Subscript):
                out.append(Write(f, n, t.value, "item-store", "[]", "grow", path_of(t.value)))
            elif isinstance(t, ast.Name) and aug is not None:
                if any(m[0] == "b" and m[1] in ("list", "set", "dict", "seq", "iter") for m in members(self.type_of(f, t))):
                    op = aug.op  # type: ignore[attr-defined]
                    out.append(Write(f, n, t, "aug", type(op).__name__, "shrink" if isinstance(op, (ast.Sub, ast.BitAnd)) else "grow", ""))

        for n in own_nodes(f.node):
            if isinstance(n, ast.Assign):
                for t in n.targets:
                    store(t, n)
            elif isinstance(n, ast.AnnAssign) and n.value is not None:
                store(n.target, n)
            elif isinstance(n, ast.AugAssign):
                store(n.target, n, n)
            elif isinstance(n, ast.Delete):
                for t in n.targets:
                    if isinstance(t, ast.Attribute):
                        out.append(Write(f, n, t.value, "del", t.attr, "shrink", path_of(t.value, t.attr)))
                    elif isinstance(t, ast.Subscript):
                        out.append(Write(f, n, t.value, "del", "[]", "shrink", path_of(t.value)))
            elif isinstance(n, ast.Call) and isinstance(n.func, ast.Attribute) and n.func.attr in ALL_MUTATORS:
                ms = members(self.type_of(f, n.func.value))
                if any(m[0] == "cls" and m[1] in self.repo.classes and self.repo.lookup_method(self.repo.classes[m[1]], n.func.attr) for m in ms):
                    continue  # a repo method of that name: followed through the call graph
                if any(m[0] == "b" and m[1] == "str" for m in ms) or any(m[0] == "lib" and m[1] in ("pathlib.Path", "re.Match", "re.Pattern") for m in ms):
                    continue
                if any(m[0] in ("type", "libref") for m in ms) and len(ms) == 1:
                    continue
                if n.func.attr in LIB_MUTATORS and not any(m[0] in ("lib", "unknown") for m in ms):
                    continue
                a = n.func.attr
                klass = "grow" if a in GROW else "shrink" if a in SHRINK else "reorder" if a in REORDER else "set"
                out.append(Write(f, n, n.func.value, f"call:{a}", a, klass, path_of(n.func.value)))
            elif isinstance(n, ast.Call) and isinstance(n.func, ast.Name) and n.func.id in ("setattr", "delattr") and n.args:
                out.append(Write(f, n, n.args[0], "setattr", n.func.id, "set" if n.func.id == "setattr" else "shrink", path_of(n.args[0], "?")))
            elif isinstance(n, ast.Call) and isinstance(n.func, ast.Attribute) and n.func.attr in ("__setattr__", "__setitem__", "__delitem__", "__delattr__") and n.args:
                # object.__setattr__(obj, name, value) writes to its first argument, x.__setitem__(k, v) / super().__setattr__(..) to the receiver
                tgt = n.args[0] if isinstance(n.func.value, ast.Name) and n.func.value.id == "object" else n.func.value
                out.append(Write(f, n, tgt, "setattr", n.func.attr, "set", path_of(tgt, "?")))
        out += self.extra_writes.get(f.fq, [])
        return out

    def register_cached_property(self, f: FuncInfo) -> None:
        """The first read of the cached property `f` stores the computed value in the instance: a write to `self`."""
        sn = self.self_name(f)
        if sn is None or f.fq in self.extra_writes:
            return
        recv = ast.Name(id=sn, ctx=ast.Load())
        self.extra_writes[f.fq] = [Write(f, f.node, recv, "attr-store", f.name, "set", f.name)]
        self._writes.pop(f.fq, None)

    def targets(self, w: Write) -> frozenset:
        """(root, level) tags of the object a write modifies."""
        g = self.global_root(w.fi, w.recv) if isinstance(w.recv, ast.Name) else None
        if g is not None:
            return frozenset({(("global", g), 0)})
        v = self.value(w.fi, w.recv)
        if not v.obj:
            if isinstance(w.recv, ast.expr) and self.immutable(w.fi, w.recv):
                return frozenset()
            if self._is_builtin_or_missing(w.fi, w.recv):
                return frozenset({(("unknown", ast.unparse(w.recv)[:40]), 0)})
            return frozenset()
        return v.obj

    def _is_builtin_or_missing(self, f: FuncInfo, e: ast.AST) -> bool:
        root, _p = root_name(e)
        if isinstance(root, ast.Name):
            g: FuncInfo | None = f
            while g is not None:
                self._scan(g)
                if root.id in g.param_names or root.id in self._bindings[g.fq]:
                    return False
                g = g.outer
            return self.global_root(f, root) is None and root.id not in f.module.classes and root.id not in f.module.functions
        return False


@dataclass
class Effect:
    tag: Tag
    write: Write
    path: list[str] = field(default_factory=list)  # call path (function fq names) from the function owning the summary to the write
    where: str = ""  # attribute path below the root, as far as it is syntactically known


class EffectSummaries:
    """For every function of a region: the non-fresh objects it may write to, transitively through its callees."""

    def __init__(self, repo: Repo, types: Types, roots: Roots, region: list[FuncInfo], skip=None, byname: bool = True) -> None:
        self.repo = repo
        self.T = types
        self.R = roots
        self.region = list(region)
        self.inregion = set(self.region)
        self.skip = skip or (lambda w: False)
        self.byname = byname
        self.eff: dict[FuncInfo, dict[tuple, Effect]] = {f: {} for f in self.region}
        self.fresh_writes = 0
        self.skipped: list[Write] = []
        self._edges: dict[FuncInfo, list[tuple[FuncInfo, dict[str, Value]]]] = {}
        self._children: dict[FuncInfo, list[FuncInfo]] = {}
        for g in self.region:
            if g.outer is not None and g.outer in self.inregion:
                self._children.setdefault(g.outer, []).append(g)
        self._run()

    def _add(self, f: FuncInfo, tag: Tag, w: Write, path: list[str], where: str) -> bool:
        key = (tag, w.klass, where)
        if key in self.eff[f]:
            return False
        self.eff[f][key] = Effect(tag, w, path, where)
        return True

    def _call_edges(self, f: FuncInfo) -> list[tuple[FuncInfo, dict[str, Value]]]:
        if f in self._edges:
            return self._edges[f]
        out: list[tuple[FuncInfo, dict[str, Value]]] = []
        R, T = self.R, self.T
        for n in own_nodes(f.node):
            if isinstance(n, ast.Call):
                try:
                    cs, _how = T.callees(f, n, byname_fallback=self.byname)
                except Exception:  # noqa: BLE001
                    cs = []
                ctor = T.ctor_class(f, n) is not None
                for g in cs:
                    if g in self.inregion:
                        out.append((g, R.bind(g, n, f, ctor=ctor and g.name in ("__init__", "__post_init__"))))
                # callables handed to another function may be called by it: their own parameters are bound to nothing we know
            elif isinstance(n, ast.Attribute) and isinstance(n.ctx, ast.Load):
                try:
                    bt = T.expr(f, n.value)
                except Exception:  # noqa: BLE001
                    continue
                for m in members(bt):
                    if m[0] == "cls" and m[1] in self.repo.classes:
                        ci = self.repo.classes[m[1]]
                        meth = self.repo.lookup_method(ci, n.attr)
                        if meth is not None and (meth.is_property or "cached_property" in meth.decorators):
                            for impl in self.repo.implementations(ci, n.attr):
                                if impl in self.inregion:
                                    out.append((impl, {R.self_name(impl) or "self": R.value(f, n.value)}))
        self._edges[f] = out
        return out

    def _run(self) -> None:
        R = self.R
        for f in self.region:
            for w in R.writes(f):
                if self.skip(w):
                    self.skipped.append(w)
                    continue
                tags = R.targets(w)
                if all(r == FRESH for r, _l in tags):
                    self.fresh_writes += 1
                for tag in tags:
                    if tag[0] == FRESH:
                        continue
                    self._add(f, tag, w, [f.fq], w.path)
        changed = True
        rounds = 0
        while changed and rounds < 40:
            changed = False
            rounds += 1
            for f in self.region:
                # nested functions and lambdas act on behalf of the enclosing function
                for g in self._children.get(f, []):
                    for (tag, _k, where), e in list(self.eff[g].items()):
                        r = tag[0]
                        if (r[0] in ("self", "param") and r[1] != g.fq) or r[0] in ("global", "unknown"):
                            if self._add(f, tag, e.write, [f.fq] + e.path, where):
                                changed = True
                for g, binding in self._call_edges(f):
                    for (tag, _k, where), e in list(self.eff[g].items()):
                        r, l = tag
                        a = R._bound(r, g, binding)
                        if a is None:
                            if r[0] in ("global", "unknown"):
                                if self._add(f, tag, e.write, [f.fq] + e.path, where):
                                    changed = True
                            continue
                        new = project(a, l).obj
                        for nt in new:
                            if nt[0] == FRESH:
                                continue
                            if self._add(f, nt, e.write, [f.fq] + e.path, where):
                                changed = True
        self.rounds = rounds

    def of(self, f: FuncInfo) -> list[Effect]:
        return list(self.eff.get(f, {}).values())
