"""C15.R5 - order-independent selection.

In a loop over a collection whose order is not part of the contract, the decision to keep or drop an element must not depend on
what earlier iterations of the same loop have accumulated - unless it is a pure de-duplication on the element's own identity
(`x in seen` / `seen.add(x)` with the same x, and x is what is kept).  Order dependent are in particular

  * a seen-set keyed by a value *derived* from the element (`p.resolve()`, `name.lower()`, a prefix) while the element itself
    is kept: which of two elements with the same key survives is decided by the order;
  * any other test against the collection built so far (`any(x.startswith(r) for r in kept)`, `len(kept) < n`, `if kept:`):
    a non-symmetric relation evaluated against "the elements before me" only.

Testing against a collection that is complete before the loop starts (today's sorted list of all names), or iterating a sorted
copy, is order independent and not reported.  Nothing is executed; loops are analysed on the inlined view of their function, so
tests and accumulation extracted into helpers are seen.
"""

from __future__ import annotations

import ast

from core.inline_stmt import Inliner, _recopy
from core.loader import FuncInfo, Repo, norm, own_nodes

from .common import dotted

GROWERS = {"add", "update", "append", "extend", "insert", "setdefault", "appendleft"}
BULK = {"update", "extend"}
POPPERS = {"pop", "popleft", "popitem"}
DIR_LISTING = {"iterdir", "glob", "rglob", "scandir", "listdir", "walk", "iglob"}


def names_of(e: ast.AST) -> set[str]:
    return {n.id for n in ast.walk(e) if isinstance(n, ast.Name)}


def _stmts(block: list[ast.stmt]):
    """All nodes of a block, not descending into nested function / class definitions."""
    stack = list(reversed(block))
    while stack:
        n = stack.pop()
        yield n
        if isinstance(n, (ast.FunctionDef, ast.AsyncFunctionDef, ast.Lambda, ast.ClassDef)):
            continue
        stack.extend(reversed(list(ast.iter_child_nodes(n))))


class LoopInfo:
    def __init__(self, fn: FuncInfo, loop: ast.AST, elems: set[str], body: list[ast.stmt], source: list[ast.expr], worklist: str | None) -> None:
        self.fn = fn
        self.loop = loop
        self.elems = elems
        self.body = body
        self.source = source  # expressions the elements come from (the iterable; for a worklist: what is pushed onto it)
        self.worklist = worklist


def loops_of(v: FuncInfo) -> list[LoopInfo]:
    """`for` loops and worklist loops (`while w: x = w.pop()`) of a function (view)."""
    out: list[LoopInfo] = []
    if isinstance(v.node, ast.Lambda):
        return out
    for lp in own_nodes(v.node):
        if isinstance(lp, (ast.For, ast.AsyncFor)):
            out.append(LoopInfo(v, lp, names_of(lp.target), lp.body, [lp.iter], None))
        elif isinstance(lp, ast.While):
            tested = {dotted(x) for x in ast.walk(lp.test) if isinstance(x, (ast.Name, ast.Attribute)) and dotted(x)}
            for st in lp.body[:3]:
                if isinstance(st, (ast.Assign, ast.AnnAssign)) and st.value is not None and isinstance(st.value, ast.Call):
                    c = st.value
                    w = None
                    if isinstance(c.func, ast.Attribute) and c.func.attr in POPPERS and dotted(c.func.value) in tested:
                        w = dotted(c.func.value)
                    elif isinstance(c.func, ast.Name) and c.func.id in ("heappop", "next") and c.args and dotted(c.args[0]) in tested:
                        w = dotted(c.args[0])
                    if w:
                        tg = st.targets if isinstance(st, ast.Assign) else [st.target]
                        elems: set[str] = set()
                        for t in tg:
                            elems |= names_of(t)
                        # what feeds the worklist: its initial value and everything pushed onto it in this function
                        src: list[ast.expr] = []
                        for n in own_nodes(v.node):
                            if isinstance(n, (ast.Assign, ast.AnnAssign)) and n.value is not None and any(dotted(t) == w for t in (n.targets if isinstance(n, ast.Assign) else [n.target])):
                                src.append(n.value)
                            elif isinstance(n, ast.Call) and isinstance(n.func, ast.Attribute) and n.func.attr in GROWERS and dotted(n.func.value) == w:
                                src += list(n.args)
                            elif isinstance(n, ast.AugAssign) and dotted(n.target) == w:
                                src.append(n.value)
                        out.append(LoopInfo(v, lp, elems, lp.body, src, w))
                        break
    return out


class Finding:
    def __init__(self, info: LoopInfo, test: ast.AST, container: str, why: str) -> None:
        self.info = info
        self.test = test
        self.container = container
        self.why = why


def _definitions(body: list[ast.stmt]) -> tuple[dict[str, ast.expr], set[str]]:
    """Locals bound exactly once in the block by a plain assignment (name -> value), and every name (re)bound in it."""
    counts: dict[str, int] = {}
    vals: dict[str, ast.expr] = {}
    for n in _stmts(body):
        if isinstance(n, ast.Name) and isinstance(n.ctx, ast.Store):
            counts[n.id] = counts.get(n.id, 0) + 1
        if isinstance(n, (ast.Assign, ast.AnnAssign)) and getattr(n, "value", None) is not None:
            for t in (n.targets if isinstance(n, ast.Assign) else [n.target]):
                if isinstance(t, ast.Name):
                    vals[t.id] = n.value
    return {k: e for k, e in vals.items() if counts.get(k) == 1}, {k for k in counts}


def analyse(info: LoopInfo) -> list[Finding]:
    body = info.body
    single, bound = _definitions(body)
    plain_rebound: set[str] = set()
    for n in _stmts(body):
        if isinstance(n, (ast.Assign, ast.AnnAssign)) and getattr(n, "value", None) is not None:
            for t in (n.targets if isinstance(n, ast.Assign) else [n.target]):
                plain_rebound |= {x.id for x in ast.walk(t) if isinstance(x, ast.Name) and isinstance(x.ctx, ast.Store)}
        elif isinstance(n, (ast.For, ast.AsyncFor, ast.comprehension)):
            plain_rebound |= names_of(n.target)
    # values derived from the current element
    derived: set[str] = set(info.elems)
    # (may-dependence: a local bound on several paths - `name = root if top else f"{root}.{dotted}"` written as if / else, a
    # helper expanded in place - depends on the element when one of its bindings does)
    bindings: dict[str, list[ast.expr]] = {}
    for n in _stmts(body):
        if isinstance(n, (ast.Assign, ast.AnnAssign)) and getattr(n, "value", None) is not None:
            for t in (n.targets if isinstance(n, ast.Assign) else [n.target]):
                if isinstance(t, ast.Name):
                    bindings.setdefault(t.id, []).append(n.value)
    changed = True
    while changed:
        changed = False
        for name, vals in bindings.items():
            if name not in derived and any(names_of(val) & derived for val in vals):
                derived.add(name)
                changed = True
    # accumulators: containers that exist before the loop and are grown inside it
    grows: dict[str, list[tuple[ast.AST, ast.expr | None, bool]]] = {}  # container -> (node, key, bulk)
    for n in _stmts(body):
        if isinstance(n, ast.Call) and isinstance(n.func, ast.Attribute) and n.func.attr in GROWERS:
            recv = dotted(n.func.value)
            if recv and recv.split(".")[0] not in plain_rebound and recv != info.worklist:
                key = n.args[0] if n.args else None
                if n.func.attr == "insert" and len(n.args) > 1:
                    key = n.args[1]
                grows.setdefault(recv, []).append((n, key, n.func.attr in BULK))
        elif isinstance(n, ast.Assign):
            for t in n.targets:
                if isinstance(t, ast.Subscript):
                    recv = dotted(t.value)
                    if recv and recv.split(".")[0] not in plain_rebound and recv != info.worklist:
                        grows.setdefault(recv, []).append((n, t.slice, False))
        elif isinstance(n, ast.AugAssign) and isinstance(n.op, (ast.Add, ast.BitOr)):
            recv = dotted(n.target)
            if recv and recv.split(".")[0] not in plain_rebound and recv != info.worklist:
                try:
                    is_container = isinstance(n.value, (ast.List, ast.Set, ast.Tuple, ast.ListComp, ast.SetComp, ast.Dict, ast.Call))
                except Exception:  # noqa: BLE001
                    is_container = False
                if is_container:
                    grows.setdefault(recv, []).append((n, None, True))
    if not grows:
        return []

    def expand(e: ast.expr, depth: int = 0) -> list[ast.expr]:
        """The expression and the definitions of the boolean locals it tests."""
        out = [e]
        if depth < 3:
            for n in ast.walk(e):
                if isinstance(n, ast.Name) and n.id in single and n.id not in info.elems and isinstance(single[n.id], (ast.Call, ast.Compare, ast.BoolOp, ast.UnaryOp, ast.IfExp, ast.GeneratorExp, ast.ListComp)):
                    out += expand(single[n.id], depth + 1)
        return out

    tests: list[tuple[ast.AST, ast.expr]] = []  # (owner statement / expression, test)
    for n in _stmts(body):
        if isinstance(n, (ast.If, ast.While)):
            tests.append((n, n.test))
        elif isinstance(n, ast.IfExp):
            tests.append((n, n.test))
        elif isinstance(n, ast.comprehension):
            for c in n.ifs:
                tests.append((n, c))
        elif isinstance(n, ast.Assert):
            tests.append((n, n.test))
    # loop-carried flags: `found = True` under a state test, tested later
    out: list[Finding] = []
    reported: set[tuple[int, str]] = set()

    def reads(e: ast.AST, container: str, tainted: set[str]) -> bool:
        """`e` looks at the collection as a whole (iterates it, measures it, copies it) - not just one slot of it."""
        lookups = set()
        for c in ast.walk(e):
            if isinstance(c, ast.Subscript) and dotted(c.value) == container:
                lookups |= {id(x) for x in ast.walk(c.value)}
            elif isinstance(c, ast.Call) and isinstance(c.func, ast.Attribute) and c.func.attr in ("get", "setdefault", "pop", "__getitem__", "__contains__") and dotted(c.func.value) == container:
                lookups |= {id(x) for x in ast.walk(c.func.value)}
            elif isinstance(c, ast.Compare) and len(c.ops) == 1 and isinstance(c.ops[0], (ast.In, ast.NotIn)) and dotted(c.comparators[0]) == container:
                lookups |= {id(x) for x in ast.walk(c.comparators[0])}
        for x in ast.walk(e):
            if id(x) in lookups:
                continue
            if isinstance(x, ast.Name) and x.id in tainted and isinstance(x.ctx, ast.Load):
                return True
            if isinstance(x, ast.Attribute) and dotted(x) == container and isinstance(x.ctx, ast.Load):
                return True
        return False

    def taint(container: str) -> set[str]:
        """Locals whose value depends on what the collection holds so far: bound by (or inside) an iteration over it, or computed
        from it as a whole."""
        tainted: set[str] = {container} if "." not in container else set()
        changed = True
        while changed:
            changed = False
            for n in _stmts(body):
                new: set[str] = set()
                if isinstance(n, (ast.For, ast.AsyncFor)) and reads(n.iter, container, tainted):
                    new |= names_of(n.target)
                    for m in _stmts(n.body):
                        if isinstance(m, (ast.Assign, ast.AnnAssign, ast.AugAssign)):
                            for t in (m.targets if isinstance(m, ast.Assign) else [m.target]):
                                new |= {x.id for x in ast.walk(t) if isinstance(x, ast.Name) and isinstance(x.ctx, ast.Store)}
                elif isinstance(n, (ast.Assign, ast.AnnAssign)) and getattr(n, "value", None) is not None and reads(n.value, container, tainted):
                    for t in (n.targets if isinstance(n, ast.Assign) else [n.target]):
                        if isinstance(t, ast.Name):
                            new.add(t.id)
                new -= info.elems
                if not new <= tainted:
                    tainted |= new
                    changed = True
        tainted.discard(container)
        return tainted

    # keys under which each accumulator is looked up anywhere in the body (a helper expanded at two call sites tests the same
    # set under two local names)
    looked_up: dict[str, set[str]] = {}
    for _owner, test in tests:
        for p in expand(test):
            for c in ast.walk(p):
                if isinstance(c, ast.Compare) and len(c.ops) == 1 and isinstance(c.ops[0], (ast.In, ast.NotIn)):
                    right = c.comparators[0]
                    if isinstance(right, ast.Call) and isinstance(right.func, ast.Attribute) and right.func.attr == "keys":
                        right = right.func.value
                    if dotted(right):
                        looked_up.setdefault(dotted(right), set()).add(norm(c.left))
                elif isinstance(c, ast.Call) and isinstance(c.func, ast.Attribute) and c.func.attr in ("get", "__contains__") and dotted(c.func.value) and c.args:
                    looked_up.setdefault(dotted(c.func.value), set()).add(norm(c.args[0]))
    for owner, test in tests:
        parts = expand(test)
        for container, events in grows.items():
            tainted = taint(container)
            mentions = [x for p in parts for x in ast.walk(p) if isinstance(x, (ast.Name, ast.Attribute)) and isinstance(getattr(x, "ctx", None), ast.Load) and (dotted(x) == container or (isinstance(x, ast.Name) and x.id in tainted))]
            if not mentions:
                continue
            # every mention must be the right-hand side of a membership test
            memberships: list[ast.expr] = []  # keys
            other = False
            covered: set[int] = set()
            for p in parts:
                for c in ast.walk(p):
                    if isinstance(c, ast.Compare) and len(c.ops) == 1 and isinstance(c.ops[0], (ast.In, ast.NotIn)):
                        right = c.comparators[0]
                        if isinstance(right, ast.Call) and isinstance(right.func, ast.Attribute) and right.func.attr == "keys":
                            right = right.func.value
                        if dotted(right) == container:
                            memberships.append(c.left)
                            covered |= {id(x) for x in ast.walk(c.comparators[0])}
                    elif isinstance(c, ast.Call) and isinstance(c.func, ast.Attribute) and c.func.attr in ("get", "__contains__") and dotted(c.func.value) == container and c.args:
                        memberships.append(c.args[0])
                        covered |= {id(x) for x in ast.walk(c.func.value)}
            if any(id(x) not in covered for x in mentions):
                other = True
            key_texts = {norm(k) for k in memberships}
            if (id(owner), container) in reported:
                continue
            if other:
                # a test against the elements kept so far that is not a membership test; only relevant when it involves the element
                if True:
                    reported.add((id(owner), container))
                    out.append(Finding(info, test, container, f"`{norm(test, 100)}` is evaluated against `{container}`, which holds only what earlier iterations have put there: whether an element passes depends on what came before it"))
                continue
            # membership only: slot initialisation of a mapping is no selection
            if isinstance(owner, ast.If) and not owner.orelse and all(_slot_init(st, container, key_texts) for st in owner.body):
                continue
            keys_ok = all(not bulk and key is not None and norm(key) in (key_texts | looked_up.get(container, set())) for _n, key, bulk in events)
            key_names: set[str] = set()
            for k in memberships:
                key_names |= names_of(k)
            if not (key_names & derived):
                continue  # the key has nothing to do with the current element
            if not keys_ok:
                # the container is (also) filled with other values than the one looked up (closure / memo idioms: `if k not in s:
                # s.update(parents_of(k))`): neither a de-duplication nor a recognised order-dependent selection
                continue
            identity = all(isinstance(k, ast.Name) and k.id in info.elems or (isinstance(k, ast.Tuple) and all(isinstance(x, ast.Name) and x.id in info.elems for x in k.elts)) for k in memberships)
            if identity:
                continue  # pure de-duplication on the element itself
            # keyed by a derived value: fine only if nothing but the key is kept
            key_locals = {n for k in memberships for n in names_of(k)}
            key_defs = {id(single[n]) for n in key_locals if n in single}
            uses_element = False
            for st in _stmts(body):
                if st is owner or (isinstance(st, (ast.Assign, ast.AnnAssign)) and getattr(st, "value", None) is not None and id(st.value) in key_defs):
                    continue
                if isinstance(st, ast.Name) and isinstance(st.ctx, ast.Load) and st.id in info.elems:
                    # skip occurrences inside the key definitions and inside the test itself
                    uses_element = True
            if uses_element:
                inside = {id(x) for n in key_locals if n in single for x in ast.walk(single[n])} | {id(x) for p in parts for x in ast.walk(p)} | {id(x) for _n, key, _b in events if key is not None for x in ast.walk(key)}
                # what is kept must be decided by the test: only uses of the element (or of values derived from it, other than
                # the key) that are control dependent on the test count - its branches, what follows a continue / break / return
                # taken in them, and what later tests of flags set in them guard
                governed = _governed(body, owner)
                kept_names = (derived - key_locals) | info.elems
                real = [st for st in _stmts(body) if isinstance(st, ast.Name) and isinstance(st.ctx, ast.Load) and st.id in kept_names and id(st) not in inside and id(st) in governed]
                if real:
                    reported.add((id(owner), container))
                    out.append(Finding(info, test, container, f"`{norm(test, 100)}` de-duplicates on the derived value `{', '.join(sorted(key_texts))}` while the element `{', '.join(sorted(info.elems))}` itself is kept: of two elements with the same key, the one that happens to come first wins"))
    return out


def _exits(block: list[ast.stmt]) -> bool:
    """The block can leave the current iteration early (continue / break / return / raise at its own loop level)."""
    stack = list(block)
    while stack:
        n = stack.pop()
        if isinstance(n, (ast.Continue, ast.Break, ast.Return, ast.Raise)):
            return True
        if isinstance(n, (ast.For, ast.AsyncFor, ast.While)):
            stack.extend(x for x in ast.walk(n) if isinstance(x, (ast.Return, ast.Raise)))
            continue
        if isinstance(n, (ast.FunctionDef, ast.AsyncFunctionDef, ast.ClassDef, ast.Lambda)):
            continue
        stack.extend(ast.iter_child_nodes(n))
    return False


def _governed(body: list[ast.stmt], owner: ast.AST) -> set[int]:
    """ids of the nodes of the loop body whose execution depends on the outcome of the test of `owner`."""
    out: set[int] = set()
    flags: set[str] = set()
    deciders: list[ast.AST] = [owner]
    seen: set[int] = set()

    def branches(n: ast.AST) -> list[list[ast.stmt]]:
        if isinstance(n, (ast.If, ast.While)):
            return [n.body, n.orelse]
        return []

    def following(block: list[ast.stmt], target: ast.AST) -> list[ast.stmt] | None:
        """Statements executed after `target` within the loop body (rest of every enclosing block)."""
        for i, st in enumerate(block):
            if st is target:
                return list(block[i + 1:])
            for fld in ("body", "orelse", "finalbody"):
                sub = getattr(st, fld, None)
                if isinstance(sub, list) and sub and isinstance(sub[0], ast.stmt):
                    r = following(sub, target)
                    if r is not None:
                        # leaving an inner loop's body continues that loop, not the rest of the outer block - still governed
                        return r + list(block[i + 1:])
            for h in getattr(st, "handlers", []) or []:
                r = following(h.body, target)
                if r is not None:
                    return r + list(block[i + 1:])
        return None

    while deciders:
        d = deciders.pop()
        if id(d) in seen:
            continue
        seen.add(id(d))
        if isinstance(d, ast.IfExp):
            region = [d.body, d.orelse]
            for e in region:
                out |= {id(x) for x in ast.walk(e)}
            continue
        if isinstance(d, ast.comprehension):
            continue
        blocks = branches(d)
        for b in blocks:
            for st in b:
                for x in ast.walk(st):
                    out.add(id(x))
                    if isinstance(x, ast.Name) and isinstance(x.ctx, ast.Store):
                        flags.add(x.id)
        if any(_exits(b) for b in blocks):
            rest = following(body, d) or []
            for st in rest:
                for x in ast.walk(st):
                    out.add(id(x))
        # later tests of the flags set in the governed region
        for n in _stmts(body):
            if isinstance(n, (ast.If, ast.While, ast.IfExp)) and id(n) not in seen and names_of(n.test) & flags:
                deciders.append(n)
    return out


def _slot_init(st: ast.stmt, container: str, key_texts: set[str]) -> bool:
    """`container[key] = <new value>` / `container.setdefault(key, ...)` / `x = container[key] = <new value>`."""
    if isinstance(st, ast.Assign):
        subs = [t for t in st.targets if isinstance(t, ast.Subscript)]
        others = [t for t in st.targets if not isinstance(t, (ast.Subscript, ast.Name))]
        return bool(subs) and not others and all(dotted(t.value) == container and norm(t.slice) in key_texts for t in subs)
    if isinstance(st, ast.Expr) and isinstance(st.value, ast.Call) and isinstance(st.value.func, ast.Attribute) and st.value.func.attr == "setdefault":
        return dotted(st.value.func.value) == container
    return False


def is_dir_listing(e: ast.AST) -> bool:
    for c in ast.walk(e):
        if isinstance(c, ast.Call):
            if isinstance(c.func, ast.Attribute) and c.func.attr in DIR_LISTING:
                return True
            if isinstance(c.func, ast.Name) and c.func.id in DIR_LISTING:
                return True
    return False


# --------------------------------------------------------------------------- test-and-set helpers


class _HoistingInliner(Inliner):
    """The inlined view, with one more form: a helper that is called *inside the test* of an `if` and has effects of its own
    (`if not self._register(name): continue` - the helper looks the name up in a set, adds it, and reports whether it was new).
    The call is moved in front of the `if` (`t = self._register(name)`; `if not t:`), where the ordinary assignment form expands
    the helper: its membership test and its additions become visible in the loop that calls it.  A call that is only evaluated
    when the operands before it hold (`a and not helper(x)`) is moved into an `if` of these operands."""

    def _has_effects(self, callee: FuncInfo) -> bool:
        for n in own_nodes(callee.node):
            if isinstance(n, ast.Call) and isinstance(n.func, ast.Attribute) and n.func.attr in GROWERS | {"remove", "discard", "pop", "clear"}:
                return True
            if isinstance(n, (ast.Assign, ast.AugAssign, ast.AnnAssign)):
                tg = n.targets if isinstance(n, ast.Assign) else [n.target]
                if any(isinstance(t, (ast.Attribute, ast.Subscript)) for t in tg):
                    return True
        return False

    def _hoistable(self, ctx: FuncInfo, e: ast.AST, stack: tuple) -> ast.Call | None:
        """The call evaluated first by the test `e`, if it is a helper with effects that the assignment form can expand."""
        while True:
            if isinstance(e, ast.UnaryOp) and isinstance(e.op, ast.Not):
                e = e.operand
            elif isinstance(e, ast.Compare):
                e = e.left
            elif isinstance(e, ast.BoolOp):
                e = e.values[0]
            else:
                break
        if not isinstance(e, ast.Call) or len(stack) > self.max_depth:
            return None
        callee = self._resolve(ctx, e)
        if callee is None or callee.fq in stack or not self._eligible(ctx, callee, "assign") or not self._has_effects(callee):
            return None
        return e

    def _block(self, ctx, stmts, taken, origin, stack):
        out: list[ast.stmt] = []
        for s in stmts:
            if isinstance(s, ast.If):
                s = self._split_and(ctx, s, stack)
                call = self._hoistable(ctx, s.test, stack)
                if call is not None:
                    name = self._fresh("outcome", getattr(call.func, "attr", getattr(call.func, "id", "call")), taken)
                    taken.add(name)
                    tmp = ast.copy_location(ast.Assign(targets=[ast.Name(id=name, ctx=ast.Store())], value=call), s)
                    ast.fix_missing_locations(tmp)
                    if hasattr(s, "_src"):
                        tmp._src = s._src  # type: ignore[attr-defined]
                    ref = ast.copy_location(ast.Name(id=name, ctx=ast.Load()), call)
                    s.test = _replace(s.test, call, ref)
                    out.append(tmp)
            out.append(s)
        return super()._block(ctx, out, taken, origin, stack)

    def _split_and(self, ctx, s: ast.If, stack) -> ast.If:
        """`if a and <test starting with an effectful helper call>: B` (no else)  ->  `if a: if <test>: B`."""
        t = s.test
        if isinstance(t, ast.BoolOp) and isinstance(t.op, ast.And) and not s.orelse:
            for i in range(1, len(t.values)):
                if self._hoistable(ctx, t.values[i], stack) is not None:
                    first = t.values[0] if i == 1 else ast.copy_location(ast.BoolOp(op=ast.And(), values=t.values[:i]), t)
                    rest = t.values[i] if i == len(t.values) - 1 else ast.copy_location(ast.BoolOp(op=ast.And(), values=t.values[i:]), t)
                    inner = ast.copy_location(ast.If(test=rest, body=s.body, orelse=[]), s)
                    if hasattr(s, "_src"):
                        inner._src = s._src  # type: ignore[attr-defined]
                    s.test, s.body = first, [inner]
                    break
        return s


def _replace(e: ast.AST, old: ast.AST, new: ast.AST) -> ast.AST:
    if e is old:
        return new
    for fld, val in ast.iter_fields(e):
        if isinstance(val, ast.AST):
            setattr(e, fld, _replace(val, old, new))
        elif isinstance(val, list):
            setattr(e, fld, [_replace(x, old, new) if isinstance(x, ast.AST) else x for x in val])
    return e


def hoisted_view(repo: Repo, fi: FuncInfo, T) -> FuncInfo:
    key = ("c15_hoisted_view", fi.fq)
    cache = repo.__dict__.setdefault("_view_cache", {})
    if key not in cache:
        cache[key] = _HoistingInliner(repo, T).view(fi)
    return cache[key]
