"""C16 - layer definitions are well-formed: one layer per module, unique names.

  C16.R1  a `str | list[str]` parameter is normalised before anything iterates it
  C16.R2  LayerRule.are_named: exactly one subject layer (truth table of the guard over side / subject present / argument kind)
  C16.R3  builder guards dominate the state writes; the duplicate-module check compares against all stored modules, materialised
  C16.R4  accepted definitions are stored faithfully (whole list, in order, under the single pending layer) and read back unchanged
"""

from __future__ import annotations

import ast

from core.guards import atom, atoms_of, equivalent, f_and, f_not, f_or, implies, show
from core.loader import AnalysisError, FuncInfo, Repo, ancestors, calls_in, header, norm, own_nodes, parent
from core.report import Result
from core.types import kind, members

from .common import cfg_of, conds, dotted, guard_formula, is_attr_call, loops_around, stmt_of, truth, types_of, where

LAYER_RULE = "pytestarch.query_language.layered_architecture_rule"
RULE = "pytestarch.query_language.rule"
ITERATING_BUILTINS = {"set", "list", "tuple", "sorted", "len", "frozenset", "enumerate", "zip", "map", "filter", "iter", "sum", "any", "all", "min", "max", "reversed"}


def is_union_str_list(ann: ast.expr | None) -> bool:
    if ann is None:
        return False
    t = norm(ann).replace(" ", "")
    if t.startswith("'") or t.startswith('"'):
        t = t[1:-1]
    parts = t.split("|")
    return len(parts) == 2 and "str" in parts and any(p.startswith(("list[str", "Sequence[str", "List[str", "Iterable[str", "tuple[str")) for p in parts)


def _normaliser_functions(repo: Repo) -> set[str]:
    """Functions whose body is `return x if isinstance(x, list) else [x]` (or the str-branch form)."""
    out = set()
    for f in repo.all_functions():
        if isinstance(f.node, ast.Lambda):
            continue
        body = [s for s in f.body if not (isinstance(s, ast.Expr) and isinstance(s.value, ast.Constant))]
        if len(body) == 1 and isinstance(body[0], ast.Return) and body[0].value is not None and _is_normalising_expr(body[0].value, None):
            out.add(f.name)
    return out


def _is_normalising_expr(e: ast.expr, p: str | None) -> str | None:
    """`p if isinstance(p, list) else [p]` / `[p] if isinstance(p, str) else p` -> name of p."""
    if not isinstance(e, ast.IfExp):
        return None
    t = e.test
    if not (isinstance(t, ast.Call) and dotted(t.func) == "isinstance" and len(t.args) == 2 and isinstance(t.args[0], ast.Name)):
        return None
    v = t.args[0].id
    if p is not None and v != p:
        return None
    cls = norm(t.args[1])
    wrap = lambda x: isinstance(x, ast.List) and len(x.elts) == 1 and dotted(x.elts[0]) == v  # noqa: E731
    same = lambda x: dotted(x) == v or (isinstance(x, ast.Call) and dotted(x.func) == "list" and x.args and dotted(x.args[0]) == v)  # noqa: E731
    if "str" in cls and "list" not in cls:
        return v if wrap(e.body) and same(e.orelse) else None
    if "str" not in cls:
        return v if same(e.body) and wrap(e.orelse) else None
    return None


def run_r1(repo: Repo, res: Result) -> None:
    T = types_of(repo)
    normalisers = _normaliser_functions(repo)
    n = 0
    for f in repo.all_functions():
        if isinstance(f.node, ast.Lambda) or f.is_abstract:
            continue
        for p in f.params:
            if not is_union_str_list(p.annotation):
                continue
            name = p.arg
            # statements after which `name` itself holds the normalised list
            normalised_from: set[int] = set()
            body_index = {id(s): i for i, s in enumerate(f.body)}
            cut = None
            for i, s in enumerate(f.body):
                if isinstance(s, ast.If) and not s.orelse and isinstance(s.test, ast.Call) and dotted(s.test.func) == "isinstance" and dotted(s.test.args[0]) == name and "str" in norm(s.test.args[1]):
                    if len(s.body) == 1 and isinstance(s.body[0], ast.Assign) and dotted(s.body[0].targets[0]) == name and isinstance(s.body[0].value, ast.List) and len(s.body[0].value.elts) == 1 and dotted(s.body[0].value.elts[0]) == name:
                        cut = i
                        break
                if isinstance(s, ast.Assign) and dotted(s.targets[0]) == name and (_is_normalising_expr(s.value, name) or (isinstance(s.value, ast.Call) and isinstance(s.value.func, ast.Attribute) and s.value.func.attr in normalisers and s.value.args and dotted(s.value.args[0]) == name)):
                    cut = i
                    break
            uses = [u for u in own_nodes(f.node) if isinstance(u, ast.Name) and u.id == name and isinstance(u.ctx, ast.Load)]
            for u in uses:
                top = u
                for a in ancestors(u):
                    if a in f.body:
                        top = a
                        break
                idx = body_index.get(id(top), -1)
                if cut is not None and idx > cut:
                    continue  # after the in-place normalisation
                par = parent(u)
                how = None
                # allowed raw uses
                if isinstance(par, ast.Call) and dotted(par.func) == "isinstance" and par.args and par.args[0] is u:
                    continue
                if isinstance(par, ast.List) and len(par.elts) == 1:
                    continue  # [p]
                if isinstance(par, ast.IfExp) and _is_normalising_expr(par, name):
                    continue
                if isinstance(par, ast.Call) and dotted(par.func) == "list" and isinstance(parent(par), ast.IfExp) and _is_normalising_expr(parent(par), name):
                    continue
                if isinstance(par, ast.Call) and u in par.args:
                    cs, _how = T.callees(f, par, byname_fallback=False)
                    callee_union = False
                    for c in cs:
                        idx_a = par.args.index(u) + (1 if c.cls is not None and not c.is_staticmethod and c.outer is None and isinstance(par.func, ast.Attribute) else 0)
                        if idx_a < len(c.params) and is_union_str_list(c.params[idx_a].annotation):
                            callee_union = True
                        if c.name in normalisers:
                            callee_union = True
                    if callee_union:
                        continue
                    if isinstance(par.func, ast.Attribute) and par.func.attr in normalisers:
                        continue
                    if dotted(par.func) in ITERATING_BUILTINS:
                        how = f"{dotted(par.func)}({name})"
                    elif cs:
                        how = None  # handed to a callee with a non-union parameter: judged there if annotated, else ignored
                        continue
                    else:
                        continue
                elif isinstance(par, (ast.For, ast.comprehension)) and par.iter is u:
                    how = f"for ... in {name}"
                elif isinstance(par, ast.Compare) and u in par.comparators and isinstance(par.ops[0], (ast.In, ast.NotIn)):
                    how = f"... in {name}"
                elif isinstance(par, ast.Starred):
                    how = f"*{name}"
                elif isinstance(par, ast.Subscript) and par.value is u:
                    how = f"{name}[...]"
                elif isinstance(par, ast.Return) or isinstance(par, ast.Assign):
                    continue
                else:
                    continue
                # a guard may establish the list form
                g = guard_formula(f, u)
                is_list = atom(f"isinstance({name}, list)")
                is_str = atom(f"isinstance({name}, str)")
                if implies(g, is_list) or implies(g, f_not(is_str)) and is_str[1] in atoms_of(g):
                    continue
                n += 1
                res.add(
                    "C16.R1",
                    repo.key(f, stmt_of(u)) + f" [{how}]",
                    False,
                    f"`{how}` iterates the raw `{name}: {norm(p.annotation)}` parameter: for the documented string form this iterates the *characters* of the module name",
                    where(f, u),
                    kind="flow",
                )
            n += 1
            res.add("C16.R1", f"{f.relpath}::{f.qualname}::parameter {name}", True, f"`{name}: {norm(p.annotation)}` analysed: raw uses are type tests, the normalising expression or hand-offs to same-typed parameters", where(f, f.node), nontrivial=False)
    res.floor("C16.R1", 4, n)


def run(repo: Repo) -> Result:
    res = Result("C16")
    res.explanation = (
        "Decides the builder guards structurally, per call: (R1) every `str | list[str]` parameter is normalised to a list before anything "
        "iterates it; (R2) LayerRule.are_named raises exactly when a (further or batched) layer is given on the subject side; (R3) the "
        "pending-layer, duplicate-name, exactly-one-pending-layer and duplicate-module guards dominate the state writes, the duplicate check "
        "compares materialised sets over all stored modules, and the 'pending' marker test agrees with the type of the stored values; (R4) the "
        "stored definition is the whole normalised list in order under the pending layer and is read back unchanged."
    )
    res.not_decided = "call sequences longer than one call are covered only through the guards' formulas (no sequence exploration)."
    res.trusted_base = ["engine CFG / guard formulas / resolver"]
    T = types_of(repo)
    run_r1(repo, res)
    la = repo.cls(LAYER_RULE, "LayeredArchitecture")
    lr = repo.cls(LAYER_RULE, "LayerRule")
    store = "self._modules_by_layer_name"
    # ---- R2
    an = lr.methods.get("are_named")
    if an is None:
        raise AnalysisError("LayerRule.are_named not found")
    lp = an.param_names[1]
    NONE = atom("self._rule is None")
    S = atom("bool(self._rule._modules_to_check_to_be_specified_next)")
    P = atom("bool(self._rule.rule_subjects)")
    L = atom(f"isinstance({lp}, list)")
    raises = [r for r in own_nodes(an.node) if isinstance(r, ast.Raise)]
    want = f_and([S, f_or([P, L])])
    hit = None
    for r in raises:
        g = guard_formula(an, r)
        extra = atoms_of(g) - {NONE[1], S[1], P[1], L[1]}
        if extra:
            continue
        if equivalent(g, want, constraints=f_not(NONE)) and not implies(f_not(NONE), f_not(g)):
            hit = r
    others = [r for r in raises if not equivalent(guard_formula(an, r), NONE)]
    if hit is None and others:
        g = guard_formula(an, others[0])
        extra = sorted(atoms_of(g) - {NONE[1], S[1], P[1], L[1]})
        detail = f"the subject guard of are_named is `{show(g)}`; required (given a started rule): on the subject side raise iff a subject is already present or a list is given, never on the object side" + (f" [reads {extra}]" if extra else "")
    elif hit is None:
        detail = "are_named has no guard limiting the subject to exactly one layer"
    else:
        detail = "raises exactly when, on the subject side, a subject is already present or a list is given (8-row truth table)"
    res.add("C16.R2", f"{an.relpath}::{an.qualname}::exactly one subject layer", hit is not None, detail, where(an, hit or an.node), kind="decision-table")
    # the guard must run before the modules are added
    adds = [c for c in calls_in(an.node) if is_attr_call(c, "_add_modules")]
    if hit is not None and adds:
        p = parent(hit)
        ok = cfg_of(an).dominates(p if isinstance(p, ast.If) else hit, stmt_of(adds[0]))
        res.add("C16.R2", f"{an.relpath}::{an.qualname}::guard before the layer is added", ok, "the subject guard dominates the extension of the rule" if ok else "modules are added to the rule before the subject guard runs", where(an, adds[0]), kind="dominance")
    # ---- R3
    pend = la.methods.get("_get_layers_without_modules")
    if pend is None:
        raise AnalysisError("LayeredArchitecture._get_layers_without_modules not found")
    tests = [c for c in ast.walk(pend.node) if isinstance(c, ast.comprehension) for _ in [0]]
    cond = None
    for c in ast.walk(pend.node):
        if isinstance(c, ast.comprehension) and c.ifs:
            cond = c.ifs[0]
    if cond is None:
        raise AnalysisError(f"{pend.fq}: emptiness condition of pending layers not recognised")
    type_agnostic = (isinstance(cond, ast.UnaryOp) and isinstance(cond.op, ast.Not)) or (isinstance(cond, ast.Compare) and isinstance(cond.left, ast.Call) and dotted(cond.left.func) == "len")
    eq_list = isinstance(cond, ast.Compare) and isinstance(cond.ops[0], ast.Eq) and isinstance(cond.comparators[0], ast.List) and not cond.comparators[0].elts
    # every value stored into the mapping must then be a list
    stored_kinds = []
    for m in la.methods.values():
        for s in own_nodes(m.node):
            if isinstance(s, ast.Assign) and isinstance(s.targets[0], ast.Subscript) and dotted(s.targets[0].value) == store:
                stored_kinds.append((m, s, _value_kinds(repo, T, m, s.value)))
    ok = type_agnostic or (eq_list and all(k <= {"list"} for _m, _s, k in stored_kinds))
    bad = [(m, s, k) for m, s, k in stored_kinds if not k <= {"list"}]
    res.add(
        "C16.R3",
        f"{pend.relpath}::{pend.qualname}::pending-layer marker",
        ok,
        "a layer counts as pending while its (list-typed) module sequence is empty" if ok else f"pending layers are recognised by `{norm(cond)}`, but `{header(bad[0][1]) if bad else '?'}` stores a {sorted(bad[0][2]) if bad else '?'}: an empty definition is no longer recognised as pending, so the next layer can be opened",
        where(pend, pend.node),
        kind="structural",
    )
    ly = la.methods.get("layer")
    st = [s for s in own_nodes(ly.node) if isinstance(s, ast.Assign) and isinstance(s.targets[0], ast.Subscript) and dotted(s.targets[0].value) == store]
    if len(st) != 1:
        raise AnalysisError("LayeredArchitecture.layer: store of the new layer not found")
    g = guard_formula(ly, st[0])
    namep = ly.param_names[1]
    pend_var = None
    for s in own_nodes(ly.node):
        if isinstance(s, ast.Assign) and isinstance(s.value, ast.Call) and is_attr_call(s.value, pend.name):
            pend_var = dotted(s.targets[0])
    ok1 = pend_var is not None and implies(g, f_not(truth(ly, pend_var)))
    ok2 = implies(g, f_not(atom(f"{namep} in {store}")))
    res.add("C16.R3", repo.key(ly, st[0]) + " [no pending layer]", ok1, "a new layer is opened only when no layer is waiting for its modules" if ok1 else "a new layer can be opened while another layer still has no modules", where(ly, st[0]), kind="dominance")
    res.add("C16.R3", repo.key(ly, st[0]) + " [unique name]", ok2, "a layer name can be defined once" if ok2 else "a layer name can be defined twice (the second definition replaces the first)", where(ly, st[0]), kind="dominance")
    ok3 = isinstance(st[0].value, ast.List) and not st[0].value.elts and dotted(st[0].targets[0].slice) == namep
    res.add("C16.R3", repo.key(ly, st[0]) + " [opens empty]", ok3, "the new layer starts without modules" if ok3 else "the new layer is not opened as an empty definition under its own name", where(ly, st[0]), nontrivial=False)
    for mname in ("containing_modules", "have_modules_with_names_matching"):
        m = la.methods.get(mname)
        if m is None:
            raise AnalysisError(f"LayeredArchitecture.{mname} not found")
        st = [s for s in own_nodes(m.node) if isinstance(s, ast.Assign) and isinstance(s.targets[0], ast.Subscript) and dotted(s.targets[0].value) == store]
        if len(st) != 1:
            raise AnalysisError(f"{m.fq}: store of the layer's modules not found")
        lw = None
        for s in own_nodes(m.node):
            if isinstance(s, ast.Assign) and isinstance(s.value, ast.Call) and is_attr_call(s.value, pend.name):
                lw = dotted(s.targets[0])
        g = guard_formula(m, st[0])
        ok = lw is not None and implies(g, f_and([truth(m, lw), f_not(truth(m, f"len({lw}) > 1"))]))
        res.add("C16.R3", repo.key(m, st[0]) + " [exactly one pending layer]", ok, "modules are stored only when exactly one layer is pending" if ok else f"modules can be stored although not exactly one layer is pending (guard: {show(g)})", where(m, st[0]), kind="dominance")
        key = st[0].targets[0].slice
        ok = isinstance(key, ast.Subscript) and dotted(key.value) == lw and isinstance(key.slice, ast.Constant) and key.slice.value == 0
        res.add("C16.R4", repo.key(m, st[0]) + " [stored under the pending layer]", ok, "stored under the single pending layer" if ok else f"the modules are stored under `{norm(key)}`, not under the pending layer", where(m, st[0]), kind="structural")
    # duplicate-module guard
    cm = la.methods["containing_modules"]
    st = [s for s in own_nodes(cm.node) if isinstance(s, ast.Assign) and isinstance(s.targets[0], ast.Subscript) and dotted(s.targets[0].value) == store][0]
    raises = [r for r in own_nodes(cm.node) if isinstance(r, ast.Raise)]
    dup_raise = [r for r in raises if any("assigned" in str(c.value) for c in ast.walk(r) if isinstance(c, ast.Constant) and isinstance(c.value, str))]
    ok = False
    detail = "no duplicate-module guard found"
    if dup_raise:
        r = dup_raise[0]
        gcs = conds(cm, r)
        dv = next((dotted(e) for e, pol in gcs if pol and isinstance(e, ast.Name)), None)
        detail = "the duplicate guard is not `if <set of duplicates>: raise` before the store"
        if dv is not None:
            asg = [s for s in own_nodes(cm.node) if isinstance(s, ast.Assign) and dotted(s.targets[0]) == dv]
            if len(asg) == 1:
                v = asg[0].value
                ops = []
                if isinstance(v, ast.Call) and isinstance(v.func, ast.Attribute) and v.func.attr == "intersection" and len(v.args) == 1:
                    ops = [v.func.value, v.args[0]]
                elif isinstance(v, ast.BinOp) and isinstance(v.op, ast.BitAnd):
                    ops = [v.left, v.right]
                if len(ops) == 2:
                    kinds = [{kind(x) for x in members(T.expr(cm, o))} for o in ops]
                    mat = all(k <= {"set", "frozenset", "list"} and k for k in kinds)
                    # one operand = the new modules (normalised), the other = identifiers of all stored filters
                    texts = [_origin_text(cm, o) for o in ops]
                    covers_all = any(".values()" in t and "identifier" in t and " if " not in t for t in texts)
                    ok = mat and covers_all and cfg_of(cm).dominates(parent(r) if isinstance(parent(r), ast.If) else r, st)
                    detail = "new modules are intersected with the identifiers of all stored module filters (materialised sets) before the store" if ok else (
                        f"the duplicate check intersects `{norm(ops[0], 40)}` ({sorted(kinds[0])}) with `{norm(ops[1], 40)}` ({sorted(kinds[1])}): " + ("an operand is a one-shot iterator" if not mat else "it does not cover the modules of all layers")
                    )
                elif isinstance(v, (ast.ListComp, ast.SetComp)) or (isinstance(v, ast.Call) and v.args and isinstance(v.args[0], (ast.ListComp, ast.SetComp, ast.GeneratorExp))):
                    # membership form: [m for m in <new modules> if m in <all stored identifiers>]
                    cmp_ = v if isinstance(v, (ast.ListComp, ast.SetComp)) else v.args[0]
                    tests = [c for g_ in cmp_.generators for c in g_.ifs if isinstance(c, ast.Compare) and isinstance(c.ops[0], ast.In)]
                    if len(tests) == 1:
                        E_ = tests[0].comparators[0]
                        k_ = {kind(x) for x in members(T.expr(cm, E_))}
                        mat = bool(k_) and k_ <= {"set", "frozenset", "list", "dict"}
                        txt = _origin_text(cm, E_)
                        covers_all = ".values()" in txt and "identifier" in txt and " if " not in txt
                        ok = mat and covers_all and cfg_of(cm).dominates(parent(r) if isinstance(parent(r), ast.If) else r, st)
                        detail = "every new module is looked up in the materialised identifiers of all stored filters before the store" if ok else f"duplicates are computed as `{norm(v, 80)}`: " + (f"`{norm(E_, 40)}` is a one-shot iterator ({sorted(k_)}) that is exhausted by the first membership test" if not mat else "the lookup does not cover the modules of all layers")
                else:
                    # every container consulted must be materialised
                    gens = [n_ for n_ in own_nodes(cm.node) if isinstance(n_, ast.Assign) and isinstance(n_.value, ast.GeneratorExp)]
                    detail = f"duplicates are computed as `{norm(v, 80)}`" + (f"; `{dotted(gens[0].targets[0])}` is a generator that is exhausted by the first membership test" if gens else "")
    res.add("C16.R3", f"{cm.relpath}::{cm.qualname}::duplicate-module guard", ok, detail, where(cm, dup_raise[0] if dup_raise else cm.node), kind="dominance")
    # based_on twice / layers_that without architecture are C13.R2 obligations as well; keep one here for the builder clause
    bo = lr.methods.get("based_on")
    raises = [r for r in own_nodes(bo.node) if isinstance(r, ast.Raise)]
    ok = any(equivalent(guard_formula(bo, r), f_not(atom("self._architecture is None"))) for r in raises)
    res.add("C16.R3", f"{bo.relpath}::{bo.qualname}::architecture set once", ok, "a second based_on raises" if ok else "based_on can replace the architecture of a rule", where(bo, bo.node), kind="decision-table")
    lt = lr.methods.get("layers_that")
    raises = [r for r in own_nodes(lt.node) if isinstance(r, ast.Raise)]
    ok = any(equivalent(guard_formula(lt, r), atom("self._architecture is None")) for r in raises)
    res.add("C16.R3", f"{lt.relpath}::{lt.qualname}::architecture first", ok, "layers_that requires an architecture" if ok else "layers_that no longer requires an architecture", where(lt, lt.node), kind="decision-table")
    # ---- R4
    tm = la.methods.get("_to_module_objects")
    if tm is None:
        raise AnalysisError("LayeredArchitecture._to_module_objects not found")
    rets = [s for s in own_nodes(tm.node) if isinstance(s, ast.Return)]
    comp = rets[0].value if len(rets) == 1 else None
    inner = comp.args[0] if isinstance(comp, ast.Call) and dotted(comp.func) in ("list", "tuple") and comp.args else comp
    ok = isinstance(inner, (ast.ListComp, ast.GeneratorExp)) and len(inner.generators) == 1 and not inner.generators[0].ifs and dotted(inner.generators[0].iter) == tm.param_names[1] and isinstance(inner.elt, ast.Call) and dotted(inner.elt.func) == "ModuleNameFilter" and dotted((inner.elt.keywords[0].value if inner.elt.keywords else inner.elt.args[0])) == dotted(inner.generators[0].target)
    res.add("C16.R4", f"{tm.relpath}::{tm.qualname}::order-preserving image", ok, "one name filter per supplied module, in order" if ok else "the stored filters are not the order-preserving image of all supplied modules", where(tm, tm.node), kind="structural")
    stc = [s for s in own_nodes(cm.node) if isinstance(s, ast.Assign) and isinstance(s.targets[0], ast.Subscript) and dotted(s.targets[0].value) == store][0]
    val = stc.value
    arg = val.args[0] if isinstance(val, ast.Call) and val.args else None
    norm_var = None
    for s in own_nodes(cm.node):
        if isinstance(s, ast.Assign) and _is_normalising_expr(s.value, cm.param_names[1]):
            norm_var = dotted(s.targets[0])
    ok = isinstance(val, ast.Call) and is_attr_call(val, tm.name) and arg is not None and dotted(arg) == norm_var
    res.add("C16.R4", repo.key(cm, stc) + " [whole normalised list]", ok, "the whole normalised list is stored" if ok else f"`{norm(val)}` does not store the whole normalised module list", where(cm, stc), kind="flow")
    gi = la.methods.get("__getitem__")
    rets = [s for s in own_nodes(gi.node) if isinstance(s, ast.Return)] if gi else []
    ok = len(rets) == 1 and isinstance(rets[0].value, ast.Subscript) and dotted(rets[0].value.value) == store and dotted(rets[0].value.slice) == gi.param_names[1]
    res.add("C16.R4", f"{la.module.relpath}::LayeredArchitecture.__getitem__::reads the mapping unchanged", ok, "architecture[layer] returns the stored definition" if ok else "architecture[layer] does not return the stored definition unchanged", kind="structural")
    sm = la.methods.get("__str__")
    ok = sm is not None and any(isinstance(n_, ast.Call) and is_attr_call(n_, "items") and dotted(n_.func.value) == store for n_ in ast.walk(sm.node)) and not any(isinstance(n_, ast.comprehension) and n_.ifs for n_ in ast.walk(sm.node))
    res.add("C16.R4", f"{la.module.relpath}::LayeredArchitecture.__str__::lists all layers", ok, "str(architecture) lists every layer with its modules in definition order" if ok else "str(architecture) does not list all layers and modules", kind="structural")
    return res


def _value_kinds(repo: Repo, T, f: FuncInfo, e: ast.expr) -> set[str]:
    """Kinds (list / tuple / set / ...) of the objects an expression can evaluate to, looking through repo helper calls."""
    if isinstance(e, ast.Call):
        cs, _ = T.callees(f, e, byname_fallback=False)
        if cs:
            out: set[str] = set()
            for c in cs:
                for r in own_nodes(c.node):
                    if isinstance(r, ast.Return) and r.value is not None:
                        out |= _value_kinds(repo, T, c, r.value)
            return out or {"unknown"}
    return {kind(x) for x in members(T.expr(f, e))}


def _origin_text(f: FuncInfo, e: ast.expr, depth: int = 0) -> str:
    if isinstance(e, ast.Name) and depth < 3:
        a = [s for s in own_nodes(f.node) if isinstance(s, ast.Assign) and dotted(s.targets[0]) == e.id]
        if len(a) == 1:
            return _origin_text(f, a[0].value, depth + 1)
    return norm(e, 400)
