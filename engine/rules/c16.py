"""C16 - layer definitions are well-formed: one layer per module, unique names.

  C16.R1  a `str | list[str]` value is normalised before anything iterates it (rules/c16_r1.py: flow-sensitive, interprocedural)
  C16.R2  LayerRule.are_named: exactly one subject layer (configuration errors raised <=> subject side and (subject present or list));
          nothing is added before that guard; the side flag of the wrapped Rule follows the layer-rule language (set by layers_that,
          untouched by the behaviour words and by are_named itself, cleared by the access words); when are_named decides on state
          of LayerRule's own, the public words are explored as transformers of (own state, side flag) and the guard must agree with
          the side of the wrapped rule in every reachable state
  C16.R3  builder guards dominate the state writes; the duplicate-module check compares the whole normalised argument against the
          materialised identifiers of all stored modules (whatever key is compared - names, key tuples, filter objects - must be equal,
          under abstract dataclass / __eq__ equality, for a stored filter of *every* stored class with the supplied name); a running
          collection consulted instead of the stored definitions must provably hold the identifier of every stored filter (class Mirror:
          every write of the layer mapping is accompanied by additions that cover the identifiers of what is written, nothing is removed);
          the 'pending' test agrees with the stored values; architecture guards
  C16.R4  accepted definitions are stored faithfully (whole list, in order, under the single pending layer) and read back unchanged

A negative verdict needs positive evidence: when the guard / key / value it is read from contains a call the executor does not model,
or consults the stored definitions in a way that is not recognised, the obligation is undecided (exit 2), not violated.

All anchors are public API names (`LayeredArchitecture.layer/containing_modules/have_modules_with_names_matching/__getitem__/__str__`,
`LayerRule.based_on/layers_that/are_named` and the methods the abstract language classes declare, `Rule.modules_that`,
`ModuleNameFilter`, `ModuleNameRegexFilter`, `ImproperlyConfigured`).  The public methods are *interpreted* by the symbolic executor
(rules/c16_sym.py); private helpers, attribute names, local names, loop-vs-comprehension and guard spellings do not matter.
"""

from __future__ import annotations

from core.guards import f_and, f_not, f_or
from core.loader import AnalysisError, ClassInfo, FuncInfo, Repo
from core.report import Result

from .c16_logic import Enc, equivalent, facts, implies, mentions, prefix_length, satisfiable, strip_wrappers
from .c16_r1 import RawFlow, seeds
from .c16_sym import NONE_T, SELF, Event, Run, SymExec, Term, is_term, phi_leaves, show, show_pc, subterms
from .common import types_of

CONFIG_ERROR = "ImproperlyConfigured"
MUTATORS = {"append", "extend", "add", "update", "insert", "remove", "pop", "clear", "setdefault", "discard", "sort", "__iop__", "__setitem__", "popitem", "reverse"}


# --------------------------------------------------------------------------- anchors


def public_class(repo: Repo, name: str) -> ClassInfo:
    cs = [c for c in repo.classes.values() if c.name == name]
    if len(cs) != 1:
        raise AnalysisError(f"public class {name} not found exactly once ({len(cs)})")
    return cs[0]


def public_method(repo: Repo, ci: ClassInfo, name: str) -> FuncInfo:
    m = repo.lookup_method(ci, name)
    if m is None or m.is_abstract:
        raise AnalysisError(f"public method {ci.name}.{name} not found")
    return m


def declared_in(repo: Repo, ci: ClassInfo, base_name: str) -> list[str]:
    """Names of the abstract methods the language class `base_name` (a base of ci) declares."""
    for c in repo.mro(ci):
        if c.name == base_name:
            return [n for n, m in c.methods.items() if m.is_abstract]
    raise AnalysisError(f"{ci.name} no longer implements the language class {base_name}")


def K(fi: FuncInfo, role: str) -> str:
    return f"{fi.relpath}::{fi.qualname}::{role}"


def unmodelled(terms) -> str | None:
    """The first call inside the given terms / path conditions whose meaning the executor does not know (a library function or a
    callable value it could not follow): what is concluded from such a term is not positive evidence."""
    for x in subterms(tuple(terms)):
        if x[0] == "call" and not isinstance(x[1], str) and not (is_term(x[1]) and x[1][0] in ("global", "builtin") and x[1][1].rsplit(".", 1)[-1] in ("ImproperlyConfigured",)):
            return show(x)[:90]
        if x[0] == "unknown":
            return show(x)[:90]
    return None


def verdict(res: Result, r: Run, rule: str, key: str, ok: bool, detail: str, where: str = "", kind: str = "structural", nontrivial: bool = True, terms=()) -> None:
    """A negative verdict needs the whole method to have been followed: with repo calls / statements the executor could not
    follow, or with an un-modelled call inside the terms the verdict was read from, the construct is undecided instead."""
    blind = [f"call of {e.data['targets'][0].split('::')[-1]} not followed" for e in r.of("opaque")] + list(r.notes)
    um = unmodelled(terms) if not ok else None
    if um is not None:
        blind = [f"`{um}` is a call whose meaning is not modelled"] + blind
    if not ok and blind:
        res.undecide(rule, key, f"{detail} - but the analysis of {r.fi.qualname} is incomplete: {blind[0]}", where)
    else:
        res.add(rule, key, ok, detail, where, nontrivial=nontrivial, kind=kind)


# --------------------------------------------------------------------------- recognisers on terms


class Builder:
    """Facts about the LayeredArchitecture builder found by role."""

    def __init__(self, repo: Repo, sx: SymExec, la: ClassInfo) -> None:
        self.repo, self.sx, self.la = repo, sx, la
        self.runs: dict[str, Run] = {}
        self.store: Term | None = None
        self.name_attrs: set[str] = set()
        self.cursor = Cursor(self)
        self.mirror = Mirror(self)

    def run(self, name: str) -> Run:
        if name not in self.runs:
            self.runs[name] = self.sx.run(public_method(self.repo, self.la, name))
        return self.runs[name]

    # -- the mapping layer -> filters: the container of self into which `layer(name)` writes an entry under `name`
    def find_store(self) -> None:
        r = self.run("layer")
        m = r.fi
        pname = ("param", m.param_names[1])
        cands = [e for e in r.of("setitem") if e.data["key"] == pname and _rooted_at_self(e.data["obj"])]
        stores = {e.data["obj"] for e in cands}
        if len(stores) != 1:
            raise AnalysisError(f"{m.fq}: the mapping that receives the new layer under its name was not found ({len(stores)} candidates)")
        self.store = stores.pop()

    def store_events(self, r: Run) -> list[Event]:
        return [e for e in r.of("setitem") if e.data["obj"] == self.store]

    # -- pending layers: names of the entries whose value is empty
    def pending(self, t: Term):
        """(emptiness predicate, value variable) if t is the collection of the names of all entries of the store with an empty value."""
        t = strip_wrappers(t)
        if t[0] != "comp" or t[1] not in ("list", "set", "gen") or len(t[3]) != 1:
            return None
        (it, ifs), elt = t[3][0], t[2]
        if not ifs:
            return None
        bv = ("bv", t[4])
        if it == ("mcall", self.store, "items", ()):
            key, val = ("item", bv, 0), ("item", bv, 1)
        elif it == self.store or it == ("mcall", self.store, "keys", ()) or (it[0] == "call" and it[1] in ("list", "sorted", "tuple") and it[2] and it[2][0] == self.store):
            key, val = bv, ("index", self.store, bv)
        else:
            return None
        if elt != key:
            return None
        return self.emptiness(ifs[0] if len(ifs) == 1 else ("and", tuple(ifs)), val)

    @staticmethod
    def emptiness(c: Term, v: Term) -> str:
        """Evaluates the test on an empty list and an empty tuple standing for the value: 'agnostic' (`not v`, `len(v) == 0`),
        'list' (`v == []`), 'tuple' (`v == ()`), 'never' (true for neither, e.g. `v is None`) or '?' (not evaluable)."""

        class Unknown(Exception):
            pass

        def val(t: Term, x):
            if t == v:
                return x
            op = t[0]
            if op == "const":
                return t[1]
            if op in ("list", "tuple", "set") and not t[1]:
                return {"list": [], "tuple": (), "set": set()}[op]
            if op == "not":
                return not val(t[1], x)
            if op == "and":
                return all(val(y, x) for y in t[1])
            if op == "or":
                return any(val(y, x) for y in t[1])
            if op == "call" and t[1] in ("len", "bool", "list", "tuple") and len(t[2]) == 1:
                return {"len": len, "bool": bool, "list": list, "tuple": tuple}[t[1]](val(t[2][0], x))
            if op == "cmp":
                l, r = val(t[2], x), val(t[3], x)
                if t[1] == "Is":
                    if r is None or l is None:
                        return l is r
                    raise Unknown
                import operator

                fn = {"Eq": operator.eq, "Lt": operator.lt, "LtE": operator.le, "Gt": operator.gt, "GtE": operator.ge}.get(t[1])
                if fn is None:
                    raise Unknown
                return fn(l, r)
            raise Unknown

        try:
            on_list, on_tuple = bool(val(c, [])), bool(val(c, ()))
        except (Unknown, TypeError):
            return "?"
        return {(True, True): "agnostic", (True, False): "list", (False, True): "tuple", (False, False): "never"}[(on_list, on_tuple)]

    def canon(self, t: Term) -> str | None:
        if t[0] == "comp" or t[0] == "call":
            if self.pending(t) is not None:
                return "#PENDING"
        if self.layer_names(t):
            return "#LAYERS"
        return None

    def layer_names(self, t: Term) -> bool:
        """t is the mapping itself or a collection of all its keys (`d`, `d.keys()`, `list(d)`, `[k for k in d]`, `[k for k, _ in d.items()]`)."""
        t = strip_wrappers(t, ("list", "tuple", "set", "frozenset", "sorted"))
        if t == self.store or t == ("mcall", self.store, "keys", ()):
            return True
        if t[0] == "comp" and t[1] != "dict" and len(t[3]) == 1 and not t[3][0][1]:
            it, bv = t[3][0][0], ("bv", t[4])
            if it == ("mcall", self.store, "items", ()):
                return t[2] == ("item", bv, 0)
            return t[2] == bv and self.layer_names(it)
        return False

    def pending_terms(self, r: Run) -> list[Term]:
        seen: list[Term] = []
        for e in r.events:
            for src in (e.pc, tuple(v for v in e.data.values() if isinstance(v, tuple))):
                for x in subterms(src):
                    if x[0] == "comp" and x not in seen and self.pending(x) is not None:
                        seen.append(x)
        return seen

    def pending_part(self, t: Term) -> bool:
        """t is a pending collection P or a non-empty prefix of one (`islice(P, n)`, n >= 1): whatever is picked from it is a pending
        layer, *the* pending layer when exactly one is pending (judged separately by [exactly one pending layer])."""
        t = strip_wrappers(t)
        n = prefix_length(t)
        while n is not None and n >= 1:
            t = strip_wrappers(t[2][0])
            n = prefix_length(t)
        return n is None and self.pending(t) is not None

    def single_pending(self, key: Term) -> bool:
        """key is `P[0]` / `P[-1]` / the only element unpacked from P / `P.pop()` / `next(iter(P))` for a pending collection P."""
        if key[0] == "index" and key[2] in (("const", 0), ("const", -1)) and self.pending_part(key[1]):
            return True
        if key[0] == "unpack" and key[3] == 1 and self.pending_part(key[1]):
            return True
        if key[0] == "mcall" and key[2] == "pop" and self.pending_part(key[1]):
            return True
        if key[0] == "call" and key[1] in ("next", "min", "max") and key[2]:
            inner = key[2][0]
            if inner[0] == "call" and inner[1] == "iter" and inner[2]:
                inner = inner[2][0]
            return self.pending_part(inner)
        return False

    def picked_from_all_layers(self, key: Term) -> bool:
        """key is one element (`[i]`, `next(iter(..))`, `min` / `max`, unpacked, popped) of the collection of *all* layer names."""
        inner = None
        if key[0] == "index" and key[2][0] == "const":
            inner = key[1]
        elif key[0] == "unpack":
            inner = key[1]
        elif key[0] == "mcall" and key[2] in ("pop", "popitem"):
            inner = key[1]
        elif key[0] == "call" and key[1] in ("next", "min", "max") and key[2]:
            inner = key[2][0]
            if inner[0] == "call" and inner[1] in ("iter", "reversed") and inner[2]:
                inner = inner[2][0]
        return inner is not None and self.layer_names(inner)

    # -- attributes of a name filter that return the name it was built from (`identifier`, `name`)
    def find_name_attrs(self) -> None:
        mnf = public_class(self.repo, "ModuleNameFilter")
        fields = list(mnf.ann_attrs)
        self.name_attrs = set(fields[:1])
        for c in self.repo.mro(mnf):
            for n, m in c.methods.items():
                if m.is_property and not m.is_abstract and c is mnf:
                    r = self.sx.run(m)
                    if len(r.returns) == 1 and r.returns[0][1][0] == "attr" and r.returns[0][1][1] == SELF and r.returns[0][1][2] in fields[:1]:
                        self.name_attrs.add(n)
        if not self.name_attrs:
            raise AnalysisError("ModuleNameFilter: no attribute returning the module name found")

    def all_identifiers(self, t: Term, pending_key_ok=None):
        """Classifies the 'already assigned names' operand: ('all', materialised) | ('partial', why) | None (not derived from the store)."""
        core, materialised = t, t[0] != "comp" or t[1] != "gen"
        while core[0] == "call" and isinstance(core[1], str) and core[1] in ("set", "list", "frozenset", "tuple", "sorted") and len(core[2]) == 1:
            core, materialised = core[2][0], True
        if core[0] == "call" and core[1] in ("map", "filter", "iter"):
            materialised = False
        if not mentions(core, self.store):
            a = self.mirror.candidate(strip_wrappers(core, ("list", "tuple", "sorted", "set", "frozenset")))
            if a is None:
                return None
            status, why, _where = self.mirror.prove(a)
            if status == "holds":
                fbv = ("bv", 0)
                return ("all", True, ("attr", fbv, self.identifier_attr()), fbv)
            return ("partial" if status == "broken" else "unknown", f"the running collection `self.{a}` need not hold the identifiers of all stored modules: {why}")
        if core[0] != "comp" or core[1] == "dict":
            return ("partial", f"`{show(core)[:80]}` is not the collection of the identifiers of all stored modules")
        if core[1] == "gen" and core is t:
            materialised = False
        gens = core[3]
        if len(gens) != 2:
            return ("partial", f"`{show(core)[:80]}` does not walk the modules of every layer")
        (it1, ifs1), (it2, ifs2) = gens
        b1 = self._first_bv(core)
        if it1 == ("mcall", self.store, "values", ()):
            inner = b1
        elif it1 == ("mcall", self.store, "items", ()):
            inner = ("item", b1, 1)
        elif it1 == self.store or it1 == ("mcall", self.store, "keys", ()):
            inner = ("index", self.store, b1)
        else:
            return ("partial", f"it walks `{show(it1)[:60]}` instead of every entry of the layer mapping")
        if it2 != inner:
            return ("partial", f"the inner loop walks `{show(it2)[:60]}`, not the modules of the current entry")
        if ifs1 or ifs2:
            return ("partial", f"entries are filtered by `{show((ifs1 + ifs2)[0])[:60]}`")
        b2 = ("bv", b1[1] + 1)
        if not mentions(core[2], b2):
            return ("partial", f"it collects `{show(core[2])[:60]}`, which does not depend on the stored filter")
        return ("all", materialised, core[2], b2)  # what is collected per stored filter is judged by key_agreement()

    # -- abstract equality of the keys a duplicate check compares
    M = ("sym", "m")

    def reduce(self, t, env: dict):
        """t with bound variables replaced (env) and attribute reads on constructed values evaluated (fields, properties)."""
        if not isinstance(t, tuple):
            return t
        if is_term(t) and t in env:
            return env[t]
        if is_term(t) and t[0] == "attr":
            x = self.reduce(t[1], env)
            if x[0] == "new":
                for k, v in x[3]:
                    if k == t[2]:
                        return v
                ci = self.repo.classes.get(x[1])
                m = self.repo.lookup_method(ci, t[2]) if ci else None
                if m is not None and m.is_property and not m.is_abstract:
                    r = self.sx.run(m, self_term=x)
                    if len(r.returns) == 1 and not r.of("opaque"):
                        return self.reduce(r.returns[0][1], {})
            return ("attr", x, t[2])
        return tuple(self.reduce(c, env) for c in t)

    def tv(self, t: Term):
        """Three-valued truth of a reduced term: True / False / None (unknown)."""
        op = t[0]
        if op == "const":
            return bool(t[1])
        if op == "builtin" and t[1] == "NotImplemented":
            return False  # python falls back to identity, and the compared objects are distinct
        if op == "not":
            v = self.tv(t[1])
            return None if v is None else not v
        if op in ("and", "or"):
            vs = [self.tv(x) for x in t[1]]
            if op == "and":
                return False if False in vs else (None if None in vs else True)
            return True if True in vs else (None if None in vs else False)
        if op == "phi":
            c = self.tv(t[1])
            return None if c is None else self.tv(t[2] if c else t[3])
        if op == "isinstance" and t[1][0] == "new":
            ci = self.repo.classes.get(t[1][1])
            names = {c.name for c in self.repo.mro(ci)} if ci else set()
            return bool(names & set(t[2])) if ci else None
        if op == "cmp" and t[1] == "Eq":
            return self.abstract_eq(t[2], t[3])
        if op == "cmp" and t[1] == "Is":
            a, c = t[2], t[3]
            if a[0] == "call" and a[1] == "type" and c[0] == "call" and c[1] == "type" and a[2][0][0] == "new" and c[2][0][0] == "new":
                return a[2][0][1] == c[2][0][1]
            if a[0] == "const" and c[0] == "const":
                return a[1] is c[1]
            if (a[0] == "new") != (c[0] == "new") and "const" in (a[0], c[0]):
                return False
        return None

    def abstract_eq(self, a: Term, c: Term):
        """`a == c` for reduced key terms: True / False / None."""
        if a[0] == "new" and c[0] == "new":
            for x, y in ((a, c), (c, a)):
                ci = self.repo.classes.get(x[1])
                eq = self.repo.lookup_method(ci, "__eq__") if ci else None
                if eq is not None and not eq.is_abstract:
                    r = self.sx.run(eq, self_term=x, args={eq.param_names[1]: y})
                    if r.of("opaque") or r.notes:
                        return None
                    for pc, v, _h in r.returns:
                        conds = [self.tv(self.reduce(t, {})) for t, _pol in pc]
                        if all(cv is not None and cv == pol for cv, (_t, pol) in zip(conds, pc)):
                            return self.tv(self.reduce(v, {}))
                    return None
            ca, cc = self.repo.classes.get(a[1]), self.repo.classes.get(c[1])
            if ca is None or cc is None:
                return None
            if not (any(k.is_dataclass for k in self.repo.mro(ca)) and any(k.is_dataclass for k in self.repo.mro(cc))):
                return False  # plain objects compare by identity
            if a[1] != c[1]:
                return False  # dataclass equality includes the class
            fa, fc = dict(a[3]), dict(c[3])
            if set(fa) != set(fc):
                return None
            vs = [self.abstract_eq(fa[k], fc[k]) for k in fa]
            return False if False in vs else (None if None in vs else True)
        if a == c:
            return True
        if a[0] == "const" and c[0] == "const":
            return a[1] == c[1]
        if a[0] in ("tuple", "list") and c[0] == a[0]:
            if len(a[1]) != len(c[1]):
                return False
            vs = [self.abstract_eq(x, y) for x, y in zip(a[1], c[1])]
            return False if False in vs else (None if None in vs else True)
        kinds = {a[0], c[0]}
        if "new" in kinds and kinds & {"const", "sym", "tuple", "list"}:
            return False
        if kinds == {"const", "tuple"} or kinds == {"const", "list"} or kinds == {"tuple", "list"}:
            return False
        return None

    def stored_filter_classes(self) -> list[str]:
        out: list[str] = []
        for n in ("containing_modules", "have_modules_with_names_matching"):
            for e in self.store_events(self.run(n)):
                for x in subterms(e.data["value"]):
                    if x[0] == "new" and x[1] not in out:
                        out.append(x[1])
        return out

    def identifier_attr(self) -> str:
        """The attribute every stored filter answers with its name (declared by the abstract filter class when there is one)."""
        ident = sorted(a for a in self.name_attrs if any(a in c.methods and c.methods[a].is_abstract for c in self.repo.classes.values())) or sorted(self.name_attrs)
        return ident[0]

    def filter_named(self, cls_fq: str) -> Term | None:
        """A stored filter of class cls_fq whose identifier is the symbolic name M."""
        ci = self.repo.classes.get(cls_fq)
        if ci is None:
            return None
        ident = [self.identifier_attr()]
        fields = [n for c in reversed(self.repo.mro(ci)) for n in c.ann_attrs]
        for f in fields:
            obj = ("new", cls_fq, (), tuple(sorted((g, self.M if g == f else ("sym", g)) for g in fields)))
            if self.reduce(("attr", obj, ident[0]), {}) == self.M:
                return obj
        return None

    def key_agreement(self, new_key: Term, elt: Term, bv: Term):
        """('ok', '') when the key of a supplied module equals the key collected from every stored filter (of any stored class) with
        the same identifier; ('bad', why) with the class that is missed; ('unknown', why)."""
        classes = self.stored_filter_classes()
        if not classes:
            return ("unknown", "the classes of the stored filters are not known")
        for cls in classes:
            f = self.filter_named(cls)
            if f is None:
                return ("unknown", f"no instance of {cls.rsplit('.', 1)[-1]} with a given identifier could be constructed")
            k = self.reduce(elt, {bv: f})
            eq = self.abstract_eq(new_key, k)
            cname = cls.rsplit(".", 1)[-1]
            if eq is False:
                return ("bad", f"it compares `{show(new_key)[:60]}` (per supplied module m) with `{show(k)[:60]}` (per stored {cname} with identifier m), which are never equal: a name that is already assigned through a {cname} is not recognised as a duplicate")
            if eq is None:
                return ("unknown", f"whether `{show(new_key)[:60]}` equals `{show(k)[:60]}` (stored {cname} with the same identifier) could not be decided")
        return ("ok", "")

    @staticmethod
    def _first_bv(comp: Term) -> Term:
        return ("bv", comp[4])


def _rooted_at_self(t: Term) -> bool:
    while t[0] == "attr":
        t = t[1]
        if t == SELF:
            return True
    return False


def normalised(t: Term, p: Term, enc: Enc, pc_f) -> bool:
    """t is the list form of the raw `str | list` parameter p under the path condition pc_f."""
    islist = enc.truth(("isinstance", p, ("list",)))
    if t[0] == "phi":
        c = enc.truth(t[1])
        return normalised(t[2], p, enc, f_and([pc_f, c])) and normalised(t[3], p, enc, f_and([pc_f, f_not(c)]))
    if t == p:
        return implies(pc_f, islist)
    if t == ("list", (p,)):
        return implies(pc_f, f_not(islist))
    if t[0] == "call" and t[1] == "list" and len(t[2]) == 1:
        return normalised(t[2][0], p, enc, pc_f)
    return False


def derived_part(t: Term, p: Term) -> bool:
    return mentions(t, p)


# --------------------------------------------------------------------------- R1


def run_r1(repo: Repo, T, res: Result) -> None:
    rf = RawFlow(repo, T)
    sd = seeds(repo)
    for f, pname, ann in sd:
        rf.analyse(f, pname)
    flagged_in: dict[str, int] = {}
    for fi, node, how, origin in rf.sites.values():
        flagged_in[fi.fq] = flagged_in.get(fi.fq, 0) + 1
        res.add(
            "C16.R1",
            f"{fi.relpath}::{fi.qualname}::{how}",
            False,
            f"`{how}` iterates a value that may still be the bare string handed to {origin}: for the documented string form this iterates the *characters* of the name",
            f"{fi.relpath}:{getattr(node, 'lineno', 0)}",
            kind="flow",
        )
    for f, pname, ann in sd:
        res.add("C16.R1", f"{f.relpath}::{f.qualname}::parameter {pname}", True, f"`{pname}: {ann}` followed through assignments, helpers and hand-offs: only type tests, wrapping and same-typed hand-offs touch the raw value", f"{f.relpath}:{f.node.lineno}", nontrivial=False)
    required = {("LayeredArchitecture", "containing_modules"), ("LayerRule", "are_named")}
    have = {(f.cls.name, f.name) for f, _p, _a in sd if f.cls is not None}
    res.floor("C16.R1", len(required), len(required & have))
    res.extra["r1_fixture"] = r1_fixture_selfcheck()


def r1_fixture_selfcheck() -> str:
    """Positive fixture (engine/fixtures/c16_union_params.py): every `unsafe_*` function must be flagged, no `safe_*` one."""
    import ast
    import shutil
    import tempfile
    from pathlib import Path

    fx = Path(__file__).resolve().parents[1] / "fixtures" / "c16_union_params.py"
    tmp = Path(tempfile.mkdtemp(prefix="pta-fixture-"))
    try:
        (tmp / "src" / "pytestarch").mkdir(parents=True)
        shutil.copy(fx, tmp / "src" / "pytestarch" / "fixture_union_params.py")
        repo = Repo(tmp)
        rf = RawFlow(repo, types_of(repo))
        for f, pname, _ann in seeds(repo):
            rf.analyse(f, pname)
        flagged = {fi.name for fi, _n, _h, _o in rf.sites.values()}
        tree = ast.parse(fx.read_text())
        want_unsafe = [n.name for n in tree.body if isinstance(n, ast.FunctionDef) and n.name.startswith("unsafe_")]
        want_safe = [n.name for n in tree.body if isinstance(n, ast.FunctionDef) and n.name.startswith("safe_")]
        bad = [n for n in want_unsafe if n not in flagged and not any(fl.startswith("_helper_of_" + n) for fl in flagged)] + [n for n in want_safe if n in flagged or any(fl.startswith("_helper_of_" + n) for fl in flagged)]
        if bad:
            raise AnalysisError(f"C16.R1 fixture: idioms not classified as expected: {bad} (flagged: {sorted(flagged)})")
        return f"{len(want_unsafe)} unsafe and {len(want_safe)} safe idioms of engine/fixtures/c16_union_params.py classified as expected"
    finally:
        shutil.rmtree(tmp, ignore_errors=True)


# --------------------------------------------------------------------------- R3 / R4: LayeredArchitecture


# --------------------------------------------------------------------------- cursor attributes (fallback of the pending-layer rules)


class Cursor:
    """An attribute F of the builder that `layer(name)` sets to `name` ("the layer being defined").

    Proves the invariant J(F): *every layer whose stored definition is empty is named by self.F* by induction over the public
    methods: on every path that returns normally, (1) every entry written with a possibly empty value is written under the final
    value of F, and (2) the layers that were pending before (all named by the old F, by J) are still covered: F is unchanged, or
    no layer was pending (guard), or the old F's entry was overwritten with a provably non-empty value.
    """

    def __init__(self, b: Builder) -> None:
        self.b = b
        self.cache: dict[str, tuple[bool, str, str]] = {}

    def candidates(self) -> list[str]:
        r = self.b.run("layer")
        name = ("param", r.fi.param_names[1])
        return sorted({e.data["attr"] for e in r.of("setattr") if e.data["obj"] == SELF and e.data["value"] == name})

    def methods(self) -> list[str]:
        la = self.b.la
        return [n for n, m in la.methods.items() if not m.is_abstract and not m.is_property and (not n.startswith("_") or n in ("__setitem__", "__delitem__")) and n != "__init__"]

    @staticmethod
    def nonempty(v: Term) -> bool:
        return v[0] in ("list", "tuple", "set") and len(v[1]) >= 1

    def prove(self, f: str) -> tuple[bool, str, str]:
        """(holds, why not, where)."""
        if f in self.cache:
            return self.cache[f]
        b = self.b
        cur = ("attr", SELF, f)
        enc = Enc(b.canon)
        out = (True, "", "")
        for name in self.methods():
            r = b.run(name)
            if r.of("opaque") or r.notes:
                if b.store_events(r) or any(e.data["attr"] == f and e.data["obj"] == SELF for e in r.of("setattr")):
                    out = (False, f"{name} could not be followed completely", "")
                    break
                continue
            pend = b.pending_terms(r)
            for pc, _v, heap in r.returns:
                pcf = enc.pc(pc)
                final = heap.get((SELF, f), cur)
                writes = [e for e in b.store_events(r) if satisfiable(f_and([enc.pc(e.pc), pcf]))]
                for e in writes:
                    if not self.nonempty(e.data["value"]) and e.data["key"] != final:
                        what = "the marker of a new layer" if e.data["value"] in (("list", ()), ("tuple", ())) else f"a possibly empty definition (`{show(e.data['value'])[:60]}`)"
                        out = (False, f"{name} writes {what} under `{show(e.data['key'])[:50]}` but leaves the cursor `{f}` at `{show(final)[:40]}`: the layer has no modules and is no longer the one the cursor names", e.where)
                        break
                if not out[0]:
                    break
                if final != cur:
                    covered = (
                        (pend and implies(pcf, enc.len_atom(pend[0], 0)))
                        or implies(pcf, enc.truth(("cmp", "Is", cur, NONE_T)))
                        or any(e.data["key"] == cur and self.nonempty(e.data["value"]) for e in writes)
                    )
                    if not covered:
                        out = (False, f"{name} moves the cursor `{f}` to `{show(final)[:40]}` although the layer it named may still be without modules", f"{r.fi.relpath}:{r.fi.node.lineno}")
                        break
            if not out[0]:
                break
        self.cache[f] = out
        return out



class Mirror:
    """An attribute A of the builder that is consulted *instead of* the stored definitions by the duplicate check (a running set of
    the names that are already assigned).

    Proves the invariant I(A): *A holds the identifier of every stored module filter* by induction over the public methods: the
    constructor leaves the mapping empty; every write of a definition V into the layer mapping is accompanied (on every path that
    returns normally, and with nothing that can raise in between when the write comes first) by additions to A that cover the
    identifiers of V - `A.update(L)` / `A |= set(L)` / `A.extend(L)` for a definition built per element of L, `A.add(x)` for a
    single filter built from x; nothing is ever removed from A and A is never replaced.

    prove(a) -> ('holds' | 'broken' | 'unknown', why, where): 'broken' needs positive evidence (a write without an addition, the raw
    `str | list` argument added instead of its list form, a removal / reset)."""

    ADD_ALL = {"update", "extend"}
    ADD_ONE = {"add", "append"}
    REMOVERS = {"remove", "discard", "pop", "clear", "difference_update", "intersection_update", "symmetric_difference_update", "popitem", "__delitem__"}
    WRAPPERS = ("list", "tuple", "sorted", "set", "frozenset", "iter")

    def __init__(self, b: Builder) -> None:
        self.b = b
        self.cache: dict[str, tuple[str, str, str]] = {}

    def methods(self) -> list[str]:
        return self.b.cursor.methods()

    def candidate(self, t: Term) -> str | None:
        """The attribute name when t is `self.A` for an attribute that is initialised by the constructor or added to by a method."""
        if t[0] != "attr" or t[1] != SELF or t == self.b.store:
            return None
        a = t[2]
        init = self.b.repo.lookup_method(self.b.la, "__init__")
        if init is not None and any(e.data["obj"] == SELF and e.data["attr"] == a for e in self.b.sx.run(init).of("setattr")):
            return a
        for n in self.methods():
            if self.additions(self.b.run(n), a)[0]:
                return a
        return None

    def additions(self, r: Run, a: str):
        """([(event, 'each' | 'one', term)], [(event, why)] removals / replacements, [(event, why)] not understood) on self.a."""
        A = ("attr", SELF, a)
        adds, removes, unknown = [], [], []
        for e in r.events:
            if e.kind == "call" and e.data["recv"] is not None and (e.data["recv"] == A or (mentions(e.data["recv"], A) and e.data["recv"][0] == "binop")):
                meth, args = e.data["method"], e.data["args"]
                if meth in self.ADD_ALL and len(args) == 1:
                    adds.append((e, "each", args[0]))
                elif meth in self.ADD_ONE and len(args) == 1:
                    adds.append((e, "one", args[0]))
                elif meth == "__iop__":
                    pass  # judged at the assignment that follows
                elif meth in self.REMOVERS:
                    removes.append((e, f"`{_ev_text(e)}` removes names from it"))
                else:
                    unknown.append((e, f"the effect of `{_ev_text(e)}` on it is not known"))
            elif e.kind == "setattr" and e.data["obj"] == SELF and e.data["attr"] == a:
                v = e.data["value"]
                if v[0] == "binop" and v[1] in ("BitOr", "Add") and (v[2] == A or mentions(v[2], A)):
                    adds.append((e, "each", v[3]))
                elif v[0] == "mcall" and v[2] == "union" and (v[1] == A or mentions(v[1], A)) and len(v[3]) == 1:
                    adds.append((e, "each", v[3][0]))
                elif not mentions(v, A):
                    removes.append((e, f"`{_ev_text(e)}` replaces it"))
                else:
                    unknown.append((e, f"the effect of `{_ev_text(e)}` on it is not known"))
            elif e.kind == "delitem" and e.data["obj"] == A:
                removes.append((e, f"`{_ev_text(e)}` removes names from it"))
        return adds, removes, unknown

    def identifiers_of(self, v: Term):
        """[('each', source) | ('one', term)] describing the identifiers of the filters of a stored definition, or None."""
        b = self.b
        ident = b.identifier_attr()
        if v[0] == "phi":
            x, y = self.identifiers_of(v[2]), self.identifiers_of(v[3])
            return None if x is None or y is None else x + [i for i in y if i not in x]
        core = strip_wrappers(v, ("list", "tuple"))
        if core[0] in ("list", "tuple", "set"):
            out = []
            for x in core[1]:
                if x[0] != "new":
                    return None
                out.append(("one", b.reduce(("attr", x, ident), {})))
            return out
        if core[0] == "comp" and core[1] != "dict" and len(core[3]) == 1 and not core[3][0][1] and core[2][0] == "new":
            bv = ("bv", core[4])
            if b.reduce(("attr", core[2], ident), {}) == bv:
                return [("each", strip_wrappers(core[3][0][0], self.WRAPPERS))]
        return None

    def covers(self, need, adds) -> bool:
        kind, t = need
        for _e, k, x in adds:
            x = strip_wrappers(x, self.WRAPPERS)
            if x[0] == "comp" and x[1] != "dict" and len(x[3]) == 1 and not x[3][0][1] and x[2] == ("bv", x[4]):
                x = strip_wrappers(x[3][0][0], self.WRAPPERS)  # `(m for m in xs)`
            if kind == "each" and k == "each" and x == t:
                return True
            if kind == "one" and ((k == "one" and x == t) or (k == "each" and x[0] in ("list", "tuple", "set") and t in x[1])):
                return True
        return False

    def prove(self, a: str) -> tuple[str, str, str]:
        if a in self.cache:
            return self.cache[a]
        self.cache[a] = ("unknown", "the proof is recursive", "")
        self.cache[a] = out = self._prove(a)
        return out

    def _prove(self, a: str) -> tuple[str, str, str]:
        b = self.b
        enc = Enc(b.canon)
        unknown: tuple[str, str, str] | None = None
        for name in self.methods():
            r = b.run(name)
            adds, removes, unk = self.additions(r, a)
            writes = b.store_events(r)
            if not writes and not adds and not removes and not unk:
                continue
            m = r.fi
            union = {("param", n) for n in m.param_names[1:] if self._is_union(m, n)}
            if removes:
                return ("broken", f"{name}: {removes[0][1]}, while the stored definitions stay", removes[0][0].where)
            blind = [f"call of {e.data['targets'][0].split('::')[-1]} not followed" for e in r.of("opaque")] + list(r.notes)
            if blind or unk:
                unknown = unknown or ("unknown", f"{name}: {unk[0][1] if unk else blind[0]}", (unk[0][0].where if unk else ""))
                continue
            order = {id(e): i for i, e in enumerate(r.events)}
            for w in writes:
                need = self.identifiers_of(w.data["value"])
                if need is None:
                    unknown = unknown or ("unknown", f"the identifiers of the definition `{show(w.data['value'])[:60]}` stored by {name} are not known", w.where)
                    continue
                if w.in_loop or any(e.in_loop for e, _k, _x in adds):
                    unknown = unknown or ("unknown", f"{name} maintains it inside a loop that could not be summarised", w.where)
                    continue
                wpc = enc.pc(w.pc)
                # additions that happen on every normally returning path through the write
                rets = [enc.pc(pc) for pc, _v, _h in r.returns if satisfiable(f_and([enc.pc(pc), wpc]))]
                sure = [(e, k, x) for e, k, x in adds if all(implies(f_and([rp, wpc]), enc.pc(e.pc)) for rp in rets)]
                for nd in need:
                    if self.covers(nd, sure):
                        late = [e for e, _k, _x in sure if order[id(e)] > order[id(w)]]
                        gap = [x for x in r.of("raise") if late and order[id(w)] < order[id(x)] < max(order[id(e)] for e in late) and satisfiable(f_and([enc.pc(x.pc), wpc]))]
                        if gap and not self.covers(nd, [s_ for s_ in sure if order[id(s_[0])] < order[id(w)]]):
                            return ("broken", f"{name} can raise (`{_ev_text(gap[0])[:50]}`) after the definition is stored and before its names are added", gap[0].where)
                        continue
                    raw = [(e, x) for e, k, x in adds if k == "each" and strip_wrappers(x, self.WRAPPERS) in union]
                    part = [(e, x) for e, k, x in adds if any(y[0] == "slice" for y in subterms(x))]
                    what = f"the identifiers of the filters built from `{show(nd[1])[:50]}`"
                    if raw and nd[0] == "each":
                        return ("broken", f"{name} stores one filter per element of the normalised list but adds `{show(raw[0][1])[:40]}`, the raw `str | list` argument, to `self.{a}` (`{_ev_text(raw[0][0])[:70]}`): for the string form its characters are recorded instead of the module name, which a later layer can then claim again", raw[0][0].where)
                    if part:
                        return ("broken", f"{name} adds only `{show(part[0][1])[:40]}` to `self.{a}`, not {what}", part[0][0].where)
                    if not adds:
                        return ("broken", f"{name} stores `{show(w.data['value'])[:60]}` in the layer mapping without adding {what} to `self.{a}`", w.where)
                    if not sure:
                        return ("broken", f"{name} adds to `self.{a}` only on some of the paths that store `{show(w.data['value'])[:50]}` (`{_ev_text(adds[0][0])[:60]}`)", adds[0][0].where)
                    unknown = unknown or ("unknown", f"that what {name} adds to `self.{a}` (`{show(sure[0][2])[:50]}`) covers {what} is not established", sure[0][0].where)
        return unknown or ("holds", "", "")

    @staticmethod
    def _is_union(m: FuncInfo, pname: str) -> bool:
        import ast as _ast

        for arg in [*m.node.args.posonlyargs, *m.node.args.args, *m.node.args.kwonlyargs]:
            if arg.arg == pname and arg.annotation is not None:
                txt = _ast.unparse(arg.annotation)
                return "str" in txt and ("list" in txt.lower() or "Sequence" in txt or "Iterable" in txt)
        return False


def check_rejections(res: Result, r: Run, enc: Enc, accept, what: str, also=None) -> None:
    """Every call that returns normally satisfies the acceptance condition, and what is raised otherwise is a configuration error."""
    m = r.fi
    key = K(m, "[violations raise a configuration error]")
    silent = [pc for pc, _v, _h in r.returns if not implies(enc.pc(pc), accept) or (also is not None and not also(pc))]
    other = [e for e in r.of("raise") if e.data["cls"] != CONFIG_ERROR and not e.in_loop and satisfiable(f_and([enc.pc(e.pc), f_not(accept)]))]
    if silent:
        verdict(res, r, "C16.R3", key, False, f"{m.name} can return normally although {what} (path: `{show_pc(silent[0])[:140]}`): the ill-formed call is not rejected", f"{m.relpath}:{m.node.lineno}", kind="dominance", terms=silent[0])
    elif other:
        verdict(res, r, "C16.R3", key, False, f"an ill-formed call raises `{other[0].data['cls']}` instead of a configuration error", other[0].where, kind="dominance")
    else:
        verdict(res, r, "C16.R3", key, True, f"every call that returns normally satisfies the guard; everything else ends in {CONFIG_ERROR}", f"{m.relpath}:{m.node.lineno}", kind="dominance")


def check_layer(b: Builder, res: Result) -> None:
    r = b.run("layer")
    m = r.fi
    name = ("param", m.param_names[1])
    enc = Enc(b.canon)
    evs = b.store_events(r)
    in_store = enc.truth(("cmp", "In", name, b.store))
    pend = b.pending_terms(r)
    no_pending = enc.len_atom(pend[0], 0) if pend else None
    for e in evs:
        pcf = enc.pc(e.pc)
        if e.in_loop:
            res.undecide("C16.R3", K(m, "opens the layer"), "the new layer is written inside a loop that could not be summarised", e.where)
            continue
        ok1 = no_pending is not None and implies(pcf, no_pending)
        flag = None if ok1 else next((f for f in b.cursor.candidates() if implies(pcf, enc.truth(("cmp", "Is", ("attr", SELF, f), NONE_T)))), None)
        if flag is not None:
            holds, why, where_ = b.cursor.prove(flag)
            if holds:
                res.undecide("C16.R3", K(m, "[no pending layer]"), f"layer() is guarded by the cursor `{flag}` instead of the stored definitions; every pending layer is named by it, but that it is reset only once the layer has modules is not established", e.where)
            else:
                verdict(res, r, "C16.R3", K(m, "[no pending layer]"), False, f"a new layer can be opened while another layer still has no modules: layer() trusts the cursor `{flag}`, but {why}", where_ or e.where, kind="dominance")
        if ok1:
            d1 = "a new layer is opened only when no layer is waiting for its modules"
        elif no_pending is None:
            d1 = f"a new layer can be opened while another layer still has no modules: the guard `{show_pc(e.pc)[:140]}` does not consult the stored definitions (a layer counts as pending while its stored module sequence is empty)"
        else:
            d1 = f"a new layer can be opened while another layer still has no modules (guard: `{show_pc(e.pc)[:140]}`)"
        consults = [t for t, _pol in facts(e.pc) if mentions(t, b.store) and t != ("cmp", "In", name, b.store)] if no_pending is None else []
        if flag is None and consults:
            res.undecide("C16.R3", K(m, "[no pending layer]"), f"layer() is guarded by `{show(consults[0])[:140]}`, which consults the stored definitions in a way that is not recognised as the scan for layers without modules", e.where)
        elif flag is None:
            verdict(res, r, "C16.R3", K(m, "[no pending layer]"), ok1, d1, e.where, kind="dominance", terms=e.pc)
        ok2 = implies(pcf, f_not(in_store))
        verdict(res, r, "C16.R3", K(m, "[unique name]"), ok2, "a layer name can be defined once" if ok2 else f"a layer name can be defined twice: the second definition replaces the first (guard: `{show_pc(e.pc)[:140]}`)", e.where, kind="dominance", terms=e.pc)
        v = e.data["value"]
        ok3 = v[0] in ("list", "tuple", "set") and not v[1]
        verdict(res, r, "C16.R3", K(m, "[opens empty]"), ok3, "the new layer starts without modules" if ok3 else f"the new layer is opened with `{show(v)[:60]}` instead of an empty definition", e.where, nontrivial=False)
    if not evs:
        raise AnalysisError(f"{m.fq}: no write of the new layer")
    if not r.returns:
        verdict(res, r, "C16.R3", K(m, "accepts a new name"), False, "layer() never returns normally", kind="structural")
    elif no_pending is not None:
        check_rejections(res, r, enc, f_and([no_pending, f_not(in_store)]), "a layer is still waiting for its modules or the name is already defined")


def check_modules_method(b: Builder, res: Result, mname: str, union_param: bool) -> None:
    r = b.run(mname)
    m = r.fi
    p = ("param", m.param_names[1])
    enc = Enc(b.canon, {p} if union_param else set())
    evs = b.store_events(r)
    if not evs:
        verdict(res, r, "C16.R4", K(m, "[stored under the pending layer]"), False, f"{m.qualname} does not store the supplied modules in the layer mapping", f"{m.relpath}:{m.node.lineno}", kind="structural")
        return
    pend = b.pending_terms(r)
    for e in evs:
        pcf = enc.pc(e.pc)
        if e.in_loop:
            res.undecide("C16.R3", K(m, "[exactly one pending layer]"), "the modules are stored inside a loop that could not be summarised", e.where)
            continue
        one = enc.len_atom(pend[0], 1) if pend else None
        ok = one is not None and implies(pcf, one)
        consults = [t for t, _pol in facts(e.pc) if mentions(t, b.store) and not mentions(t, p)] if one is None else []
        if consults:
            res.undecide("C16.R3", K(m, "[exactly one pending layer]"), f"the store is guarded by `{show(consults[0])[:140]}`, which consults the stored definitions in a way that is not recognised as the scan for layers without modules", e.where)
        else:
          verdict(res, r, 
            "C16.R3",
            K(m, "[exactly one pending layer]"),
            ok,
            "modules are stored only when exactly one layer is pending" if ok else f"modules can be stored although not exactly one layer is waiting for its modules (guard: `{show_pc(e.pc)[:160]}`)" + ("" if pend else "; the guard does not consult the stored definitions"),
            e.where,
            kind="dominance",
            terms=e.pc,
        )
        key = e.data["key"]
        ok = b.single_pending(key) and e.data["how"] in ("[]=", "update")  # (setdefault would keep the empty marker)
        if not ok and key[0] == "attr" and key[1] == SELF and key[2] in b.cursor.candidates() and e.data["how"] in ("[]=", "update"):
            holds, why, where_ = b.cursor.prove(key[2])
            if holds and one is not None and implies(pcf, one):
                verdict(res, r, "C16.R4", K(m, "[stored under the pending layer]"), True, f"stored under the cursor `{key[2]}`: every pending layer is named by it (invariant over all public methods) and exactly one layer is pending", e.where, kind="structural")
            elif not holds:
                verdict(res, r, "C16.R4", K(m, "[stored under the pending layer]"), False, f"the modules are stored under the cursor `{key[2]}`, which need not name the pending layer: {why}", where_ or e.where, kind="structural")
            else:
                res.undecide("C16.R4", K(m, "[stored under the pending layer]"), f"the modules are stored under the cursor `{key[2]}`; that it names the one pending layer is not established without a guard on the stored definitions", e.where)
            ok = None
        if ok is False and mentions(key, b.store) and e.data["how"] in ("[]=", "update") and not b.picked_from_all_layers(key):
            # derived from the stored definitions, but neither a pick from the pending layers nor one from all layers
            res.undecide("C16.R4", K(m, "[stored under the pending layer]"), f"the modules are stored under `{show(key)[:100]}`, which is not recognised as the layer that is waiting for its modules", e.where)
            ok = None
        if ok is not None:
            verdict(res, r, "C16.R4", K(m, "[stored under the pending layer]"), ok, "stored under the single pending layer" if ok else f"the modules are stored under `{show(key)[:80]}`, not under the one layer that is waiting for its modules", e.where, kind="structural", terms=(key,))
        v = e.data["value"]
        if union_param:
            check_dup_guard(b, res, r, m, e, p, enc)
            check_image(b, res, r, m, e, p, enc)
        else:
            cls = v[1][0][1].rsplit(".", 1)[-1] if v[0] in ("list", "tuple") and len(v[1]) == 1 and v[1][0][0] == "new" else None
            args = [x for x in (v[1][0][2] + tuple(val for _k, val in v[1][0][3]))] if cls else []
            ok = cls == "ModuleNameRegexFilter" and args == [p]
            verdict(res, r, "C16.R4", K(m, "[regex filter stored]"), ok, "exactly one regex filter built from the supplied pattern is stored" if ok else f"`{show(v)[:80]}` is not the single regex filter of the supplied pattern", e.where, kind="structural", terms=(v,))
        if one is not None and e is evs[-1]:
            if union_param:
                def dup_free(pc: tuple) -> bool:
                    pcf = enc.pc(pc)
                    for t, pol in facts(pc):
                        got = classify_dup(b, t, pol, p, enc, pcf)
                        if got is not None and got[0] == "ok":
                            return True
                        if got is None and classify_dup(b, t, not pol, p, enc, pcf) is None and mentions(t, b.store) and mentions(t, p):
                            return True  # an unrecognised relation between the argument and the stored names: judged (as undecided) by the duplicate-guard obligation
                    return False

                check_rejections(res, r, enc, one, "not exactly one layer is waiting for its modules or a supplied module is already assigned", dup_free)
            else:
                check_rejections(res, r, enc, one, "not exactly one layer is waiting for its modules")


def check_dup_guard(b: Builder, res: Result, r: Run, m: FuncInfo, e: Event, p: Term, enc: Enc) -> None:
    """The store is reached only when no supplied module name is among the identifiers of all stored filters."""
    pcf = enc.pc(e.pc)
    verdicts: list[tuple[str, str]] = []  # ('ok'|'bad'|'unknown', detail)
    for t, pol in facts(e.pc):
        got = classify_dup(b, t, pol, p, enc, pcf)
        if got is not None:
            verdicts.append(got)
    key = K(m, "duplicate-module guard")
    oks = [v for v in verdicts if v[0] == "ok"]
    bads = [v for v in verdicts if v[0] == "bad"]
    if oks:
        verdict(res, r, "C16.R3", key, True, oks[0][1], e.where, kind="dominance")
    elif bads:
        verdict(res, r, "C16.R3", key, False, bads[0][1], e.where, kind="dominance")
    elif verdicts:
        res.undecide("C16.R3", key, verdicts[0][1], e.where)
    elif [t for t, _pol in facts(e.pc) if mentions(t, b.store) and mentions(t, p)]:
        t = [t for t, _pol in facts(e.pc) if mentions(t, b.store) and mentions(t, p)][0]
        res.undecide("C16.R3", key, f"the store is guarded by `{show(t)[:140]}`, which relates the supplied modules to the stored definitions in a way that is not recognised as a duplicate check", e.where)
    else:
        verdict(res, r, "C16.R3", key, False, f"no duplicate-module guard dominates the store (it is reached under `{show_pc(e.pc)[:160]}`)", e.where, kind="dominance", terms=e.pc)


def classify_dup(b: Builder, t: Term, pol: bool, p: Term, enc: Enc, pcf) -> tuple[str, str] | None:
    new = exist = None
    member = False  # the existing names are consulted by repeated membership tests (must be materialised)
    tested = bv = None  # membership forms: the expression (over the element variable bv of the new side) that is looked up
    shape = t
    if not pol:
        core = strip_wrappers(t, ("list", "tuple", "sorted", "set", "frozenset"))
        if core[0] == "mcall" and core[2] in ("intersection",) and len(core[3]) == 1:
            new, exist = core[1], core[3][0]
        elif core[0] == "binop" and core[1] == "BitAnd":
            new, exist = core[2], core[3]
        elif core[0] == "comp" and core[1] != "dict" and len(core[3]) == 1:
            new, exist, member, tested = _membership(core[3][0])
            bv = ("bv", core[4])
        elif core[0] == "any" and len(core[1]) == 1:
            new, exist, member, tested = _membership(core[1][0])
            bv = ("bv", core[2])
        elif core[0] == "any" and len(core[1]) == 2:
            # nested loops over the stored definitions that raise on the first assigned name: `for fs in ..: for f in fs: if key(f) in NEW: raise`
            (i1, f1), (i2, f2) = core[1]
            bv = ("bv", core[2] + 1)
            new, exist, member, tested = _membership((("comp", "gen", bv, ((i1, f1), (i2, ())), core[2]), f2))
        elif core[0] == "call" and core[1] == "any" and len(core[2]) == 1 and core[2][0][0] == "comp" and len(core[2][0][3]) == 1:
            c = core[2][0]
            it, ifs = c[3][0]
            bv = ("bv", c[4])
            if c[2][0] == "cmp" and c[2][1] == "In":
                new, exist, member, tested = _membership((it, ifs + (c[2],)))
            else:
                new, exist, member, tested = _membership((it, ifs))
        else:
            return None
    else:
        if t[0] == "mcall" and t[2] == "isdisjoint" and len(t[3]) == 1:
            new, exist = t[1], t[3][0]
        else:
            return None
    if new is None or exist is None:
        return None
    # operands may be written in either order
    swapped = False
    if b.all_identifiers(new) is not None and b.all_identifiers(exist) is None:
        new, exist = exist, new
        swapped = True
        if member:
            # `[x for x in existing if x in new]`: the new names are the membership-tested side; a list / set of them is fine
            member = False
    info = b.all_identifiers(exist)
    if info is None:
        if not derived_part(new, p):
            return None
        return ("unknown", f"the duplicate check `{show(shape)[:120]}` consults `{show(exist)[:60]}`, which is not recognisably derived from the stored definitions")
    if not derived_part(new, p):
        return ("bad", f"the duplicate check `{show(shape)[:120]}` does not test the supplied modules")
    # the key compared per supplied module m: the element itself, or what a comprehension over the normalised argument builds
    n = strip_wrappers(new, ("list", "tuple", "sorted", "set", "frozenset"))
    if normalised(n, p, enc, pcf):
        elem = b.M
    elif n[0] == "comp" and n[1] != "dict" and len(n[3]) == 1 and not n[3][0][1] and normalised(strip_wrappers(n[3][0][0], ("list", "tuple", "sorted", "set", "frozenset", "iter")), p, enc, pcf):
        elem = b.reduce(n[2], {("bv", n[4]): b.M})
    else:
        why = "only a part of the supplied modules" if any(x[0] == "slice" for x in subterms(n)) else "not the normalised (list) form of the supplied modules"
        if n == p or any(x[0] == "slice" for x in subterms(n)) or n[0] in ("index",):
            return ("bad", f"the duplicate check tests `{show(n)[:60]}`: {why}")
        return ("unknown", f"the duplicate check tests `{show(n)[:60]}`, which is not recognised as the whole normalised argument")
    if info[0] == "partial":
        return ("bad", f"the duplicate check does not cover the modules of all layers: {info[1]}")
    if info[0] == "unknown":
        return ("unknown", f"the duplicate check `{show(shape)[:100]}`: {info[1]}")
    _all, materialised, elt, fbv = info
    if swapped and tested is not None:
        # `[f for f in <stored> if key(f) in <new>]`: the looked-up expression belongs to the stored side
        elt, new_key = b.reduce(tested, {bv: elt}), elem
    else:
        new_key = elem if tested is None else b.reduce(tested, {bv: elem})
    agree = b.key_agreement(new_key, elt, fbv)
    if agree[0] == "bad":
        return ("bad", f"the duplicate check `{show(shape)[:100]}` misses duplicates: {agree[1]}")
    if agree[0] == "unknown":
        return ("unknown", f"the duplicate check `{show(shape)[:100]}`: {agree[1]}")
    if member and not materialised:
        return ("bad", f"duplicates are found by membership tests in `{show(exist)[:80]}`, a one-shot iterator that is exhausted by the first name that is not assigned yet")
    if not member and not materialised and t[0] == "binop":
        return ("bad", f"`{show(exist)[:80]}` is a one-shot iterator, not a set")
    return ("ok", "every supplied module (normalised list form) is compared with the identifiers of all stored module filters before the store")


def _membership(gen: tuple):
    """`[.. for x in NEW if key(x) in EXIST]` -> (NEW, EXIST, True, key(x)); the membership test must be the only filter."""
    it, ifs = gen
    if len(ifs) == 1 and ifs[0][0] == "cmp" and ifs[0][1] == "In":
        return it, ifs[0][3], True, ifs[0][2]
    return None, None, False, None


def check_image(b: Builder, res: Result, r: Run, m: FuncInfo, e: Event, p: Term, enc: Enc) -> None:
    """The stored value is the order-preserving image of the whole normalised list: one name filter per supplied module."""
    v = e.data["value"]
    pcf = enc.pc(e.pc)
    key = K(m, "[whole normalised list, in order]")
    core = strip_wrappers(v, ("list", "tuple"))
    if core[0] != "comp" or core[1] not in ("list", "gen"):
        if any(x[0] == "slice" for x in subterms(core)) and mentions(core, p):
            verdict(res, r, "C16.R4", key, False, f"`{show(v)[:100]}` stores only a part of the supplied modules", e.where, kind="flow")
        else:
            res.undecide("C16.R4", key, f"the stored value `{show(v)[:100]}` is not recognised as one filter per supplied module", e.where)
        return
    if core[1] == "gen" and core is v:
        verdict(res, r, "C16.R4", key, False, "a one-shot generator is stored instead of the list of filters", e.where, kind="flow")
        return
    gens, elt = core[3], core[2]
    problems = []
    if len(gens) != 1:
        problems.append("more than one loop builds the stored filters")
    else:
        it, ifs = gens[0]
        if ifs:
            problems.append(f"supplied modules are filtered by `{show(ifs[0])[:60]}`")
        src = strip_wrappers(it, ("list", "tuple", "iter"))
        if not normalised(src, p, enc, pcf):
            if any(x[0] == "slice" for x in subterms(it)):
                problems.append(f"only `{show(it)[:60]}` of the supplied modules is stored")
            elif it[0] == "call" and it[1] in ("sorted", "set", "reversed", "frozenset"):
                problems.append(f"`{show(it)[:60]}` does not keep the supplied order")
            elif src == p:
                problems.append("the raw argument is iterated instead of its normalised list form")
            else:
                res.undecide("C16.R4", key, f"the stored filters are built from `{show(it)[:80]}`, which is not recognised as the normalised argument", e.where)
                return
        bv = b._first_bv(core)
        cls = elt[1].rsplit(".", 1)[-1] if elt[0] == "new" else None
        args = list(elt[2]) + [val for _k, val in elt[3]] if elt[0] == "new" else []
        if cls != "ModuleNameFilter" or args != [bv]:
            problems.append(f"each element is `{show(elt)[:60]}`, not a name filter of the supplied module")
    ok = not problems
    verdict(res, r, "C16.R4", key, ok, "one name filter per supplied module, whole normalised list, in order" if ok else "; ".join(problems), e.where, kind="flow")


def value_kind(v: Term) -> str:
    if v[0] in ("list", "tuple", "set", "dict"):
        return v[0]
    if v[0] == "comp":
        return {"gen": "iterator"}.get(v[1], v[1])
    if v[0] == "call" and isinstance(v[1], str) and v[1] in ("list", "sorted"):
        return "list"
    if v[0] == "call" and isinstance(v[1], str) and v[1] in ("tuple", "set", "frozenset"):
        return v[1]
    if v[0] == "phi":
        a, c = value_kind(v[2]), value_kind(v[3])
        return a if a == c else "mixed"
    return "unknown"


def check_marker(b: Builder, res: Result, names: list[str]) -> None:
    """The test that recognises a pending layer must hold for every *empty* definition the builder can store."""
    la = b.la
    preds: list[tuple[str, Term]] = []
    for n in names:
        for t in b.pending_terms(b.run(n)):
            k = b.pending(t)
            if (k, t) not in preds:
                preds.append((k, t))
    kinds = {k for k, _t in preds}
    key = f"{la.module.relpath}::{la.name}::pending-layer marker"
    if not kinds:
        return  # reported by [no pending layer]
    stored = []
    for n in names:
        for e in b.store_events(b.run(n)):
            stored.append((n, e, value_kind(e.data["value"])))
    bad = []
    unknown = []
    if "never" in kinds:
        t = next(t for k, t in preds if k == "never")
        verdict(res, b.run("layer"), "C16.R3", key, False, f"`{show(t)[:120]}` does not recognise a layer with an empty definition as pending, so the next layer can be opened before it received its modules", kind="structural")
        return
    if "?" in kinds:
        t = next(t for k, t in preds if k == "?")
        res.undecide("C16.R3", key, f"the test that recognises pending layers in `{show(t)[:120]}` could not be evaluated on an empty definition")
        return
    for k in kinds:
        if k == "agnostic":
            continue
        for n, e, vk in stored:
            if vk == "unknown":
                unknown.append((n, e, vk))
            elif vk != k:
                bad.append((n, e, vk, k))
    if bad:
        n, e, vk, k = bad[0]
        verdict(res, b.run(n), "C16.R3", key, False, f"pending layers are recognised by comparing with an empty {k}, but {la.name}.{n} stores a {vk} (`{show(e.data['value'])[:60]}`): an empty definition is no longer recognised as pending, so the next layer can be opened", e.where, kind="structural")
    elif unknown:
        n, e, _vk = unknown[0]
        res.undecide("C16.R3", key, f"the kind of the value stored by {la.name}.{n} (`{show(e.data['value'])[:60]}`) is not known, but pending layers are recognised by an equality test with an empty literal", e.where)
    else:
        res.add("C16.R3", key, True, "a layer counts as pending while its stored module sequence is empty; the emptiness test agrees with the kind of every stored value", kind="structural")


def check_readers(b: Builder, res: Result) -> None:
    la = b.la
    gi = b.run("__getitem__")
    m = gi.fi
    p = ("param", m.param_names[1])
    vals = [strip_wrappers(v, ("list", "tuple")) for _pc, v, _h in gi.returns]
    ok = len(vals) == 1 and vals[0] == ("index", b.store, p) and not gi.of("raise")
    verdict(res, gi, "C16.R4", K(m, "reads the mapping unchanged"), ok, "architecture[layer] returns the stored definition" if ok else f"architecture[layer] returns `{show(vals[0])[:80] if vals else '?'}`, not the stored definition of the layer", f"{m.relpath}:{m.node.lineno}", kind="structural")
    st = b.run("__str__")
    m = st.fi
    comps = []
    for _pc, v, _h in st.returns:
        comps += [x for x in subterms(v) if x[0] == "comp"]
    walks_all = False
    problems = []
    entry_iters = (("mcall", b.store, "items", ()), b.store, ("mcall", b.store, "keys", ()), ("mcall", b.store, "values", ()))
    for c in comps:
        for it, ifs in c[3]:
            if it in entry_iters:
                if ifs:
                    problems.append(f"layers are filtered by `{show(ifs[0])[:60]}`")
                else:
                    walks_all = True
            elif mentions(it, b.store) and any(x[0] == "slice" for x in subterms(it)):
                problems.append(f"only `{show(it)[:60]}` is listed")
            elif ifs and any(x[0] == "bv" for x in subterms(it)):
                problems.append(f"modules are filtered by `{show(ifs[0])[:60]}`")
    for _pc, v, _h in st.returns:
        for x in subterms(v):
            if x[0] == "slice" and any(y[0] == "comp" and mentions(y, b.store) for y in subterms(x[1])):
                problems.append("only a slice of the layers is listed")
    ok = walks_all and not problems and len(st.returns) == 1
    if not ok and not problems and len(st.returns) == 1 and any(mentions(v, b.store) for _pc, v, _h in st.returns):
        res.undecide("C16.R4", K(m, "lists all layers"), f"the way str(architecture) walks the layer mapping is not recognised: `{show(st.returns[0][1])[:160]}`", f"{m.relpath}:{m.node.lineno}")
        return
    verdict(res, st, "C16.R4", K(m, "lists all layers"), ok, "str(architecture) lists every layer with its modules in definition order" if ok else "str(architecture) does not list all layers and modules" + (": " + problems[0] if problems else ""), f"{m.relpath}:{m.node.lineno}", kind="structural")


# --------------------------------------------------------------------------- R2 / R3: LayerRule


class RuleFacts:
    def __init__(self, repo: Repo, sx: SymExec, lr: ClassInfo) -> None:
        self.repo, self.sx, self.lr = repo, sx, lr
        self.runs: dict[str, Run] = {}

    def run(self, name: str) -> Run:
        if name not in self.runs:
            self.runs[name] = self.sx.run(public_method(self.repo, self.lr, name))
        return self.runs[name]


def config_raises(r: Run) -> list[Event]:
    return [e for e in r.of("raise") if e.data["cls"] == CONFIG_ERROR]


def check_layer_rule(repo: Repo, sx: SymExec, res: Result) -> None:
    lr = public_class(repo, "LayerRule")
    rule_cls = public_class(repo, "Rule")
    F = RuleFacts(repo, sx, lr)
    enc = Enc()
    # ---- based_on: the attribute that receives the architecture
    bo = F.run("based_on")
    m = bo.fi
    ap = ("param", m.param_names[1])
    sets = [e for e in bo.of("setattr") if e.data["obj"] == SELF and e.data["value"] == ap]
    if len({e.data["attr"] for e in sets}) != 1:
        raise AnalysisError(f"{m.fq}: the attribute that receives the architecture was not found")
    arch = ("attr", SELF, sets[0].data["attr"])
    # truth value of the architecture attribute: an object of a class without __bool__ / __len__ is always truthy, so `if self._a:`
    # is `if self._a is not None:`; once the class (or a subclass) defines one of them an architecture can be falsy
    la = public_class(repo, "LayeredArchitecture")
    sized = [f"{c.name}.{n}" for c in [*repo.mro(la), *repo.subclasses(la)] for n in ("__bool__", "__len__") if n in c.methods]
    falsy_note = f"; {sized[0]} makes an architecture without layers falsy, so a truth-value test of `{show(arch)}` is not a test for None" if sized else ""
    enc = Enc(objects=set() if sized else {arch})
    F.arch_objects = enc.objects
    arch_none = enc.truth(("cmp", "Is", arch, NONE_T))
    raised = f_or([enc.pc(e.pc) for e in config_raises(bo)])
    ok = equivalent(raised, f_not(arch_none)) and all(implies(enc.pc(e.pc), arch_none) for e in sets)
    verdict(res, bo, "C16.R3", K(m, "architecture set once"), ok, "a second based_on raises a configuration error and leaves the architecture alone" if ok else f"based_on can replace the architecture of a rule (configuration error raised iff `{_show_f(raised)}`){falsy_note}", f"{m.relpath}:{m.node.lineno}", kind="decision-table")
    # ---- layers_that: architecture first; the attribute that receives the module rule
    lt = F.run("layers_that")
    m = lt.fi
    rsets = [e for e in lt.of("setattr") if e.data["obj"] == SELF and e.data["value"][0] == "obj" and e.data["value"][1] == rule_cls.fq]
    if len({e.data["attr"] for e in rsets}) != 1:
        raise AnalysisError(f"{m.fq}: the attribute that receives the module rule was not found")
    rule = ("attr", SELF, rsets[0].data["attr"])
    raised = f_or([enc.pc(e.pc) for e in config_raises(lt)])
    ok = equivalent(raised, arch_none) and all(implies(enc.pc(e.pc), f_not(arch_none)) for e in rsets)
    verdict(res, lt, "C16.R3", K(m, "architecture first"), ok, "layers_that requires an architecture" if ok else f"layers_that no longer requires an architecture (configuration error raised iff `{_show_f(raised)}`){falsy_note}", f"{m.relpath}:{m.node.lineno}", kind="decision-table")
    # ---- the side flag of Rule: the attribute Rule.modules_that() sets to True
    mt = sx.run(public_method(repo, rule_cls, "modules_that"))
    flags = {e.data["attr"] for e in mt.of("setattr") if e.data["obj"] == SELF and e.data["value"] == ("const", True)}
    if not flags:
        flags = {e.data["attr"] for e in mt.of("setattr") if e.data["obj"] == SELF}  # whatever modules_that() marks the side with
    if len(flags) != 1:
        raise AnalysisError(f"{mt.fi.fq}: the flag that marks the subject side was not found ({sorted(flags)})")
    flag = flags.pop()
    check_are_named(repo, F, res, arch, rule, flag)
    check_side_flag(repo, F, res, rule, rule_cls, flag)


def _show_f(f) -> str:
    from core.guards import show as gshow

    return gshow(f)[:200]


def own_state_sequences(repo: Repo, F: RuleFacts, res: Result, r: Run, enc: Enc, rule: Term, side: Term, S, L, started, raised, subj: list, extra: set, key: str):
    """are_named decides on state of its own (not only on the side flag of the wrapped rule).  The public words are interpreted as
    state transformers over (own state, side flag): starting from `__init__(); layers_that()`, every sequence of are_named / behaviour
    words / access words (up to 5 calls) is explored on the abstract state, and in every reachable state the configuration errors of
    are_named must be `wrapped rule on the subject side and (subject present or list)`.

    Returns (subject term, required formula, reachable-states formula) when that holds, None when a verdict / undecided was recorded."""
    from core.guards import atoms_of, evaluate

    from .c16_logic import models

    m = r.fi
    where_ = f"{m.relpath}:{m.node.lineno}"
    subject = lambda a: a[:-2] if a.startswith("len(") and a[-2] == "=" else a  # noqa: E731
    pcs = [e.pc for e in config_raises(r)]
    own: list[Term] = []
    for x in subterms(tuple(pcs)):
        if x[0] == "attr" and _rooted_at_self(x) and x != rule and x != side and x not in own and not any(y[0] in ("bv", "param") for y in subterms(x)):
            if {subject(a) for a in atoms_of(enc.truth(x))} & extra:
                own.append(x)
    explained = {subject(a) for t in own for a in atoms_of(enc.truth(t))}
    if not own or not extra <= explained:
        missing = sorted(extra - explained)
        res.undecide("C16.R2", key, f"the configuration errors of are_named depend on `{(missing or sorted(extra))[0]}`, which is neither the side flag, the subject of the wrapped rule, the kind of the argument nor an attribute of the layer rule (raised iff `{_show_f(raised)}`)", where_)
        return None
    V = [side] + own
    lr = F.lr
    init = F.sx.run(public_method(repo, lr, "__init__")) if repo.lookup_method(lr, "__init__") is not None else None
    words = ["are_named"] + declared_in(repo, lr, "BehaviorBaseSpecification") + declared_in(repo, lr, "AccessSpecification")
    blind = [n for n in ["layers_that"] + words if F.run(n).of("opaque") or F.run(n).notes]
    if blind:
        res.undecide("C16.R2", key, f"are_named keeps state of its own (`{show(own[0])}`), but {blind[0]} could not be followed completely", where_)
        return None

    def final(t: Term, heap: dict) -> Term:
        if t == SELF or t[0] != "attr":
            return t
        base = final(t[1], heap)
        return heap.get((base, t[2]), heap.get((t[1], t[2]), ("attr", base, t[2])))

    def lit(val: tuple):
        return f_and([enc.truth(t) if v else f_not(enc.truth(t)) for t, v in zip(V, val) if v is not None])

    def step(run: Run, val: tuple, constraint) -> set:
        out = set()
        for pc, _v, heap in run.returns:
            base = f_and([enc.pc(pc), lit(val), constraint])
            fins = [enc.truth(final(t, heap)) for t in V]
            names = set(atoms_of(base))
            for f in fins:
                names |= atoms_of(f)
            for env in models(names):
                if evaluate(base, env):
                    out.add(tuple(evaluate(f, env) for f in fins))
        return out

    from core.guards import TRUE

    start = {tuple(None for _ in V)}
    if init is not None:
        start = step(init, tuple(None for _ in V), TRUE) or start
    states: dict[tuple, tuple] = {}
    for v0 in start:
        for v1 in step(F.run("layers_that"), v0, TRUE):
            states.setdefault(v1, ("layers_that",))
    if not states:
        res.undecide("C16.R2", key, "no state after layers_that() could be derived", where_)
        return None
    frontier = list(states)
    for _depth in range(5):
        nxt = []
        for val in frontier:
            for w in words:
                for v2 in step(F.run(w), val, started):
                    if v2 not in states:
                        states[v2] = states[val] + (w,)
                        nxt.append(v2)
        frontier = nxt
        if not frontier:
            break
    reach = f_or([lit(v) for v in states])
    for c in subj:
        want = f_and([S, f_or([enc.truth(c), L])])
        bad = [v for v in states if not equivalent(raised, want, f_and([started, lit(v)]))]
        if not bad:
            res.add("C16.R2", key, True, f"are_named decides on `{show(own[0])}`; in all {len(states)} states reachable through layers_that / are_named / behaviour words / access words it raises a configuration error exactly when the wrapped rule is on the subject side and a subject is already present or a list is given", where_, kind="decision-table")
            return (c, want, reach)
    c = subj[0]
    want = f_and([S, f_or([enc.truth(c), L])])
    v = min((v for v in states if not equivalent(raised, want, f_and([started, lit(v)]))), key=lambda x: len(states[x]))
    seq = "().".join(states[v]) + "()"
    desc = ", ".join(f"`{show(t)}` is {'truthy' if b else 'falsy'}" for t, b in zip(V, v))
    missed = satisfiable(f_and([want, f_not(raised)]), f_and([started, lit(v)]))
    consequence = "a further (or batched) subject layer is accepted and appended to the subjects of the wrapped rule" if missed else "layers of the rule object are rejected as if they were subjects"
    verdict(res, r, "C16.R2", key, False, f"after {seq} {desc}: are_named decides on its own state, which disagrees with the side of the wrapped rule, so {consequence} (configuration error raised iff `{_show_f(raised)}`)", where_, kind="decision-table")
    return None


def check_are_named(repo: Repo, F: RuleFacts, res: Result, arch: Term, rule: Term, flag: str) -> None:
    r = F.run("are_named")
    m = r.fi
    p = ("param", m.param_names[1])
    enc = Enc(None, {p}, getattr(F, "arch_objects", set()))
    side = ("attr", rule, flag)
    S = enc.truth(side)
    L = enc.truth(("isinstance", p, ("list",)))
    none = enc.truth(("cmp", "Is", rule, NONE_T))
    arch_none = enc.truth(("cmp", "Is", arch, NONE_T))
    # once layers_that() has run the side flag is True or False, never None (obligations `side flag: ..` of check_side_flag: True after
    # layers_that, untouched by the behaviour words, a falsy constant other than None after the access words, unchanged by are_named):
    # configuration errors the wrapped rule keeps for "neither subject nor object announced" are unreachable from are_named
    started = f_and([f_not(none), f_not(arch_none), f_not(enc.truth(("cmp", "Is", side, NONE_T)))])
    # effects on the wrapped rule: writes / mutating calls on objects reachable from it
    effects = [e for e in r.events if (e.kind == "setattr" and (mentions(e.data["obj"], rule) or (e.data["obj"] == SELF and ("attr", SELF, e.data["attr"]) == rule))) or (e.kind == "call" and e.data["method"] in MUTATORS and e.data["recv"] is not None and mentions(e.data["recv"], rule))]
    subj: list[Term] = []
    for e in effects:
        if e.kind == "setattr" and e.data["obj"] == SELF:
            continue
        targets = [((), ("attr", e.data["obj"], e.data["attr"]))] if e.kind == "setattr" else list(phi_leaves(e.data["recv"]))
        for conds, leaf in targets:
            if not implies(enc.pc(e.pc + conds), S, started) or not satisfiable(enc.pc(e.pc + conds), started):
                continue
            cands = [x for x in subterms(leaf) if x[0] == "attr" and mentions(x, rule)]
            for c in cands:
                if c not in subj and c != side and c != rule and not any(mentions(o, c) and o != c for o in cands):
                    subj.append(c)
    # are_named itself must leave the side as it found it: the guard of the *next* are_named reads the same flag, so a flag that
    # is falsy after the subject has been stored lets a second subject layer through (filed as an object), and a flag that turns
    # truthy on the object side makes further object layers subjects
    skey = K(m, "side flag: unchanged by are_named")
    moved = None
    for pc, _v, heap in r.returns:
        rule_after = heap.get((SELF, rule[2]), rule)
        final = heap.get((rule_after, flag), heap.get((rule, flag)))
        if final is None or final == side:
            continue
        pcf = f_and([enc.pc(pc), started])
        if not satisfiable(pcf):
            continue
        if not equivalent(enc.truth(final), S, pcf):
            moved = (final, pc)
            break
    if moved is not None:
        w = [e for e in r.of("setattr") if e.data["attr"] == flag and (e.data["obj"] == rule or mentions(e.data["obj"], rule) or e.data["obj"][0] == "obj")]
        on_subject = satisfiable(f_and([enc.pc(moved[1]), started, S, f_not(enc.truth(moved[0]))]))
        detail = (
            f"after are_named has stored the subject layer the side flag `{flag}` of the wrapped rule is `{show(moved[0])[:80]}`, no longer truthy: the subject guard of the next are_named (it reads the flag for its truth value) cannot fire, so a second subject layer is accepted and filed as a rule object"
            if on_subject
            else f"are_named turns the side flag `{flag}` of the wrapped rule into `{show(moved[0])[:80]}` on the object side: layers named afterwards are treated as subjects"
        )
        verdict(res, r, "C16.R2", skey, False, detail, w[0].where if w else f"{m.relpath}:{m.node.lineno}", kind="flow")
    else:
        verdict(res, r, "C16.R2", skey, True, "are_named leaves the subject/object side of the wrapped rule as it found it (the guard can fire again on the next call)", f"{m.relpath}:{m.node.lineno}", kind="flow")
    # nothing may be added to the rule on a path that can still end in a configuration error
    order = {id(e): i for i, e in enumerate(r.events)}
    late = [(e, x) for e in effects for x in config_raises(r) if order[id(x)] > order[id(e)] and x.pc[: len(e.pc)] == e.pc]
    if late:
        verdict(res, r, "C16.R2", K(m, "guard before the layer is added"), False, f"`{_ev_text(late[0][0])}` changes the wrapped rule before the configuration error of `{_ev_text(late[0][1])[:60]}` can be raised: a rejected call leaves the rule modified", late[0][0].where, kind="dominance")
    raised = f_or([enc.pc(e.pc) for e in config_raises(r) if not e.in_loop])
    key = K(m, "exactly one subject layer")
    hit = None
    for c in subj:
        want = f_and([S, f_or([enc.truth(c), L])])
        if equivalent(raised, want, started):
            hit = (c, want)
    if hit is None:
        from core.guards import atoms_of

        vocab = atoms_of(S) | atoms_of(L) | atoms_of(none) | atoms_of(arch_none)
        for c in subj:
            vocab |= atoms_of(enc.truth(c))
        subject = lambda a: a[:-2] if a.startswith("len(") and a[-2] == "=" else a  # noqa: E731
        vocab = {subject(a) for a in vocab}
        extra = sorted({subject(a) for a in atoms_of(raised)} - vocab)
        if extra and subj:
            got = own_state_sequences(repo, F, res, r, enc, rule, side, S, L, started, raised, subj, set(extra), key)
            if got is None:
                return
            hit = got
    if hit is None:
        if not subj:
            detail = f"are_named does not extend the subject of the wrapped rule on the subject side (configuration error raised iff `{_show_f(raised)}`)"
        else:
            detail = f"are_named raises a configuration error iff `{_show_f(raised)}` (given a started rule); required: on the subject side iff a subject is already present (`{show(subj[0])}`) or a list is given, never on the object side"
        verdict(res, r, "C16.R2", key, False, detail, f"{m.relpath}:{m.node.lineno}", kind="decision-table")
        return
    if len(hit) == 2:
        verdict(res, r, "C16.R2", key, True, "a configuration error is raised exactly when, on the subject side, a subject is already present or a list is given (truth table over started / side / subject present / argument kind)", f"{m.relpath}:{m.node.lineno}", kind="decision-table")
    else:
        started = f_and([started, hit[2]])  # own-state representation: only the reachable combinations of own state and side flag count
    want = hit[1]
    early = [e for e in effects if satisfiable(f_and([enc.pc(e.pc), want]), started)]
    ok = not early and bool(effects)
    if not late:
        verdict(res, r, "C16.R2", K(m, "guard before the layer is added"), ok, "the subject guard precedes every change of the wrapped rule" if ok else (f"`{_ev_text(early[0])}` changes the rule before the subject guard has run" if early else "are_named no longer changes the wrapped rule"), early[0].where if early else f"{m.relpath}:{m.node.lineno}", kind="dominance")


def _ev_text(e: Event) -> str:
    from core.loader import header

    return header(e.node)[:80]


def check_side_flag(repo: Repo, F: RuleFacts, res: Result, rule: Term, rule_cls: ClassInfo, flag: str) -> None:
    """The flag are_named reads must follow the layer-rule language: set by layers_that, untouched by the behaviour words
    (should / should_only / should_not), cleared by the access words."""
    lr = F.lr

    def flag_writes(r: Run) -> list[Event]:
        return [e for e in r.of("setattr") if e.data["attr"] == flag and (e.data["obj"] == rule or mentions(e.data["obj"], rule) or (e.data["obj"][0] == "obj" and e.data["obj"][1] == rule_cls.fq))]

    lt = F.run("layers_that")
    finals = [h.get((h.get((SELF, rule[2]), rule), flag)) for _pc, _v, h in lt.returns]
    ok = bool(finals) and all(v == ("const", True) for v in finals)
    verdict(res, lt, "C16.R2", K(lt.fi, "side flag: subject side after layers_that"), ok, "layers_that leaves the wrapped rule on the subject side" if ok else f"after layers_that the side flag `{flag}` of the wrapped rule is `{show(finals[0]) if finals and finals[0] else 'unset'}`, not True: the subject guard of are_named does not fire", f"{lt.fi.relpath}:{lt.fi.node.lineno}", kind="flow")
    for name in declared_in(repo, lr, "BehaviorBaseSpecification"):
        r = F.run(name)
        w = flag_writes(r)
        ok = not w
        verdict(res, r, "C16.R2", K(r.fi, "side flag: untouched by the behaviour word"), ok, f"{name} leaves the subject/object side of the wrapped rule alone" if ok else f"{name} sets the side flag `{flag}` of the wrapped rule to `{show(w[0].data['value'])}`: a further subject layer named after {name}() is no longer rejected by are_named (the flag is read for its truth value)", w[0].where if w else f"{r.fi.relpath}:{r.fi.node.lineno}", kind="flow")
    for name in declared_in(repo, lr, "AccessSpecification"):
        r = F.run(name)
        finals = [h.get((rule, flag)) for _pc, _v, h in r.returns]
        ok = bool(finals) and all(v is not None and v[0] == "const" and not v[1] and v[1] is not None for v in finals)
        verdict(res, r, "C16.R2", K(r.fi, "side flag: object side after the access word"), ok, f"{name} switches the wrapped rule to the object side" if ok else f"after {name} the side flag `{flag}` is `{show(finals[0]) if finals and finals[0] else 'unchanged'}`, not False: layers named afterwards are treated as subjects", f"{r.fi.relpath}:{r.fi.node.lineno}", kind="flow")


# --------------------------------------------------------------------------- entry


def run(repo: Repo) -> Result:
    res = Result("C16")
    res.explanation = (
        "Interprets the public builder methods symbolically (helpers, properties and callables followed; accumulating loops summarised as "
        "comprehensions) and decides per call: (R1) every `str | list[str]` value is normalised before anything iterates it; (R2) "
        "LayerRule.are_named raises a configuration error exactly when a (further or batched) layer is given on the subject side, before the "
        "wrapped rule is changed, and the side flag it reads follows the layer-rule language; (R3) the pending-layer, unique-name, "
        "exactly-one-pending-layer and duplicate-module guards hold on every path that writes the layer mapping, the duplicate check compares "
        "the whole normalised argument with the materialised identifiers of all stored filters, and the 'pending' test agrees with the kind of "
        "the stored values; based_on / layers_that guard the architecture; (R4) the stored definition is the order-preserving image of the "
        "whole normalised list under the single pending layer and is read back unchanged."
    )
    res.not_decided = "call sequences longer than one call are covered only through the per-call guards (no sequence exploration); reads of the layer mapping after a write inside the same call see the old contents."
    res.trusted_base = ["engine symbolic executor (rules/c16_sym.py) / annotation-driven call resolver"]
    T = types_of(repo)
    run_r1(repo, T, res)
    sx = SymExec(repo, T)
    la = public_class(repo, "LayeredArchitecture")
    b = Builder(repo, sx, la)
    b.find_store()
    b.find_name_attrs()
    check_layer(b, res)
    writers = [("containing_modules", True), ("have_modules_with_names_matching", False)]
    for name, union in writers:
        check_modules_method(b, res, name, union)
    check_marker(b, res, ["layer"] + [n for n, _u in writers])
    check_readers(b, res)
    check_layer_rule(repo, sx, res)
    notes = sorted({n for r in b.runs.values() for n in r.notes})
    for n in notes:
        res.observe(f"executor note: {n}")
    return res
