"""Formulas over executor terms (rules/c16_sym.py) and the recognisers the C16 rules share.

Conditions collected by the symbolic executor are turned into propositional formulas (core.guards tuples).  Sized collections get a
small integer variable `len(<key>) in {0, 1, 2, 3+}` instead of a boolean, so that `not l or len(l) > 1`, `len(l) != 1` and
`len(l) == 1` (negated) are the same condition; models are enumerated exhaustively.
"""

from __future__ import annotations

import itertools

from core.guards import TRUE, Formula, atom, atoms_of, evaluate, f_and, f_not, f_or
from core.loader import AnalysisError

from .c16_sym import NONE_T, Term, show, subterms

LEN_TOP = 3  # 0, 1, 2, ">= 3"
MATERIALISING = ("list", "tuple", "sorted", "set", "frozenset")


def strip_wrappers(t: Term, names=("list", "tuple", "sorted")) -> Term:
    while t[0] == "call" and isinstance(t[1], str) and t[1] in names and len(t[2]) == 1:
        t = t[2][0]
    return t


def prefix_length(t: Term) -> int | None:
    """n when t is `islice(xs, n)` with a literal n >= 0: the first n elements of xs."""
    if t[0] == "call" and t[1] == "islice" and len(t[2]) == 2 and t[2][1][0] == "const" and isinstance(t[2][1][1], int) and not isinstance(t[2][1][1], bool) and t[2][1][1] >= 0:
        return t[2][1][1]
    return None


def is_collection(t: Term) -> bool:
    if t[0] in ("list", "tuple", "set", "dict", "comp"):
        return True
    if t[0] == "call" and isinstance(t[1], str) and t[1] in ("set", "list", "sorted", "tuple", "frozenset", "dict") and len(t[2]) <= 1:
        return True
    if t[0] == "mcall" and t[2] in ("intersection", "union", "difference", "symmetric_difference"):
        return True
    if t[0] == "binop" and t[1] in ("BitAnd", "BitOr", "Sub", "BitXor") and (is_collection(t[2]) or is_collection(t[3])):
        return True
    return False


class Enc:
    """Encoder of executor terms (evaluated for truthiness) into formulas; `canon` maps a term to a canonical key or None."""

    def __init__(self, canon=None, union_params: set | None = None, objects: set | None = None) -> None:
        self.canon = canon or (lambda t: None)
        self.union_params = union_params or set()
        self.objects = objects or set()  # terms that are None or an instance of a class without __bool__ / __len__: truthy iff not None

    def key(self, t: Term) -> str:
        c = self.canon(t)
        return c if c is not None else show(t)

    def len_atom(self, t: Term, k: int) -> Formula:
        t = strip_wrappers(t)
        while t[0] == "or" and len(t[1]) == 2 and t[1][1][0] in ("list", "tuple", "set", "dict") and not t[1][1][1]:
            t = strip_wrappers(t[1][0])  # `x or []`
        n = prefix_length(t)
        if n is not None and n <= LEN_TOP:
            # len(islice(xs, n)) == min(len(xs), n)
            if k < n:
                return self.len_atom(t[2][0], k)
            if k == n:
                return f_or([self.len_atom(t[2][0], j) for j in range(n, LEN_TOP + 1)])
            return ("const", False)
        return atom(f"len({self.key(t)})={k}")

    def truth(self, t: Term) -> Formula:
        op = t[0]
        if t in self.objects:
            return f_not(atom(f"{self.key(t)} is None"))
        if op == "const":
            return ("const", bool(t[1]))
        if op == "not":
            return f_not(self.truth(t[1]))
        if op == "and":
            return f_and([self.truth(x) for x in t[1]])
        if op == "or":
            return f_or([self.truth(x) for x in t[1]])
        if op == "phi":
            c = self.truth(t[1])
            return f_or([f_and([c, self.truth(t[2])]), f_and([f_not(c), self.truth(t[3])])])
        if op == "disj":
            return f_or([self.pc(alt) for alt in t[1]])
        if op == "call" and t[1] == "bool" and len(t[2]) == 1:
            return self.truth(t[2][0])
        if op == "cmp":
            return self.cmp(t)
        if op == "isinstance":
            names = set(t[2])
            if names and names <= {"list", "List"}:
                return atom(f"islist({self.key(t[1])})")
            if names == {"str"} and t[1] in self.union_params:
                return f_not(atom(f"islist({self.key(t[1])})"))
            return f_or([atom(f"is{n}({self.key(t[1])})") for n in sorted(names)])
        if self.canon(t) is None and op in ("list", "tuple", "set", "dict"):
            return ("const", bool(t[1]))
        # every other value: one integer variable per value (truthiness == "length is not 0"), so that `x`, `len(x) > 0`,
        # `len(x) != 0` and `bool(x)` are the same condition
        return f_not(self.len_atom(t, 0))

    def sized(self, t: Term) -> bool:
        """A term known to be a sized collection: its truthiness is `len != 0` (canonical keys of collections start with '#')."""
        return is_collection(t) or (self.canon(strip_wrappers(t)) or "").startswith("#")

    def cmp(self, t: Term) -> Formula:
        _, op, a, b = t
        if a[0] == "phi":
            c = self.truth(a[1])
            return f_or([f_and([c, self.cmp(("cmp", op, a[2], b))]), f_and([f_not(c), self.cmp(("cmp", op, a[3], b))])])
        if b[0] == "phi":
            c = self.truth(b[1])
            return f_or([f_and([c, self.cmp(("cmp", op, a, b[2]))]), f_and([f_not(c), self.cmp(("cmp", op, a, b[3]))])])
        if op in ("Is", "Eq"):
            for x, y in ((a, b), (b, a)):
                if x[0] == "call" and x[1] == "type" and len(x[2]) == 1 and y[0] in ("builtin", "classref", "global"):
                    return self.truth(("isinstance", x[2][0], (y[1].rsplit(".", 1)[-1],)))  # exact type test (subclasses of list / str are not in play)
        if op == "Is":
            if b == NONE_T and a[0] == "mcall" and a[2] == "get" and len(a[3]) == 1:
                return f_not(self.cmp(("cmp", "In", a[3][0], a[1])))  # values of the mappings looked at here are never None
            if b == NONE_T:
                return atom(f"{self.key(a)} is None")
            if a == NONE_T:
                return atom(f"{self.key(b)} is None")
            if b == ("const", True):
                return self.truth(a)
            return atom(f"{self.key(a)} is {self.key(b)}")
        # len(x) <op> k
        for x, y, flip in ((a, b, False), (b, a, True)):
            if x[0] == "call" and x[1] == "len" and len(x[2]) == 1 and y[0] == "const" and isinstance(y[1], int) and not isinstance(y[1], bool):
                k = y[1]
                o = {"Lt": "Gt", "Gt": "Lt", "LtE": "GtE", "GtE": "LtE"}.get(op, op) if flip else op
                if 0 <= k <= LEN_TOP - 1 or (k == LEN_TOP and o in ("Lt", "GtE")):
                    test = {"Eq": lambda n: n == k, "Lt": lambda n: n < k, "LtE": lambda n: n <= k, "Gt": lambda n: n > k, "GtE": lambda n: n >= k}.get(o)
                    if test is not None:
                        return f_or([self.len_atom(x[2][0], n) for n in range(LEN_TOP + 1) if test(n)])
        if op == "Eq":
            for x, y in ((a, b), (b, a)):
                if y[0] in ("list", "tuple", "set", "dict") and not y[1] and x[0] != "const":
                    return self.len_atom(x, 0) if self.sized(x) else atom(f"{self.key(x)} == {show(y)}")
                if y == ("const", True):
                    return self.truth(x)
            ka, kb = sorted([self.key(a), self.key(b)])
            return atom(f"{ka} == {kb}")
        if op == "In" and b[0] in ("tuple", "list", "set") and all(x[0] == "const" for x in b[1]):
            return f_or([self.cmp(("cmp", "Eq", a, x)) for x in b[1]])
        if op == "In":
            c = b
            while (c[0] == "mcall" and c[2] == "keys" and not c[3]) or (c[0] == "call" and c[1] in ("list", "set", "tuple") and len(c[2]) == 1):
                c = c[1] if c[0] == "mcall" else c[2][0]
            return atom(f"{self.key(a)} in {self.key(c)}")
        return atom(f"{self.key(a)} {op} {self.key(b)}")

    def pc(self, pc: tuple) -> Formula:
        return f_and([self.truth(c) if pol else f_not(self.truth(c)) for c, pol in pc])


# --------------------------------------------------------------------------- model enumeration with integer-valued lengths


def _split_atoms(names: set[str]) -> tuple[list[str], dict[str, list[tuple[str, int]]]]:
    plain: list[str] = []
    lens: dict[str, list[tuple[str, int]]] = {}
    for n in sorted(names):
        if n.startswith("len(") and n[-2] == "=" and n[-1].isdigit():
            lens.setdefault(n[:-2], []).append((n, int(n[-1])))
        else:
            plain.append(n)
    return plain, lens


def models(names: set[str], limit: int = 18):
    plain, lens = _split_atoms(names)
    if len(plain) + 2 * len(lens) > limit:
        raise AnalysisError(f"condition over {len(plain)} atoms and {len(lens)} lengths exceeds the enumeration bound")
    subjects = sorted(lens)
    for bools in itertools.product([False, True], repeat=len(plain)):
        env = dict(zip(plain, bools))
        for vals in itertools.product(range(LEN_TOP + 1), repeat=len(subjects)):
            for s, v in zip(subjects, vals):
                for name, k in lens[s]:
                    env[name] = v == k
            yield env


def implies(premise: Formula, conclusion: Formula, constraints: Formula = TRUE) -> bool:
    names = atoms_of(premise) | atoms_of(conclusion) | atoms_of(constraints)
    for env in models(names):
        if evaluate(constraints, env) and evaluate(premise, env) and not evaluate(conclusion, env):
            return False
    return True


def equivalent(a: Formula, b: Formula, constraints: Formula = TRUE) -> bool:
    return implies(a, b, constraints) and implies(b, a, constraints)


def satisfiable(f: Formula, constraints: Formula = TRUE) -> bool:
    names = atoms_of(f) | atoms_of(constraints)
    return any(evaluate(constraints, env) and evaluate(f, env) for env in models(names))


def facts(pc: tuple) -> list[tuple[Term, bool]]:
    """Atomic (term, polarity) facts implied by a path condition: conjunctions / negated disjunctions are split, len tests and
    comparisons with an empty literal are reduced to the truthiness of the collection."""
    out: list[tuple[Term, bool]] = []

    def add(t: Term, pol: bool) -> None:
        if t[0] == "not":
            add(t[1], not pol)
        elif t[0] == "and" and pol:
            for x in t[1]:
                add(x, True)
        elif t[0] == "or" and not pol:
            for x in t[1]:
                add(x, False)
        elif t[0] == "call" and t[1] == "bool" and len(t[2]) == 1:
            add(t[2][0], pol)
        elif t[0] == "cmp" and t[2][0] == "call" and t[2][1] == "len" and len(t[2][2]) == 1 and t[3][0] == "const" and t[3][1] in (0, 1):
            op, k, x = t[1], t[3][1], t[2][2][0]
            if (op, k) in (("Gt", 0), ("GtE", 1)):
                add(x, pol)
            elif (op, k) in (("Eq", 0), ("Lt", 1), ("LtE", 0)):
                add(x, not pol)
            else:
                out.append((t, pol))
        elif t[0] == "cmp" and t[1] == "Eq" and t[3][0] in ("list", "tuple", "set") and not t[3][1] and is_collection(t[2]):
            add(t[2], not pol)
        elif t[0] == "disj" and pol:
            common = None
            for alt in t[1]:
                fs = set(facts(alt))
                common = fs if common is None else common & fs
            out.extend(sorted(common or (), key=repr))
        else:
            out.append((t, pol))

    for c, pol in pc:
        add(c, pol)
    return out


def mentions(t, needle: Term) -> bool:
    return any(x == needle for x in subterms(t))
