"""C16.R1 - a `str | list[str]` value is normalised before anything iterates it (flow-sensitive, interprocedural).

A value is *raw* while it may still be the bare string.  Raw values start at parameters whose annotation (their own or the one of the
abstract method they implement) is `str | list[str]` / `str | Sequence[str]` / `Union[str, List[str]]`, and travel through plain
assignments, conditional expressions, `x or y`, returns of helpers and arguments handed to other repo functions (whatever the callee's
own annotation says).  `isinstance` / `type(..) is` tests narrow a name inside the branch they guard; a branch that ends in
return / raise does not flow on.  Wrapping (`[x]`), type tests and hand-offs are fine; *iterating* a raw value is the violation:
`for .. in x`, comprehensions, `set(x)` / `list(x)` / `sorted(x)` / `len(x)` / ..., `in x`, `*x`, `x[..]`, `sep.join(x)`,
`acc.extend(x)` / `update` / set algebra methods, `acc += x`, `[..] + x`, `yield from x`.
"""

from __future__ import annotations

import ast

from core.loader import FuncInfo, Repo, norm

RAW, SAFE = "raw", "safe"
ITERATING_BUILTINS = {"set", "list", "tuple", "sorted", "len", "frozenset", "enumerate", "zip", "map", "filter", "iter", "sum", "any", "all", "min", "max", "reversed", "next", "dict"}
ITERATING_METHODS = {"join", "extend", "update", "union", "intersection", "difference", "symmetric_difference", "issubset", "issuperset", "isdisjoint", "fromkeys", "intersection_update", "difference_update"}
CONCRETE = {"list", "tuple", "set", "frozenset", "List", "Tuple", "Set", "dict"}


def is_union_str_list(ann: ast.expr | None) -> bool:
    if ann is None:
        return False
    if isinstance(ann, ast.Constant) and isinstance(ann.value, str):
        try:
            ann = ast.parse(ann.value, mode="eval").body
        except SyntaxError:
            return False
    parts: list[ast.expr] = []

    def flat(e: ast.expr) -> None:
        if isinstance(e, ast.BinOp) and isinstance(e.op, ast.BitOr):
            flat(e.left)
            flat(e.right)
        elif isinstance(e, ast.Subscript) and (getattr(e.value, "id", None) == "Union" or getattr(e.value, "attr", None) == "Union"):
            for x in (e.slice.elts if isinstance(e.slice, ast.Tuple) else [e.slice]):
                flat(x)
        elif isinstance(e, ast.Subscript) and (getattr(e.value, "id", None) == "Optional" or getattr(e.value, "attr", None) == "Optional"):
            flat(e.slice)
        else:
            parts.append(e)

    flat(ann)
    texts = [norm(p).replace(" ", "") for p in parts]
    has_str = "str" in texts
    coll = any(t.split("[")[0].split(".")[-1] in ("list", "List", "Sequence", "Iterable", "Collection", "tuple", "Tuple", "set", "Set", "MutableSequence") and "[str" in t for t in texts)
    return has_str and coll


class RawFlow:
    def __init__(self, repo: Repo, T) -> None:
        self.repo = repo
        self.T = T
        self.summary: dict[tuple[str, str], bool] = {}  # (function, parameter) -> may return the raw value
        self.in_progress: set = set()
        self.sites: dict[int, tuple[FuncInfo, ast.AST, str, str]] = {}  # id(node) -> (function, node, how, origin parameter)
        self.analysed: list[tuple[FuncInfo, str]] = []

    # ------------------------------------------------------------------ per (function, parameter)
    def analyse(self, fi: FuncInfo, pname: str) -> bool:
        key = (fi.fq, pname)
        if key in self.summary:
            return self.summary[key]
        if key in self.in_progress:
            return False
        self.in_progress.add(key)
        saved = getattr(self, "_ctx", None)
        self._ctx = (fi, pname)
        ret_raw = [False]
        self._walk_function(fi, {pname: RAW}, ret_raw)
        self._ctx = saved
        self.in_progress.discard(key)
        self.summary[key] = ret_raw[0]
        self.analysed.append((fi, pname))
        return ret_raw[0]

    def _walk_function(self, fi: FuncInfo, env: dict, ret_raw: list) -> None:
        if isinstance(fi.node, ast.Lambda):
            self.check(fi.node.body, env, fi)
            if self.sv(fi.node.body, env, fi) == RAW:
                ret_raw[0] = True
            return
        self.block(fi.node.body, env, fi, ret_raw)

    # ------------------------------------------------------------------ statements
    def block(self, stmts: list, env: dict | None, fi: FuncInfo, ret_raw: list) -> dict | None:
        for s in stmts:
            if env is None:
                return None
            env = self.stmt(s, env, fi, ret_raw)
        return env

    @staticmethod
    def join(a: dict | None, b: dict | None) -> dict | None:
        if a is None:
            return b
        if b is None:
            return a
        out = {}
        for k in set(a) | set(b):
            if k.startswith("?"):
                if k in a and k in b and a[k] is b[k]:
                    out[k] = a[k]
            elif a.get(k) == RAW or b.get(k) == RAW:
                out[k] = RAW
            elif k in a and k in b:
                out[k] = SAFE
        return out

    def bind(self, target: ast.expr, state: str, env: dict) -> None:
        if isinstance(target, ast.Name):
            # boolean locals that stand for a type test of this name are stale now
            for k in [k for k, v in env.items() if k.startswith("?") and (k == "?" + target.id or any(isinstance(n, ast.Name) and n.id == target.id for n in ast.walk(v)))]:
                del env[k]
            if state == RAW:
                env[target.id] = RAW
            else:
                env.pop(target.id, None)
        elif isinstance(target, (ast.Tuple, ast.List)):
            for el in target.elts:
                self.bind(el.value if isinstance(el, ast.Starred) else el, SAFE, env)

    def stmt(self, s: ast.stmt, env: dict, fi: FuncInfo, ret_raw: list) -> dict | None:
        env = dict(env)
        if isinstance(s, ast.Assign):
            self.check(s.value, env, fi)
            st = self.sv(s.value, env, fi)
            for t in s.targets:
                if not isinstance(t, ast.Name):
                    self.check(t, env, fi)
                self.bind(t, st, env)
            if len(s.targets) == 1 and isinstance(s.targets[0], ast.Name) and self.narrow(env, s.value, True) != env or len(s.targets) == 1 and isinstance(s.targets[0], ast.Name) and self.narrow(env, s.value, False) != env:
                env["?" + s.targets[0].id] = s.value  # `is_batch = isinstance(x, list)`: the local stands for the test
            return env
        if isinstance(s, ast.AnnAssign):
            if s.value is not None:
                self.check(s.value, env, fi)
                self.bind(s.target, self.sv(s.value, env, fi), env)
            return env
        if isinstance(s, ast.AugAssign):
            self.check(s.value, env, fi)
            if isinstance(s.op, (ast.Add, ast.BitOr, ast.BitAnd, ast.Sub)) and self.sv(s.value, env, fi) == RAW:
                self.flag(s.value, fi, f"{norm(s.target, 30)} {_op(s.op)}= {norm(s.value, 30)}")
            return env
        if isinstance(s, ast.If):
            self.check(s.test, env, fi)
            a = self.block(s.body, self.narrow(env, s.test, True), fi, ret_raw)
            b = self.block(s.orelse, self.narrow(env, s.test, False), fi, ret_raw)
            return self.join(a, b)
        if isinstance(s, (ast.For, ast.AsyncFor)):
            self.check(s.iter, env, fi)
            if self.sv(s.iter, env, fi) == RAW:
                self.flag(s.iter, fi, f"for ... in {norm(s.iter, 40)}")
            inner = dict(env)
            self.bind(s.target, SAFE, inner)
            once = self.block(s.body, inner, fi, ret_raw)
            again = self.join(inner, once)
            if again is not None and again != inner:
                once = self.block(s.body, again, fi, ret_raw)
            out = self.join(env, once)
            return self.block(s.orelse, out, fi, ret_raw) if s.orelse else out
        if isinstance(s, ast.While):
            self.check(s.test, env, fi)
            once = self.block(s.body, self.narrow(env, s.test, True), fi, ret_raw)
            return self.join(env, once)
        if isinstance(s, ast.Return):
            if s.value is not None:
                self.check(s.value, env, fi)
                if self.sv(s.value, env, fi) == RAW:
                    ret_raw[0] = True
            return None
        if isinstance(s, ast.Raise):
            if s.exc is not None:
                self.check(s.exc, env, fi)
            return None
        if isinstance(s, ast.Expr):
            self.check(s.value, env, fi)
            if isinstance(s.value, (ast.Yield,)) and s.value.value is not None and self.sv(s.value.value, env, fi) == RAW:
                ret_raw[0] = True
            return env
        if isinstance(s, ast.Assert):
            self.check(s.test, env, fi)
            return self.narrow(env, s.test, True)
        if isinstance(s, (ast.With, ast.AsyncWith)):
            for it in s.items:
                self.check(it.context_expr, env, fi)
            return self.block(s.body, env, fi, ret_raw)
        if isinstance(s, ast.Try):
            body = self.block(s.body, env, fi, ret_raw)
            out = self.block(s.orelse, body, fi, ret_raw) if body is not None else None
            for h in s.handlers:
                out = self.join(out, self.block(h.body, self.join(env, body), fi, ret_raw))
            return self.block(s.finalbody, out, fi, ret_raw) if s.finalbody and out is not None else out
        if isinstance(s, ast.Match):
            self.check(s.subject, env, fi)
            out = None
            for c in s.cases:
                out = self.join(out, self.block(c.body, env, fi, ret_raw))
            return self.join(out, env)
        if isinstance(s, (ast.Break, ast.Continue)):
            return None
        return env

    # ------------------------------------------------------------------ narrowing
    def narrow(self, env: dict, test: ast.expr, pol: bool) -> dict:
        env = dict(env)
        if isinstance(test, ast.Name) and "?" + test.id in env:
            return self.narrow(env, env["?" + test.id], pol)
        if isinstance(test, ast.UnaryOp) and isinstance(test.op, ast.Not):
            return self.narrow(env, test.operand, not pol)
        if isinstance(test, ast.BoolOp):
            if (isinstance(test.op, ast.And) and pol) or (isinstance(test.op, ast.Or) and not pol):
                for v in test.values:
                    env = self.narrow(env, v, pol)
            return env
        name, types = None, set()
        if isinstance(test, ast.Call) and isinstance(test.func, ast.Name) and test.func.id == "isinstance" and len(test.args) == 2 and isinstance(test.args[0], ast.Name):
            name, types = test.args[0].id, _names(test.args[1])
        elif isinstance(test, ast.Compare) and len(test.ops) == 1 and isinstance(test.ops[0], (ast.Is, ast.Eq, ast.IsNot, ast.NotEq)):
            l, r = test.left, test.comparators[0]
            if isinstance(l, ast.Call) and isinstance(l.func, ast.Name) and l.func.id == "type" and len(l.args) == 1 and isinstance(l.args[0], ast.Name):
                name, types = l.args[0].id, _names(r)
                if isinstance(test.ops[0], (ast.IsNot, ast.NotEq)):
                    pol = not pol
        if name is None or name not in env or not types:
            return env
        if pol and types <= CONCRETE:
            env[name] = SAFE
        elif not pol and types == {"str"}:
            env[name] = SAFE
        return env

    # ------------------------------------------------------------------ expressions
    def sv(self, e: ast.expr, env: dict, fi: FuncInfo) -> str:
        if isinstance(e, ast.Name):
            return RAW if env.get(e.id) == RAW else SAFE
        if isinstance(e, ast.IfExp):
            a = self.sv(e.body, self.narrow(env, e.test, True), fi)
            b = self.sv(e.orelse, self.narrow(env, e.test, False), fi)
            return RAW if RAW in (a, b) else SAFE
        if isinstance(e, ast.BoolOp):
            return RAW if any(self.sv(v, env, fi) == RAW for v in e.values) else SAFE
        if isinstance(e, ast.NamedExpr):
            return self.sv(e.value, env, fi)
        if isinstance(e, ast.Call):
            raw_out = False
            for c, pname, arg in self.handoffs(e, env, fi):
                if self.analyse(c, pname):
                    raw_out = True
            if isinstance(e.func, ast.Name) and e.func.id == "cast" and len(e.args) == 2:
                return self.sv(e.args[1], env, fi)
            return RAW if raw_out else SAFE
        return SAFE

    def handoffs(self, call: ast.Call, env: dict, fi: FuncInfo):
        """(callee, parameter name, argument) for every raw argument handed to a repo function."""
        raw_args = [(i, a) for i, a in enumerate(call.args) if not isinstance(a, ast.Starred) and self.sv(a, env, fi) == RAW]
        raw_kws = [(k.arg, k.value) for k in call.keywords if k.arg is not None and self.sv(k.value, env, fi) == RAW]
        if not raw_args and not raw_kws:
            return []
        try:
            cs, _how = self.T.callees(fi, call, byname_fallback=False)
        except Exception:  # noqa: BLE001
            cs = []
        out = []
        for c in cs:
            if c.is_abstract:
                continue
            names = c.param_names
            bound = c.cls is not None and c.outer is None and not c.is_staticmethod and not isinstance(c.node, ast.Lambda)
            via_class = False
            if bound and isinstance(call.func, ast.Attribute) and not c.is_classmethod:
                try:
                    rt = self.T.expr(fi, call.func.value)
                    via_class = rt[0] == "type"
                except Exception:  # noqa: BLE001
                    via_class = False
            shift = 1 if bound and not via_class else 0
            for i, a in raw_args:
                if i + shift < len(names):
                    out.append((c, names[i + shift], a))
            for k, a in raw_kws:
                if k in names:
                    out.append((c, k, a))
        return out

    def flag(self, node: ast.AST, fi: FuncInfo, how: str) -> None:
        self.sites.setdefault(id(node), (fi, node, how, f"{self._ctx[0].qualname}({self._ctx[1]})" if self._ctx else "?"))

    def check(self, e: ast.AST, env: dict, fi: FuncInfo) -> None:
        """Flags iterating uses of raw values inside the expression `e`."""
        if e is None or isinstance(e, (ast.Constant, ast.Name)):
            return
        raw = lambda x: self.sv(x, env, fi) == RAW  # noqa: E731
        if isinstance(e, ast.IfExp):
            self.check(e.test, env, fi)
            self.check(e.body, self.narrow(env, e.test, True), fi)
            self.check(e.orelse, self.narrow(env, e.test, False), fi)
            return
        if isinstance(e, ast.BoolOp):
            cur = env
            for v in e.values:
                self.check(v, cur, fi)
                cur = self.narrow(cur, v, isinstance(e.op, ast.And))
            return
        if isinstance(e, (ast.ListComp, ast.SetComp, ast.GeneratorExp, ast.DictComp)):
            inner = dict(env)
            for g in e.generators:
                self.check(g.iter, inner, fi)
                if self.sv(g.iter, inner, fi) == RAW:
                    self.flag(g.iter, fi, f"for ... in {norm(g.iter, 40)}")
                self.bind(g.target, SAFE, inner)
                for c in g.ifs:
                    self.check(c, inner, fi)
                    inner = self.narrow(inner, c, True)
            for part in ([e.key, e.value] if isinstance(e, ast.DictComp) else [e.elt]):
                self.check(part, inner, fi)
            return
        if isinstance(e, ast.Lambda):
            inner = {k: v for k, v in env.items() if k not in {a.arg for a in e.args.args}}
            self.check(e.body, inner, fi)
            return
        if isinstance(e, ast.Call):
            fname = e.func.id if isinstance(e.func, ast.Name) else None
            if fname == "isinstance":
                return
            if fname in ITERATING_BUILTINS:
                for a in e.args:
                    if not isinstance(a, ast.Starred) and raw(a):
                        self.flag(a, fi, f"{fname}({norm(a, 40)})")
            if isinstance(e.func, ast.Attribute) and e.func.attr in ITERATING_METHODS:
                for a in e.args:
                    if not isinstance(a, ast.Starred) and raw(a):
                        self.flag(a, fi, f"{norm(e.func, 40)}({norm(a, 40)})")
            for c, pname, _a in self.handoffs(e, env, fi):
                self.analyse(c, pname)
            for ch in [e.func, *e.args, *[k.value for k in e.keywords]]:
                self.check(ch, env, fi)
            return
        if isinstance(e, ast.Compare):
            for op, c in zip(e.ops, e.comparators):
                if isinstance(op, (ast.In, ast.NotIn)) and raw(c):
                    self.flag(c, fi, f"... in {norm(c, 40)}")
        elif isinstance(e, ast.Starred):
            if raw(e.value):
                self.flag(e.value, fi, f"*{norm(e.value, 40)}")
        elif isinstance(e, ast.Subscript):
            if raw(e.value):
                self.flag(e.value, fi, f"{norm(e.value, 40)}[...]")
        elif isinstance(e, ast.BinOp) and isinstance(e.op, ast.Add):
            for x, y in ((e.left, e.right), (e.right, e.left)):
                if raw(x) and isinstance(y, (ast.List, ast.ListComp, ast.Tuple)):
                    self.flag(x, fi, f"{norm(e, 60)}")
        elif isinstance(e, ast.YieldFrom):
            if raw(e.value):
                self.flag(e.value, fi, f"yield from {norm(e.value, 40)}")
        for ch in ast.iter_child_nodes(e):
            if isinstance(ch, ast.expr):
                self.check(ch, env, fi)


def _names(e: ast.expr) -> set[str]:
    if isinstance(e, ast.Tuple):
        out: set[str] = set()
        for x in e.elts:
            out |= _names(x)
        return out
    if isinstance(e, ast.Name):
        return {e.id}
    if isinstance(e, ast.Attribute):
        return {e.attr}
    return set()


def _op(op: ast.operator) -> str:
    return {ast.Add: "+", ast.BitOr: "|", ast.BitAnd: "&", ast.Sub: "-"}.get(type(op), "?")


def seeds(repo: Repo) -> list[tuple[FuncInfo, str, str]]:
    """(function, parameter, annotation text) of every parameter that may receive the bare string: annotated so itself, or
    implementing an abstract method that declares the parameter so."""
    out: list[tuple[FuncInfo, str, str]] = []
    seen = set()
    for f in repo.all_functions():
        if isinstance(f.node, ast.Lambda):
            continue
        for i, p in enumerate(f.params):
            if not is_union_str_list(p.annotation):
                continue
            targets = [f]
            if f.cls is not None and f.outer is None:
                for sub in repo.subclasses(f.cls):
                    m = sub.methods.get(f.name)
                    if m is not None:
                        targets.append(m)
            for t in targets:
                if t.is_abstract or i >= len(t.params):
                    continue
                k = (t.fq, t.params[i].arg)
                if k not in seen:
                    seen.add(k)
                    out.append((t, t.params[i].arg, norm(p.annotation)))
    return out
