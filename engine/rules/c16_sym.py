"""Symbolic executor used by the C16 rules (nothing of /repo is executed: the interpreter below walks `ast` nodes only).

A public entry point is *interpreted*: calls of repo helpers (methods, module-level functions, static/class methods, callables handed
over as arguments, property reads, constructors with an `__init__`) are followed with their arguments bound to the caller's terms, so
extract-method / inline-method / move-helper / rename-private refactorings produce the same terms.  Loops that only accumulate
(`acc.append(e)`, `acc.add(e)`, `acc[k] = v`, `acc.extend(..)`, nested `for` / `if` / `if ..: continue`) become the comprehension term
they are equivalent to; a loop whose body raises under a condition contributes an `("any", gens)` condition.

Terms are nested tuples `(op, ...)`:
  ("self",) ("param", name) ("const", v) ("attr", obj, name) ("obj", class_fq, site) ("new", class_fq, args, kwargs)
  ("list"|"tuple"|"set", elts) ("dict", pairs) ("comp", kind, elt, gens, base) with gens = ((iter, ifs), ...); the i-th generator binds ("bv", base + i)
  ("item", t, i) ("index", t, i) ("slice", t, lo, hi, step) ("call", name, args) ("mcall", recv, attr, args) ("cmp", op, a, b)
  ("not", t) ("and"|"or", ts) ("phi", cond, a, b) ("isinstance", t, names) ("binop", op, a, b) ("fstr", parts) ("funcref", fi)
  ("classref", fq) ("bound", obj, fi) ("lambda", fi) ("global", dotted) ("builtin", name) ("any", gens) ("disj", alternatives) ("unknown", why)
  ("attrgetter", dotted)   -- `operator.attrgetter("a")`; `map` / `filter` / a call apply it like a lambda
  ("partial", callable term, args, kwargs)   -- `functools.partial(f, ..)` of a followed callable; a call prepends the bound arguments

Library calls with an exact meaning are normalised: `[*xs]` is `list(xs)`, `chain.from_iterable(xss)` / `chain(*xss)` / `sum(xss, [])` are the flattening generator / list
(continuing the generators of xss when that is a comprehension), `map(f, <comprehension>)` / `filter(f, <comprehension>)` are the
comprehension with f applied to / tested on its element, `islice(xs, n)` is ("call", "islice", (xs, n)) (c16_logic knows its length),
`compress(d, (f(v) for v in d.values()))` is `(k for k, v in d.items() if f(v))`, `operator.not_ / truth / getitem / contains / eq / ..`
are the expression they compute (also as the function of `map` / `filter` / `partial`), `map(f, repeat(c), xs)` is `map(lambda x: f(c, x), xs)`,
`d.setdefault(k, new) is new` for an object created in the same call is `k not in d` (and the entry is written only under `k not in d`).

What is recorded: events (`raise`, `setitem`, `setattr`, `call` of an un-interpreted method, `return`) with the path condition under
which they happen (a tuple of (term, polarity)), whether they sit in an un-summarised loop, and the AST node / function they came from.
"""

from __future__ import annotations

import ast
from dataclasses import dataclass, field

from core.loader import FuncInfo, Repo
from core.types import Types, members

Term = tuple
SELF: Term = ("self",)
NONE_T: Term = ("const", None)

PURE_METHODS = {
    "items", "keys", "values", "get", "join", "intersection", "union", "difference", "symmetric_difference", "isdisjoint", "issubset", "issuperset", "copy",
    "startswith", "endswith", "format", "split", "rsplit", "strip", "lstrip", "rstrip", "lower", "upper", "replace", "index", "count", "find",
    "removeprefix", "removesuffix", "partition", "rpartition", "isidentifier", "title", "capitalize", "splitlines", "encode", "__enter__",
}

BUILTIN_NAMES = {
    "len", "set", "list", "tuple", "sorted", "frozenset", "dict", "bool", "str", "int", "any", "all", "map", "filter", "zip", "enumerate", "iter", "next",
    "reversed", "min", "max", "sum", "isinstance", "repr", "range", "type", "print", "getattr", "setattr", "hasattr", "id",
}


CALLABLE_TERMS = ("lambda", "funcref", "classref", "bound", "attrgetter", "partial")
OPERATOR_FUNCTIONS = {"not_": 1, "truth": 1, "getitem": 2, "contains": 2, "eq": 2, "ne": 2, "is_": 2, "is_not": 2}
MAPPABLE_BUILTINS = ("bool", "len", "list", "tuple", "set", "frozenset", "sorted", "str")


def is_callable_term(t: Term) -> bool:
    """Terms `apply` knows how to call: followed callables, `operator.<fn>`, a few builtins used as functions."""
    return t[0] in CALLABLE_TERMS or (t[0] == "global" and t[1].startswith("operator.") and t[1][9:] in OPERATOR_FUNCTIONS) or (t[0] == "builtin" and t[1] in MAPPABLE_BUILTINS)


def subst(t, old: Term, new: Term):
    if t == old:
        return new
    if isinstance(t, tuple):
        return tuple(subst(x, old, new) for x in t)
    return t
LIBRARY_VALUES = ("operator.attrgetter",)  # library calls whose value may be held by a module-level constant


def const(v) -> Term:
    return ("const", v)


def is_term(t) -> bool:
    return isinstance(t, tuple) and bool(t) and isinstance(t[0], str)


def subterms(t):
    """All terms nested in t (including t)."""
    stack = [t]
    while stack:
        x = stack.pop()
        if isinstance(x, tuple):
            if is_term(x):
                yield x
            stack.extend(x)


def mk_not(t: Term) -> Term:
    if t[0] == "not":
        return t[1]
    if t[0] == "const":
        return const(not t[1])
    return ("not", t)


class _Dead(Exception):
    """The current path cannot continue (a callee raised on every path)."""


class _Opaque(Exception):
    """A call cannot be interpreted."""


@dataclass
class Event:
    kind: str
    pc: tuple
    node: ast.AST
    fi: FuncInfo
    data: dict
    in_loop: bool
    stack: tuple

    @property
    def where(self) -> str:
        return f"{self.fi.relpath}:{getattr(self.node, 'lineno', 0)}"


class State:
    __slots__ = ("env", "heap", "pc")

    def __init__(self, env: dict, heap: dict, pc: tuple) -> None:
        self.env, self.heap, self.pc = env, heap, pc

    def fork(self) -> "State":
        return State(dict(self.env), dict(self.heap), self.pc)


@dataclass
class Frame:
    ctx: FuncInfo
    returns: list = field(default_factory=list)  # (State, value)


@dataclass
class Run:
    fi: FuncInfo
    events: list
    returns: list  # (pc, value, heap)
    notes: list

    def of(self, kind: str) -> list:
        return [e for e in self.events if e.kind == kind]


class SymExec:
    def __init__(self, repo: Repo, types: Types, max_depth: int = 8) -> None:
        self.repo = repo
        self.T = types
        self.max_depth = max_depth
        self.events: list[Event] = []
        self.stack: list[str] = []
        self.loop_depth = 0
        self.binders = 0
        self.notes: list[str] = []
        self._uid = 0
        self.term_cls: dict[Term, set[str]] = {}  # object term -> repo classes it may be an instance of (from the type resolver)

    # ------------------------------------------------------------------ entry
    def run(self, fi: FuncInfo, self_term: Term = SELF, args: dict | None = None) -> Run:
        self.events, self.stack, self.loop_depth, self.binders, self.notes = [], [fi.fq], 0, 0, []
        env: dict = {}
        names = fi.param_names
        if fi.cls is not None and fi.outer is None and not fi.is_staticmethod and names:
            env[names[0]] = ("classref", fi.cls.fq) if fi.is_classmethod else self_term
            names = names[1:]
        for n in names:
            env[n] = (args or {}).get(n, ("param", n))
        st = State(env, {}, ())
        fr = Frame(fi)
        end = None
        try:
            end = self.exec_block(fi.body, st, fr)
        except _Dead:
            end = None
        exits = [(s.pc, v, s.heap) for s, v in fr.returns]
        if end is not None:
            exits.append((end.pc, NONE_T, end.heap))
        return Run(fi, list(self.events), exits, list(self.notes))

    # ------------------------------------------------------------------ events
    def emit(self, kind: str, st: State, node: ast.AST, fr: Frame, **data) -> Event:
        ev = Event(kind, st.pc, node, fr.ctx, data, self.loop_depth > 0, tuple(self.stack))
        self.events.append(ev)
        return ev

    def note(self, text: str) -> None:
        if text not in self.notes:
            self.notes.append(text)

    # ------------------------------------------------------------------ statements
    def exec_block(self, stmts: list, st: State | None, fr: Frame) -> State | None:
        for s in stmts:
            if st is None:
                return None
            try:
                st = self.exec_stmt(s, st, fr)
            except _Dead:
                return None
        return st

    def exec_stmt(self, s: ast.stmt, st: State, fr: Frame) -> State | None:
        if isinstance(s, ast.Expr):
            if isinstance(s.value, ast.Constant):
                return st
            self.ev(s.value, st, fr)
            return st
        if isinstance(s, ast.Assign):
            v = self.ev(s.value, st, fr)
            for t in s.targets:
                self.assign(t, v, st, fr, s)
            return st
        if isinstance(s, ast.AnnAssign):
            if s.value is not None:
                self.assign(s.target, self.ev(s.value, st, fr), st, fr, s)
            return st
        if isinstance(s, ast.AugAssign):
            cur = self.ev(_as_load(s.target), st, fr)
            v = self.ev(s.value, st, fr)
            if isinstance(s.op, ast.Add) and cur[0] == "list" and v[0] == "list":
                new = ("list", cur[1] + v[1])
            else:
                new = ("binop", type(s.op).__name__, cur, v)
            if not isinstance(s.target, ast.Name):
                self.emit("call", st, s, fr, recv=cur, method="__iop__", args=(v,))
            self.assign(s.target, new, st, fr, s)
            return st
        if isinstance(s, ast.If):
            c = self.ev(s.test, st, fr)
            if c[0] == "const":
                return self.exec_block(s.body if c[1] else s.orelse, st, fr)
            a, b = st.fork(), st.fork()
            a.pc += ((c, True),)
            b.pc += ((c, False),)
            na = self.exec_block(s.body, a, fr)
            nb = self.exec_block(s.orelse, b, fr)
            return merge2(st.pc, na, nb)
        if isinstance(s, (ast.For, ast.AsyncFor)):
            return self.exec_for(s, st, fr)
        if isinstance(s, ast.While):
            return self.exec_opaque_loop(s, st, fr, None)
        if isinstance(s, ast.Return):
            v = self.ev(s.value, st, fr) if s.value is not None else NONE_T
            self.emit("return", st, s, fr, value=v)
            fr.returns.append((st.fork(), v))
            return None
        if isinstance(s, ast.Raise):
            exc = self.ev(s.exc, st, fr) if s.exc is not None else ("unknown", "re-raise")
            self.emit("raise", st, s, fr, exc=exc, cls=_exc_class(exc))
            return None
        if isinstance(s, ast.Pass):
            return st
        if isinstance(s, ast.Assert):
            c = self.ev(s.test, st, fr)
            st.pc += ((c, True),)
            return st
        if isinstance(s, (ast.With, ast.AsyncWith)):
            for it in s.items:
                v = self.ev(it.context_expr, st, fr)
                if it.optional_vars is not None:
                    self.assign(it.optional_vars, ("mcall", v, "__enter__", ()), st, fr, s)
            return self.exec_block(s.body, st, fr)
        if isinstance(s, ast.Try):
            self.note(f"try statement in {fr.ctx.fq}")
            body = self.exec_block(s.body, st.fork(), fr)
            outs = [self.exec_block(s.orelse, body, fr)] if body is not None else []
            for h in s.handlers:
                hs = st.fork()
                hs.pc += ((("unknown", f"except@{h.lineno}"), True),)
                if h.name:
                    hs.env[h.name] = ("unknown", "exception")
                outs.append(self.exec_block(h.body, hs, fr))
            cur = None
            for o in outs:
                cur = o if cur is None else (cur if o is None else merge2(st.pc, cur, o))
            return self.exec_block(s.finalbody, cur, fr) if cur is not None else None
        if isinstance(s, (ast.FunctionDef, ast.AsyncFunctionDef)):
            nf = getattr(s, "_func", None)
            st.env[s.name] = ("funcref", nf) if nf is not None else ("unknown", "nested def")
            return st
        if isinstance(s, ast.Delete):
            for t in s.targets:
                if isinstance(t, ast.Subscript):
                    self.emit("delitem", st, s, fr, obj=self.ev(t.value, st, fr), key=self.ev(t.slice, st, fr))
            return st
        if isinstance(s, (ast.Break, ast.Continue)):
            self.note(f"{type(s).__name__.lower()} outside a summarised loop in {fr.ctx.fq}")
            return None
        if isinstance(s, (ast.Import, ast.ImportFrom, ast.Global, ast.Nonlocal)):
            return st
        self.note(f"unsupported statement {type(s).__name__} in {fr.ctx.fq}")
        for n in ast.walk(s):
            if isinstance(n, ast.Name) and isinstance(n.ctx, ast.Store):
                st.env[n.id] = ("unknown", type(s).__name__)
        return st

    def assign(self, target: ast.expr, v: Term, st: State, fr: Frame, stmt: ast.AST) -> None:
        if isinstance(target, ast.Name):
            st.env[target.id] = v
        elif isinstance(target, ast.Attribute):
            obj = self.ev(target.value, st, fr)
            st.heap[(obj, target.attr)] = v
            self.emit("setattr", st, stmt, fr, obj=obj, attr=target.attr, value=v)
        elif isinstance(target, ast.Subscript):
            obj = self.ev(target.value, st, fr)
            key = self.ev(target.slice, st, fr)
            self.emit("setitem", st, stmt, fr, obj=obj, key=key, value=v, how="[]=")
        elif isinstance(target, (ast.Tuple, ast.List)):
            n = len(target.elts)
            for i, el in enumerate(target.elts):
                if isinstance(el, ast.Starred):
                    self.assign(el.value, ("unknown", "starred target"), st, fr, stmt)
                else:
                    self.assign(el, _item(v, i, n), st, fr, stmt)
        else:
            self.note(f"unsupported assignment target {type(target).__name__}")

    # ------------------------------------------------------------------ loops
    def exec_for(self, s: ast.For, st: State, fr: Frame) -> State | None:
        it = self.ev(s.iter, st, fr)
        if not s.orelse and self.try_comp_loop(s, it, st, fr):
            return st
        return self.exec_opaque_loop(s, st, fr, it)

    def exec_opaque_loop(self, s: ast.AST, st: State, fr: Frame, it: Term | None) -> State | None:
        """Body interpreted once for an arbitrary element; everything it binds is unknown afterwards."""
        self._uid += 1
        self.note(f"loop at line {getattr(s, 'lineno', 0)} of {fr.ctx.qualname} is not summarised (effects / break / unknown shape)")
        loc = st.fork()
        if it is not None:
            self.bind_target(s.target, ("elem", it, self._uid), loc)
        else:
            c = self.ev(s.test, loc, fr)
            loc.pc += ((c, True),)
        self.loop_depth += 1
        try:
            self.exec_block(s.body, loc, fr)
        finally:
            self.loop_depth -= 1
        why = ("unknown", f"loop@{getattr(s, 'lineno', 0)}")
        for n in ast.walk(s):
            if isinstance(n, ast.Name) and isinstance(n.ctx, ast.Store):
                st.env[n.id] = why
        for k in loc.heap:
            if loc.heap[k] != st.heap.get(k):
                st.heap[k] = why
        return st

    def bind_target(self, target: ast.expr, v: Term, st: State) -> None:
        if isinstance(target, ast.Name):
            st.env[target.id] = v
        elif isinstance(target, (ast.Tuple, ast.List)):
            for i, el in enumerate(target.elts):
                self.bind_target(el, v[1][i] if v[0] in ("tuple", "list") and len(v[1]) == len(target.elts) and not any(isinstance(x, ast.Starred) for x in target.elts) else ("item", v, i), st)
        elif isinstance(target, ast.Starred):
            self.bind_target(target.value, ("unknown", "starred"), st)

    def try_comp_loop(self, s: ast.For, it: Term, st: State, fr: Frame) -> bool:
        n_events = len(self.events)
        depth0 = self.binders
        loc = st.fork()
        gens: list = self._open_generator(it, s.target, loc)
        actions: list = []
        raises: list = []
        temps: set = {n.id for n in ast.walk(s.target) if isinstance(n, ast.Name)}
        try:
            ok = self._collect(s.body, loc, st, fr, gens, actions, raises, temps, 0)
        except (_Dead, _Opaque):
            ok = False
        self.binders = depth0
        new_events = self.events[n_events:]
        if ok and any(e not in raises for e in new_events):
            ok = False
        by_acc: dict = {}
        for a in actions:
            by_acc.setdefault(a["acc"], []).append(a)
        if ok and any(len(v) != 1 for v in by_acc.values()):
            ok = False
        if not ok:
            del self.events[n_events:]
            return False
        for acc, (a,) in by_acc.items():
            st.env[acc] = ("comp", a["kind"], a["elt"], a["gens"], depth0)
        for t in temps:
            if t not in by_acc:
                st.env[t] = ("unknown", f"loop variable after loop@{s.lineno}")
        for e in raises:
            st.pc += ((e.data["any"], False),)
        return True

    def _collect(self, stmts, loc: State, outer: State, fr: Frame, gens, actions, raises, temps, n_ifs: int) -> bool:
        pushed = 0
        try:
            for s in stmts:
                if isinstance(s, ast.Pass) or (isinstance(s, ast.Expr) and isinstance(s.value, ast.Constant)):
                    continue
                if isinstance(s, ast.If):
                    c = self.ev(s.test, loc, fr)
                    if s.body and isinstance(s.body[-1], ast.Continue) and not s.orelse:
                        # `if c: <X>; continue` == `if c: <X>` else: <rest of the block>
                        if len(s.body) > 1:
                            gens[-1][1].append(c)
                            ok = self._collect(s.body[:-1], loc, outer, fr, gens, actions, raises, temps, n_ifs + 1)
                            gens[-1][1].pop()
                            if not ok:
                                return False
                        gens[-1][1].append(mk_not(c))
                        pushed += 1
                        continue
                    gens[-1][1].append(c)
                    ok = self._collect(s.body, loc, outer, fr, gens, actions, raises, temps, n_ifs + 1)
                    gens[-1][1].pop()
                    if not ok:
                        return False
                    if s.orelse:
                        gens[-1][1].append(mk_not(c))
                        ok = self._collect(s.orelse, loc, outer, fr, gens, actions, raises, temps, n_ifs + 1)
                        gens[-1][1].pop()
                        if not ok:
                            return False
                    continue
                if isinstance(s, ast.For) and not s.orelse:
                    it = self.ev(s.iter, loc, fr)
                    saved = dict(loc.env)
                    opened = self._open_generator(it, s.target, loc)
                    temps |= {n.id for n in ast.walk(s.target) if isinstance(n, ast.Name)}
                    gens.extend(opened)
                    ok = self._collect(s.body, loc, outer, fr, gens, actions, raises, temps, n_ifs)
                    del gens[-len(opened):]
                    self.binders -= len(opened)
                    if not ok:
                        return False
                    continue
                if isinstance(s, ast.Raise):
                    if n_ifs + pushed == 0 and not any(g[1] for g in gens):
                        return False
                    snap = _snap(gens)
                    exc = self.ev(s.exc, loc, fr) if s.exc is not None else ("unknown", "re-raise")
                    anyt = ("any", snap, self.binders - len(gens))
                    saved_pc = loc.pc
                    loc.pc = outer.pc + ((anyt, True),)
                    e = self.emit("raise", loc, s, fr, exc=exc, cls=_exc_class(exc), any=anyt)
                    loc.pc = saved_pc
                    raises.append(e)
                    return True
                act = self._action(s, loc, outer, fr, gens, actions)
                if act is not None:
                    actions.append(act)
                    continue
                if isinstance(s, ast.Assign) and len(s.targets) == 1 and isinstance(s.targets[0], ast.Name) and s.targets[0].id not in outer.env:
                    loc.env[s.targets[0].id] = self.ev(s.value, loc, fr)
                    temps.add(s.targets[0].id)
                    continue
                if isinstance(s, ast.AnnAssign) and isinstance(s.target, ast.Name) and s.value is not None and s.target.id not in outer.env:
                    loc.env[s.target.id] = self.ev(s.value, loc, fr)
                    temps.add(s.target.id)
                    continue
                return False
            return True
        finally:
            for _ in range(pushed):
                gens[-1][1].pop()

    def _action(self, s: ast.stmt, loc: State, outer: State, fr: Frame, gens, actions) -> dict | None:
        def acc_ok(name: str) -> str | None:
            if any(a["acc"] == name for a in actions):
                return next(a["kind"] for a in actions if a["acc"] == name)
            t = outer.env.get(name)
            if t in (("list", ()), ("set", ()), ("dict", ())):
                return t[0]
            return None

        if isinstance(s, ast.Expr) and isinstance(s.value, ast.Call) and isinstance(s.value.func, ast.Attribute) and isinstance(s.value.func.value, ast.Name):
            call = s.value
            name, meth = call.func.value.id, call.func.attr
            k = acc_ok(name)
            if k is None or call.keywords or len(call.args) != 1:
                return None
            if (k, meth) in (("list", "append"), ("set", "add")):
                return {"acc": name, "kind": k, "elt": self.ev(call.args[0], loc, fr), "gens": _snap(gens)}
            if (k, meth) in (("list", "extend"), ("set", "update")):
                return self._flatten(name, k, self.ev(call.args[0], loc, fr), gens)
            return None
        if isinstance(s, ast.Assign) and len(s.targets) == 1 and isinstance(s.targets[0], ast.Subscript) and isinstance(s.targets[0].value, ast.Name):
            name = s.targets[0].value.id
            if acc_ok(name) == "dict":
                return {"acc": name, "kind": "dict", "elt": ("kv", self.ev(s.targets[0].slice, loc, fr), self.ev(s.value, loc, fr)), "gens": _snap(gens)}
            return None
        if isinstance(s, ast.AugAssign) and isinstance(s.target, ast.Name) and isinstance(s.op, (ast.Add, ast.BitOr)):
            k = acc_ok(s.target.id)
            if (k == "list" and isinstance(s.op, ast.Add)) or (k == "set" and isinstance(s.op, ast.BitOr)):
                return self._flatten(s.target.id, k, self.ev(s.value, loc, fr), gens)
        return None

    def _flatten(self, name: str, k: str, x: Term, gens) -> dict:
        if x[0] == "comp" and x[1] != "dict":
            return {"acc": name, "kind": k, "elt": x[2], "gens": _snap(gens) + x[3]}
        if x[0] in ("list", "set", "tuple") and len(x[1]) == 1:
            return {"acc": name, "kind": k, "elt": x[1][0], "gens": _snap(gens)}
        return {"acc": name, "kind": k, "elt": ("bv", self.binders), "gens": _snap(gens) + ((x, ()),)}

    # ------------------------------------------------------------------ expressions
    def ev(self, e: ast.expr | None, st: State, fr: Frame) -> Term:
        if e is None:
            return NONE_T
        if isinstance(e, ast.Constant):
            return const(e.value)
        if isinstance(e, (ast.Name, ast.Attribute, ast.Call)):
            t = self.ev_name(e, st, fr) if isinstance(e, ast.Name) else self.ev_attr(e, st, fr) if isinstance(e, ast.Attribute) else self.ev_call(e, st, fr)
            if t[0] in ("attr", "param", "mcall", "call", "phi", "index"):
                self.classes_of(t, fr, e)
            return t
        if isinstance(e, (ast.List, ast.Tuple, ast.Set)):
            kind = {ast.List: "list", ast.Tuple: "tuple", ast.Set: "set"}[type(e)]
            if len(e.elts) == 1 and isinstance(e.elts[0], ast.Starred):
                return ("call", kind, (self.ev(e.elts[0].value, st, fr),))  # `[*xs]` is `list(xs)`
            return (kind, tuple(self.ev(x, st, fr) for x in e.elts))
        if isinstance(e, ast.Dict):
            return ("dict", tuple((self.ev(k, st, fr) if k is not None else ("star",), self.ev(v, st, fr)) for k, v in zip(e.keys, e.values)))
        if isinstance(e, (ast.ListComp, ast.SetComp, ast.GeneratorExp, ast.DictComp)):
            return self.ev_comp(e, st, fr)
        if isinstance(e, ast.Subscript):
            obj = self.ev(e.value, st, fr)
            if isinstance(e.slice, ast.Slice):
                return ("slice", obj, self.ev(e.slice.lower, st, fr), self.ev(e.slice.upper, st, fr), self.ev(e.slice.step, st, fr))
            idx = self.ev(e.slice, st, fr)
            if obj[0] in ("list", "tuple") and idx[0] == "const" and isinstance(idx[1], int) and not isinstance(idx[1], bool) and -len(obj[1]) <= idx[1] < len(obj[1]):
                return obj[1][idx[1]]
            if obj[0] == "dict" and idx[0] == "const":
                for k, v in obj[1]:
                    if k == idx:
                        return v
            return ("index", obj, idx)
        if isinstance(e, ast.BoolOp):
            vals = tuple(self.ev(v, st, fr) for v in e.values)
            return ("and" if isinstance(e.op, ast.And) else "or", vals)
        if isinstance(e, ast.UnaryOp):
            v = self.ev(e.operand, st, fr)
            if isinstance(e.op, ast.Not):
                return mk_not(v)
            if isinstance(e.op, ast.USub) and v[0] == "const" and isinstance(v[1], (int, float)):
                return const(-v[1])
            return ("unop", type(e.op).__name__, v)
        if isinstance(e, ast.Compare):
            parts = []
            left = self.ev(e.left, st, fr)
            prev = e.left
            for op, r in zip(e.ops, e.comparators):
                right = self.ev(r, st, fr)
                fresh = _setdefault_of_fresh(prev, r, left, right) if isinstance(op, (ast.Is, ast.IsNot)) else None
                if fresh is not None:
                    # `d.setdefault(k, new) is new` for an object created in this call: true exactly when k was absent
                    absent = ("not", ("cmp", "In", fresh[0], fresh[1]))
                    parts.append(absent if isinstance(op, ast.Is) else mk_not(absent))
                else:
                    parts.append(_cmp(type(op).__name__, left, right))
                left, prev = right, r
            return parts[0] if len(parts) == 1 else ("and", tuple(parts))
        if isinstance(e, ast.IfExp):
            c = self.ev(e.test, st, fr)
            if c[0] == "const":
                return self.ev(e.body if c[1] else e.orelse, st, fr)
            a, b = self.ev(e.body, st, fr), self.ev(e.orelse, st, fr)
            return a if a == b else ("phi", c, a, b)
        if isinstance(e, ast.BinOp):
            a, b = self.ev(e.left, st, fr), self.ev(e.right, st, fr)
            if isinstance(e.op, ast.Add) and a[0] == "list" and b[0] == "list":
                return ("list", a[1] + b[1])
            return ("binop", type(e.op).__name__, a, b)
        if isinstance(e, ast.JoinedStr):
            return ("fstr", tuple(self.ev(v.value, st, fr) if isinstance(v, ast.FormattedValue) else const(getattr(v, "value", "")) for v in e.values))
        if isinstance(e, ast.Lambda):
            lf = getattr(e, "_func", None)
            return ("lambda", lf, tuple(sorted((k, v) for k, v in st.env.items() if k in {n.id for n in ast.walk(e.body) if isinstance(n, ast.Name)}))) if lf is not None else ("unknown", "lambda")
        if isinstance(e, ast.Starred):
            return ("star", self.ev(e.value, st, fr))
        if isinstance(e, ast.NamedExpr):
            v = self.ev(e.value, st, fr)
            st.env[e.target.id] = v
            return v
        self.note(f"unsupported expression {type(e).__name__} in {fr.ctx.fq}")
        return ("unknown", type(e).__name__)

    def ev_name(self, e: ast.Name, st: State, fr: Frame) -> Term:
        if e.id in st.env:
            return st.env[e.id]
        mod = fr.ctx.module
        if e.id in mod.functions:
            return ("funcref", mod.functions[e.id])
        if e.id in mod.classes:
            return ("classref", mod.classes[e.id].fq)
        if e.id in mod.constants:
            v = self.module_constant(mod, e.id)
            if v is not None:
                return v
        fq = self.repo.resolve_name(mod, e)
        if fq is not None:
            if fq in self.repo.classes:
                return ("classref", fq)
            m2, _, attr = fq.rpartition(".")
            om = self.repo.modules.get(m2)
            if om is not None and attr in om.functions:
                return ("funcref", om.functions[attr])
            if om is not None and attr in om.constants:
                v = self.module_constant(om, attr)
                if v is not None:
                    return v
            return ("global", fq)
        if e.id in ("True", "False", "None"):
            return const({"True": True, "False": False, "None": None}[e.id])
        return ("builtin", e.id)

    def module_constant(self, mod, name: str) -> Term | None:
        """Value of a module-level constant: literals, and tables (dict / tuple / list) of literals, functions and methods."""
        key = (mod.name, name)
        cache = self.__dict__.setdefault("_mod_consts", {})
        if key in cache:
            return cache[key]
        cache[key] = None  # recursion guard
        e = mod.constants[name]
        if isinstance(e, ast.Constant):
            cache[key] = const(e.value)
        elif isinstance(e, (ast.Dict, ast.Tuple, ast.List)) and not any(isinstance(n, (ast.Call, ast.Lambda, ast.ListComp, ast.DictComp, ast.SetComp, ast.GeneratorExp)) for n in ast.walk(e)):
            probe = FuncInfo(name="<module>", qualname="<module>", node=ast.Lambda(args=ast.arguments(posonlyargs=[], args=[], kwonlyargs=[], kw_defaults=[], defaults=[]), body=ast.Constant(value=None)), module=mod)
            cache[key] = self.ev(e, State({}, {}, ()), Frame(probe))
        elif isinstance(e, ast.Call) and self.repo.resolve_name(mod, e.func) in LIBRARY_VALUES and not e.keywords and all(isinstance(a, ast.Constant) for a in e.args):
            cache[key] = self.library(self.repo.resolve_name(mod, e.func), [const(a.value) for a in e.args], {})
        return cache[key]

    def _static_type(self, fr: Frame, e: ast.expr):
        try:
            return self.T.expr(fr.ctx, e)
        except Exception:  # noqa: BLE001
            return ("unknown",)

    def classes_of(self, obj: Term, fr: Frame | None = None, node: ast.expr | None = None) -> list[str]:
        if obj[0] in ("obj", "new"):
            return [obj[1]]
        out = set(self.term_cls.get(obj, ()))
        if fr is not None and node is not None:
            out |= {m[1] for m in members(self._static_type(fr, node)) if m[0] == "cls"}
            if out:
                self.term_cls.setdefault(obj, set()).update(out)
        return sorted(out)

    def ev_attr(self, e: ast.Attribute, st: State, fr: Frame) -> Term:
        obj = self.ev(e.value, st, fr)
        return self.load_attr(obj, e.attr, st, fr, e.value)

    def load_attr(self, obj: Term, attr: str, st: State, fr: Frame, node: ast.expr | None) -> Term:
        e = type("A", (), {"attr": attr, "value": node})
        if (obj, e.attr) in st.heap:
            return st.heap[(obj, e.attr)]
        if obj[0] == "classref":
            ci = self.repo.classes.get(obj[1])
            meth = self.repo.lookup_method(ci, e.attr) if ci else None
            if meth is not None:
                return ("funcref", meth)
            if ci is not None:
                for c in self.repo.mro(ci):
                    if e.attr in c.class_attrs and isinstance(c.class_attrs[e.attr], ast.Constant):
                        return const(c.class_attrs[e.attr].value)
            return ("attr", obj, e.attr)
        # property of a repo class with exactly one implementation -> interpret the getter
        cls_fqs = self.classes_of(obj, fr, node)
        impls: list[FuncInfo] = []
        for fq in cls_fqs:
            ci = self.repo.classes.get(fq)
            if ci is None:
                continue
            for m in self.repo.implementations(ci, e.attr):
                if m not in impls:
                    impls.append(m)
        if impls:
            concrete = [m for m in impls if not m.is_abstract]
            if all(m.is_property for m in impls) and len(concrete) == 1 and len(impls) == 1:
                try:
                    return self.interpret(concrete[0], {concrete[0].param_names[0]: obj}, st)
                except _Opaque:
                    pass
            elif len(impls) == 1 and not impls[0].is_property:
                return ("bound", obj, impls[0])
        if obj[0] == "new":
            # field of a freshly constructed (dataclass) value
            for k, v in obj[3]:
                if k == e.attr:
                    return v
        return ("attr", obj, e.attr)

    def _open_generator(self, it: Term, target: ast.expr, loc: State) -> list:
        """Binds the target of `for <target> in <it>` and returns the generators ([iterable, conditions]) it stands for: one that
        binds a fresh variable - or, when `it` is itself a (lazy or list) comprehension built at this binder depth, the generators of
        that comprehension, with the target bound to what it yields (`[f(x) for x in (g(y) for y in ys)]` is `[f(g(y)) for y in ys]`)."""
        if it[0] == "comp" and it[1] in ("gen", "list") and it[4] == self.binders and it[3]:
            self.bind_target(target, it[2], loc)
            self.binders += len(it[3])
            return [[g[0], list(g[1])] for g in it[3]]
        self.bind_target(target, ("bv", self.binders), loc)
        self.binders += 1
        return [[it, []]]

    def ev_comp(self, e, st: State, fr: Frame) -> Term:
        loc = st.fork()
        depth0 = self.binders
        gens = []
        for g in e.generators:
            opened = self._open_generator(self.ev(g.iter, loc, fr), g.target, loc)
            opened[-1][1] += [self.ev(c, loc, fr) for c in g.ifs]
            gens += [(it, tuple(ifs)) for it, ifs in opened]
        if isinstance(e, ast.DictComp):
            elt = ("kv", self.ev(e.key, loc, fr), self.ev(e.value, loc, fr))
        else:
            elt = self.ev(e.elt, loc, fr)
        self.binders = depth0
        st.heap, st.pc = loc.heap, loc.pc
        kind = {ast.ListComp: "list", ast.SetComp: "set", ast.GeneratorExp: "gen", ast.DictComp: "dict"}[type(e)]
        return ("comp", kind, elt, tuple(gens), depth0)

    # ------------------------------------------------------------------ calls
    def ev_call(self, call: ast.Call, st: State, fr: Frame) -> Term:
        f = call.func
        starred = any(isinstance(a, ast.Starred) for a in call.args) or any(k.arg is None for k in call.keywords)
        # builtins
        if isinstance(f, ast.Name) and f.id not in st.env and f.id in BUILTIN_NAMES and self.repo.resolve_name(fr.ctx.module, f) is None:
            args = tuple(self.ev(a, st, fr) for a in call.args)
            kws = tuple((k.arg, self.ev(k.value, st, fr)) for k in call.keywords)
            return self.builtin(f.id, args, kws, st, fr, call)
        recv = None
        target: FuncInfo | None = None
        via_class = False
        fterm = None
        repo_targets: list[FuncInfo] = []
        if isinstance(f, ast.Attribute):
            recv = self.ev(f.value, st, fr)
            if (recv, f.attr) in st.heap:
                fterm = st.heap[(recv, f.attr)]
            elif recv[0] == "classref":
                ci = self.repo.classes.get(recv[1])
                m = self.repo.lookup_method(ci, f.attr) if ci else None
                if m is not None:
                    target, via_class = m, True
            elif recv[0] in ("obj", "new"):
                ci = self.repo.classes.get(recv[1])
                m = self.repo.lookup_method(ci, f.attr) if ci else None
                if m is not None and not m.is_abstract and not m.is_property:
                    target = m
        else:
            fterm = self.ev(f, st, fr)
        args = [self.ev(a, st, fr) for a in call.args if not isinstance(a, ast.Starred)]
        kws = {k.arg: self.ev(k.value, st, fr) for k in call.keywords if k.arg is not None}
        lib = fterm[1] if fterm is not None and fterm[0] == "global" else f"{recv[1]}.{f.attr}" if fterm is None and recv is not None and recv[0] == "global" else None
        if lib == "itertools.chain" and len(call.args) == 1 and isinstance(call.args[0], ast.Starred) and not call.keywords:
            return self.flatten(self.ev(call.args[0].value, st, fr))  # `chain(*xss)`
        if lib is not None and not starred:
            t = self.library(lib, args, kws)
            if t is not None:
                return t
        while fterm is not None and fterm[0] == "partial":
            args, kws, fterm = list(fterm[2]) + args, {**dict(fterm[3]), **kws}, fterm[1]
        if fterm is not None:
            if fterm[0] == "funcref":
                target = fterm[1]
                via_class = target.cls is not None and target.outer is None and not target.is_staticmethod and not target.is_classmethod
                recv = None
            elif fterm[0] == "bound":
                target, recv, via_class = fterm[2], fterm[1], False
            elif fterm[0] == "lambda":
                target, recv = fterm[1], None
            elif fterm[0] == "classref":
                return self.construct(fterm[1], args, kws, starred, call, st, fr)
            elif fterm[0] == "attrgetter" and len(args) == 1 and not kws and not starred:
                return self.apply(fterm, args, st, fr, call)
        if target is None and not starred and fterm is None:
            try:
                cs, how = self.T.callees(fr.ctx, call, byname_fallback=False)
            except Exception:  # noqa: BLE001
                cs, how = [], "unresolved"
            if how == "ctor":
                ci = self.T.ctor_class(fr.ctx, call)
                if ci is not None:
                    return self.construct(ci.fq, args, kws, starred, call, st, fr)
            concrete = [c for c in cs if not c.is_abstract]
            repo_targets = concrete
            if how == "repo" and len(concrete) == 1 and len(cs) == len(concrete) + sum(1 for c in cs if c.is_abstract):
                target = concrete[0]
                if isinstance(f, ast.Attribute):
                    rt = self._static_type(fr, f.value)
                    via_class = any(m[0] == "type" for m in members(rt)) and not target.is_classmethod and not target.is_staticmethod
        if target is None and not repo_targets and not starred and fterm is None and isinstance(f, ast.Attribute) and recv is not None and recv[0] not in ("classref", "global", "builtin"):
            # the static type of the receiver expression is not known (a local bound to what a generic helper returned), but the
            # *term* is one whose classes were recorded where it was read: `rule = _required(self._rule, ..); rule.step()`
            impls: list[FuncInfo] = []
            for fq in self.classes_of(recv):
                ci = self.repo.classes.get(fq)
                for m in self.repo.implementations(ci, f.attr) if ci is not None else ():
                    if m not in impls:
                        impls.append(m)
            concrete = [m for m in impls if not m.is_abstract]
            if len(concrete) == 1 and not concrete[0].is_property and not concrete[0].is_staticmethod and not concrete[0].is_classmethod:
                target, via_class = concrete[0], False
        if target is not None and not starred:
            try:
                env = self.bind(target, recv, via_class, args, kws, fterm, fr)
                return self.interpret(target, env, st)
            except _Opaque:
                pass
        # un-interpreted call
        if target is not None or repo_targets:
            # code of the repository that was not followed (several implementations, *args, recursion, depth)
            self.emit("opaque", st, call, fr, targets=tuple(t.fq for t in ([target] if target is not None else repo_targets)))
        if isinstance(f, ast.Attribute) and fterm is None:
            a = tuple(args) + tuple(("kw", k, v) for k, v in kws.items())
            self._container_effects(recv, f.attr, args, kws, st, fr, call)
            if f.attr not in PURE_METHODS:
                self.emit("call", st, call, fr, recv=recv, method=f.attr, args=a)
            return ("mcall", recv, f.attr, a)
        ft = fterm if fterm is not None else ("unknown", "callee")
        a = tuple(args) + tuple(("kw", k, v) for k, v in kws.items())
        self.emit("call", st, call, fr, recv=None, method=ft, args=a)
        return ("call", ft, a)

    def library(self, fq: str, args: list, kws: dict) -> Term | None:
        """Standard-library callables with an exact meaning in terms: `attrgetter("a")`, `islice(xs, n)`, `chain.from_iterable(xss)`."""
        if fq == "functools.partial" and args and is_callable_term(args[0]):
            return ("partial", args[0], tuple(args[1:]), tuple(sorted(kws.items())))
        if kws:
            return None
        if fq == "operator.attrgetter" and args and all(a[0] == "const" and isinstance(a[1], str) and a[1] for a in args):
            return ("attrgetter",) + tuple(a[1] for a in args)
        if fq.startswith("operator.") and OPERATOR_FUNCTIONS.get(fq[9:]) == len(args):
            fn = fq[9:]
            if fn == "not_":
                return mk_not(args[0])
            if fn == "truth":
                return ("call", "bool", (args[0],))
            if fn == "getitem":
                return ("index", args[0], args[1])
            if fn == "contains":
                return _cmp("In", args[1], args[0])
            return _cmp({"eq": "Eq", "ne": "NotEq", "is_": "Is", "is_not": "IsNot"}[fn], args[0], args[1])
        if fq == "itertools.compress" and len(args) == 2:
            return self.compress(args[0], args[1])
        if fq == "itertools.islice" and len(args) == 2:
            return ("call", "islice", tuple(args))
        if fq == "itertools.chain.from_iterable" and len(args) == 1:
            return self.flatten(args[0])
        return None

    def aligned(self, data: Term, selectors: Term):
        """(iterable, element of data, element of selectors, base) when both walk the same collection in step: `d` / `d.keys()` next
        to a comprehension over `d.values()` / `d.items()` / `d`, or `xs` next to a comprehension over `xs`."""

        def unwrap(t: Term) -> Term:
            while t[0] == "call" and isinstance(t[1], str) and t[1] in ("list", "tuple", "iter") and len(t[2]) == 1:
                t = t[2][0]
            return t

        data, sel = unwrap(data), unwrap(selectors)
        if data[0] == "mcall" and data[2] == "keys" and not data[3]:
            data = data[1]
        if sel == ("mcall", data, "values", ()):  # the values themselves, in step with the keys
            bv = ("bv", self.binders)
            return ("mcall", data, "items", ()), ("item", bv, 0), ("item", bv, 1), self.binders
        if sel[0] != "comp" or sel[1] not in ("gen", "list") or len(sel[3]) != 1 or sel[3][0][1]:
            return None
        it, bv, elt, base = unwrap(sel[3][0][0]), ("bv", sel[4]), sel[2], sel[4]
        if it == ("mcall", data, "values", ()):
            return ("mcall", data, "items", ()), ("item", bv, 0), subst(elt, bv, ("item", bv, 1)), base
        if it == ("mcall", data, "items", ()):
            return it, ("item", bv, 0), elt, base
        if it == data or it == ("mcall", data, "keys", ()):
            return it, bv, elt, base
        return None

    def compress(self, data: Term, selectors: Term) -> Term | None:
        """`compress(d, (f(v) for v in d.values()))` is `(k for k, v in d.items() if f(v))`; `compress(xs, (f(x) for x in xs))` is
        `(x for x in xs if f(x))`."""
        al = self.aligned(data, selectors)
        if al is None:
            return None
        it, d_elt, s_elt, base = al
        return ("comp", "gen", d_elt, ((it, (s_elt,)),), base)

    def zip2(self, data: Term, other: Term) -> Term | None:
        """`zip(d, (f(v) for v in d.values()))` is `((k, f(v)) for k, v in d.items())`."""
        al = self.aligned(data, other)
        if al is None:
            return None
        it, d_elt, s_elt, base = al
        return ("comp", "gen", ("tuple", (d_elt, s_elt)), ((it, ()),), base)

    def flatten(self, x: Term, kind: str = "gen") -> Term:
        """`(e for xs in x for e in xs)`; when x is itself a comprehension its generators are continued."""
        if x[0] == "comp" and x[1] != "dict" and x[4] >= self.binders:
            k = len(x[3])
            return ("comp", kind, ("bv", x[4] + k), x[3] + ((x[2], ()),), x[4])
        b = self.binders
        return ("comp", kind, ("bv", b + 1), ((x, ()), (("bv", b), ())), b)

    def _container_effects(self, recv: Term, attr: str, args, kws, st: State, fr: Frame, call: ast.Call) -> None:
        """dict.setdefault / dict.update / dict.__setitem__ on a state container are writes of entries."""
        if attr == "setdefault" and len(args) == 2:
            saved = st.pc
            st.pc += ((("cmp", "In", args[0], recv), False),)  # the entry is written only when the key is absent
            self.emit("setitem", st, call, fr, obj=recv, key=args[0], value=args[1], how="setdefault")
            st.pc = saved
        elif attr == "__setitem__" and len(args) == 2:
            self.emit("setitem", st, call, fr, obj=recv, key=args[0], value=args[1], how="[]=")
        elif attr == "update":
            if len(args) == 1 and args[0][0] == "dict":
                for k, v in args[0][1]:
                    self.emit("setitem", st, call, fr, obj=recv, key=k, value=v, how="update")
            for k, v in kws.items():
                self.emit("setitem", st, call, fr, obj=recv, key=const(k), value=v, how="update")
        # straight-line accumulation into a local literal
        if isinstance(call.func.value, ast.Name) and call.func.value.id in st.env and len(args) == 1 and not kws and self.loop_depth == 0:
            cur = st.env[call.func.value.id]
            if cur[0] == "list" and attr == "append":
                st.env[call.func.value.id] = ("list", cur[1] + (args[0],))
            elif cur[0] == "set" and attr == "add":
                st.env[call.func.value.id] = ("set", cur[1] + (args[0],))
            elif cur[0] == "list" and attr == "extend" and args[0][0] == "list":
                st.env[call.func.value.id] = ("list", cur[1] + args[0][1])

    def builtin(self, name: str, args: tuple, kws: tuple, st: State, fr: Frame, call: ast.Call) -> Term:
        if name == "isinstance" and len(args) == 2:
            tn = call.args[1]
            names = tuple(sorted(_type_names(tn)))
            return ("isinstance", args[0], names)
        if name in ("list", "set", "dict", "tuple", "frozenset") and not args and not kws:
            return ({"frozenset": "set"}.get(name, name), ())
        if name == "bool" and len(args) == 1:
            return ("call", "bool", args)
        if name == "zip" and len(args) == 2 and not kws:
            z = self.zip2(args[0], args[1])
            if z is not None:
                return z
        if name == "sum" and len(args) == 2 and args[1] == ("list", ()) and not kws:
            return self.flatten(args[0], "list")  # `sum(xss, [])` concatenates the lists
        if name == "getattr" and len(args) in (2, 3) and not kws:
            alts = _const_alternatives(args[1])
            if alts is not None:
                def read(n: str) -> Term:
                    return self.load_attr(args[0], n, st, fr, None)
                return _phi_of(alts, read)
        if name == "setattr" and len(args) == 3 and not kws:
            alts = _const_alternatives(args[1])
            if alts is not None:
                base = st.pc
                for conds, n in alts:
                    st.pc = base + conds
                    self.emit("setattr", st, call, fr, obj=args[0], attr=n, value=args[2])
                    old = st.heap.get((args[0], n), ("attr", args[0], n))
                    new = args[2]
                    for c, pol in reversed(conds):
                        new = ("phi", c, new, old) if pol else ("phi", c, old, new)
                    st.heap[(args[0], n)] = new
                st.pc = base
                return NONE_T
        if name in ("map", "filter") and len(args) == 2 and (is_callable_term(args[0]) or args[0][0] == "partial*") and args[1][0] == "comp" and args[1][1] != "dict" and args[1][4] >= self.binders:
            # over a comprehension: the function is applied to (the test is added to) what the comprehension yields
            inner = args[1]
            saved = self.binders
            self.binders = inner[4] + len(inner[3])
            try:
                r = self.apply(args[0], [inner[2]], st, fr, call)
            except (_Opaque, _Dead):
                r = None
            self.binders = saved
            if r is not None:
                if name == "map":
                    return ("comp", "gen", r, inner[3], inner[4])
                gens = inner[3][:-1] + ((inner[3][-1][0], inner[3][-1][1] + (r,)),)
                return ("comp", "gen", inner[2], gens, inner[4])
        if name == "map" and len(args) > 2 and is_callable_term(args[0]) and not kws:
            # `map(f, repeat(c), xs)`: every iterable but one repeats a constant
            rep = [a[0] == "call" and a[1] == ("global", "itertools.repeat") and len(a[2]) == 1 for a in args[1:]]
            if rep.count(False) == 1:
                xs = args[1:][rep.index(False)]
                return self.builtin("map", (("partial*", args[0], tuple(a[2][0] if r else None for a, r in zip(args[1:], rep))), xs), (), st, fr, call)
        if name in ("map", "filter") and len(args) == 2 and (is_callable_term(args[0]) or args[0][0] == "partial*"):
            bv = ("bv", self.binders)
            self.binders += 1
            try:
                r = self.apply(args[0], [bv], st, fr, call)
            except (_Opaque, _Dead):
                r = None
            self.binders -= 1
            if r is not None:
                if name == "map":
                    return ("comp", "gen", r, ((args[1], ()),), bv[1])
                return ("comp", "gen", bv, ((args[1], (r,)),), bv[1])
        return ("call", name, args + tuple(("kw", k, v) for k, v in kws))

    def apply(self, fterm: Term, args: list, st: State, fr: Frame, call: ast.Call) -> Term:
        if fterm[0] == "partial*":  # (internal) a callable with some positional arguments fixed, the hole takes the element
            return self.apply(fterm[1], [args[0] if a is None else a for a in fterm[2]], st, fr, call)
        while fterm[0] == "partial":
            if fterm[3]:
                raise _Opaque
            args, fterm = list(fterm[2]) + list(args), fterm[1]
        if fterm[0] == "global":
            r = self.library(fterm[1], list(args), {})
            if r is None:
                raise _Opaque
            return r
        if fterm[0] == "builtin":
            if fterm[1] not in MAPPABLE_BUILTINS or len(args) != 1:
                raise _Opaque
            return self.builtin(fterm[1], tuple(args), (), st, fr, call)
        if fterm[0] == "attrgetter":
            vals = []
            for dotted in fterm[1:]:
                v = args[0]
                for a in dotted.split("."):
                    v = self.load_attr(v, a, st, fr, None)
                vals.append(v)
            return vals[0] if len(vals) == 1 else ("tuple", tuple(vals))
        if fterm[0] == "classref":
            return self.construct(fterm[1], args, {}, False, call, st, fr)
        if fterm[0] == "bound":
            return self.interpret(fterm[2], self.bind(fterm[2], fterm[1], False, args, {}, fterm, fr), st)
        target = fterm[1]
        via_class = fterm[0] == "funcref" and target.cls is not None and target.outer is None and not target.is_staticmethod and not target.is_classmethod
        env = self.bind(target, None, via_class, args, {}, fterm, fr)
        return self.interpret(target, env, st)

    def construct(self, cls_fq: str, args: list, kws: dict, starred: bool, call: ast.Call, st: State, fr: Frame) -> Term:
        ci = self.repo.classes.get(cls_fq)
        init = self.repo.lookup_method(ci, "__init__") if ci else None
        if ci is None or starred:
            return ("new", cls_fq, tuple(args), tuple(sorted(kws.items())))
        if init is None:
            # dataclass-like value: positional arguments named after the annotated fields, in order
            fields = [n for c in reversed(self.repo.mro(ci)) for n in c.ann_attrs]
            named = dict(kws)
            for n, a in zip(fields, args):
                named.setdefault(n, a)
            return ("new", cls_fq, (), tuple(sorted(named.items())))
        obj = ("obj", cls_fq, f"{fr.ctx.fq}@{call.lineno}:{call.col_offset}")
        try:
            env = self.bind(init, obj, False, args, kws, None, fr)
            self.interpret(init, env, st)
        except _Opaque:
            self.emit("call", st, call, fr, recv=obj, method="__init__", args=tuple(args))
        return obj

    def bind(self, target: FuncInfo, recv: Term | None, via_class: bool, args: list, kws: dict, fterm: Term | None, fr: Frame) -> dict:
        a = target.node.args
        if a.vararg or a.kwarg:
            raise _Opaque
        pos = [p.arg for p in [*a.posonlyargs, *a.args]]
        allp = pos + [p.arg for p in a.kwonlyargs]
        env: dict = {}
        args = list(args)
        if fterm is not None and fterm[0] == "lambda":
            env.update(dict(fterm[2]))
        if target.cls is not None and target.outer is None and not target.is_staticmethod and not isinstance(target.node, ast.Lambda) and pos:
            first = pos.pop(0)
            if target.is_classmethod:
                env[first] = ("classref", recv[1] if recv is not None and recv[0] == "classref" else target.cls.fq)
            elif via_class or recv is None:
                if not args:
                    raise _Opaque
                env[first] = args.pop(0)
            else:
                env[first] = recv
        if len(args) > len(pos):
            raise _Opaque
        for p, v in zip(pos, args):
            env[p] = v
        for k, v in kws.items():
            if k not in allp or k in env:
                raise _Opaque
            env[k] = v
        dfr = Frame(target)
        dst = State({}, {}, ())
        pos_all = [*a.posonlyargs, *a.args]
        for p, d in zip(pos_all[len(pos_all) - len(a.defaults):], a.defaults):
            if p.arg not in env:
                env[p.arg] = self.ev(d, dst, dfr)
        for p, d in zip(a.kwonlyargs, a.kw_defaults):
            if d is not None and p.arg not in env:
                env[p.arg] = self.ev(d, dst, dfr)
        if any(p not in env for p in allp):
            raise _Opaque
        return env

    def interpret(self, callee: FuncInfo, env: dict, st: State) -> Term:
        if callee.fq in self.stack or len(self.stack) >= self.max_depth or callee.is_abstract:
            raise _Opaque
        if not isinstance(callee.node, ast.Lambda):
            for n in ast.walk(callee.node):
                if isinstance(n, (ast.Yield, ast.YieldFrom, ast.Await)):
                    raise _Opaque
        fr = Frame(callee)
        self.stack.append(callee.fq)
        inner = State(env, dict(st.heap), st.pc)
        try:
            try:
                end = self.exec_block(callee.body, inner, fr)
            except _Dead:
                end = None
        finally:
            self.stack.pop()
        exits = list(fr.returns)
        if end is not None:
            exits.append((end, NONE_T))
        if not exits:
            raise _Dead
        cur, val = exits[0]
        for s2, v2 in exits[1:]:
            c = _split_cond(st.pc, cur.pc, s2.pc)
            merged = merge2(st.pc, cur, s2)
            val = val if val == v2 else ("phi", c, val, v2)
            cur = merged
        st.heap, st.pc = cur.heap, cur.pc
        return val


# --------------------------------------------------------------------------- helpers


def _const_alternatives(t: Term):
    """[(conditions, string)] when t is a string constant or a conditional choice between string constants."""
    if t[0] == "const" and isinstance(t[1], str):
        return [((), t[1])]
    if t[0] == "phi":
        a, b = _const_alternatives(t[2]), _const_alternatives(t[3])
        if a is None or b is None:
            return None
        return [(((t[1], True),) + c, n) for c, n in a] + [(((t[1], False),) + c, n) for c, n in b]
    return None


def _phi_of(alts, leaf) -> Term:
    """Rebuilds the conditional term whose leaves are leaf(name); `alts` comes from _const_alternatives (a full binary split)."""
    if len(alts) == 1 and not alts[0][0]:
        return leaf(alts[0][1])
    c = alts[0][0][0][0]
    yes = [(conds[1:], n) for conds, n in alts if conds and conds[0] == (c, True)]
    no = [(conds[1:], n) for conds, n in alts if conds and conds[0] == (c, False)]
    a, b = _phi_of(yes, leaf), _phi_of(no, leaf)
    return a if a == b else ("phi", c, a, b)


def phi_leaves(t: Term, conds: tuple = ()):
    """(conditions, leaf) for every alternative of a conditional term."""
    if t[0] == "phi":
        yield from phi_leaves(t[2], conds + ((t[1], True),))
        yield from phi_leaves(t[3], conds + ((t[1], False),))
    else:
        yield conds, t


def _setdefault_of_fresh(a: ast.expr, b: ast.expr, ta: Term, tb: Term):
    """(key, mapping) when one side is (a variable holding) `<mapping>.setdefault(key, NEW)` and the other side the variable NEW, bound
    to an object created by an expression of the running call (display, comprehension, constructor): its identity is new, so it
    cannot be a value that was stored before."""
    for name, tc, tn in ((b, ta, tb), (a, tb, ta)):
        if not isinstance(name, ast.Name):
            continue
        if tc[0] == "mcall" and tc[2] == "setdefault" and len(tc[3]) == 2 and tc[3][1] == tn and (tn[0] in ("list", "dict", "set", "new", "obj") or (tn[0] == "comp" and tn[1] != "gen")):
            return tc[3][0], tc[1]
    return None


def _as_load(t: ast.expr) -> ast.expr:
    if isinstance(t, ast.Name):
        return ast.copy_location(ast.Name(id=t.id, ctx=ast.Load()), t)
    if isinstance(t, ast.Attribute):
        return ast.copy_location(ast.Attribute(value=t.value, attr=t.attr, ctx=ast.Load()), t)
    if isinstance(t, ast.Subscript):
        return ast.copy_location(ast.Subscript(value=t.value, slice=t.slice, ctx=ast.Load()), t)
    return t


def _item(v: Term, i: int, n: int) -> Term:
    if v[0] in ("tuple", "list") and len(v[1]) == n:
        return v[1][i]
    return ("unpack", v, i, n)


def _snap(gens) -> tuple:
    return tuple((g[0], tuple(g[1])) for g in gens)


def _cmp(op: str, a: Term, b: Term) -> Term:
    if op in ("NotIn", "IsNot", "NotEq"):
        return ("not", ("cmp", {"NotIn": "In", "IsNot": "Is", "NotEq": "Eq"}[op], a, b))
    return ("cmp", op, a, b)


def _type_names(e: ast.expr) -> set[str]:
    if isinstance(e, ast.Tuple):
        out: set[str] = set()
        for x in e.elts:
            out |= _type_names(x)
        return out
    if isinstance(e, ast.Name):
        return {e.id}
    if isinstance(e, ast.Attribute):
        return {e.attr}
    return {ast.unparse(e)}


def _exc_class(exc: Term) -> str:
    if exc[0] in ("new", "obj"):
        return exc[1].rsplit(".", 1)[-1]
    if exc[0] == "classref":
        return exc[1].rsplit(".", 1)[-1]
    if exc[0] == "call" and is_term(exc[1]) and exc[1][0] in ("global", "builtin"):
        return exc[1][1].rsplit(".", 1)[-1]
    if exc[0] in ("global", "builtin"):
        return exc[1].rsplit(".", 1)[-1]
    return "?"


def _split_cond(base: tuple, pa: tuple, pb: tuple) -> Term:
    sa, sb = pa[len(base):], pb[len(base):]
    i = 0
    while i < len(sa) and i < len(sb) and sa[i] == sb[i]:
        i += 1
    if i < len(sa) and i < len(sb) and sa[i][0] == sb[i][0] and sa[i][1] != sb[i][1]:
        return sa[i][0] if sa[i][1] else mk_not(sa[i][0])
    if i < len(sa):
        return sa[i][0] if sa[i][1] else mk_not(sa[i][0])
    return ("unknown", "path split")


def merge2(base_pc: tuple, a: State | None, b: State | None) -> State | None:
    if a is None:
        return b
    if b is None:
        return a
    c = _split_cond(base_pc, a.pc, b.pc)
    n = len(base_pc)
    # longest common prefix of the two path conditions (at least the base)
    while n < len(a.pc) and n < len(b.pc) and a.pc[n] == b.pc[n]:
        n += 1
    sa, sb = a.pc[n:], b.pc[n:]
    pc = a.pc[:n]
    if not (len(sa) == 1 and len(sb) == 1 and sa[0][0] == sb[0][0] and sa[0][1] != sb[0][1]):
        if sa and sb:
            pc += ((("disj", (sa, sb)), True),)
        # one side adds nothing: the disjunction is implied by the prefix
    env = {}
    for k in set(a.env) | set(b.env):
        x, y = a.env.get(k, ("unbound", k)), b.env.get(k, ("unbound", k))
        env[k] = x if x == y else ("phi", c, x, y)
    heap = {}
    for k in set(a.heap) | set(b.heap):
        x, y = a.heap.get(k, ("attr", k[0], k[1])), b.heap.get(k, ("attr", k[0], k[1]))
        heap[k] = x if x == y else ("phi", c, x, y)
    return State(env, heap, pc)


def show(t, depth: int = 0) -> str:
    """Compact, python-like rendering of a term (diagnostics only)."""
    if not is_term(t):
        return repr(t)
    op = t[0]
    if depth > 12:
        return "..."
    r = lambda x: show(x, depth + 1)  # noqa: E731
    if op == "self":
        return "self"
    if op in ("param", "sym"):
        return t[1]
    if op == "const":
        return repr(t[1])
    if op == "attr":
        return f"{r(t[1])}.{t[2]}"
    if op == "bv":
        return f"v{t[1]}"
    if op == "item":
        return f"{r(t[1])}[{t[2]}]"
    if op == "unpack":
        return f"unpack{t[3]}({r(t[1])})[{t[2]}]"
    if op == "index":
        return f"{r(t[1])}[{r(t[2])}]"
    if op == "slice":
        return f"{r(t[1])}[{'' if t[2] == NONE_T else r(t[2])}:{'' if t[3] == NONE_T else r(t[3])}{'' if t[4] == NONE_T else ':' + r(t[4])}]"
    if op in ("list", "tuple", "set"):
        br = {"list": "[]", "tuple": "()", "set": "{}"}[op]
        if op == "set" and not t[1]:
            return "set()"
        return br[0] + ", ".join(r(x) for x in t[1]) + br[1]
    if op == "dict":
        return "{" + ", ".join(f"{r(k)}: {r(v)}" for k, v in t[1]) + "}"
    if op == "kv":
        return f"{r(t[1])}: {r(t[2])}"
    if op == "comp":
        br = {"list": "[]", "set": "{}", "gen": "()", "dict": "{}"}[t[1]]
        gens = " ".join(f"for v{t[4] + i} in {r(g[0])}" + "".join(f" if {r(c)}" for c in g[1]) for i, g in enumerate(t[3]))
        return f"{br[0]}{r(t[2])} {gens}{br[1]}"
    if op == "any":
        gens = " ".join(f"for v{t[2] + i} in {r(g[0])}" + "".join(f" if {r(c)}" for c in g[1]) for i, g in enumerate(t[1]))
        return f"any(True {gens})"
    if op == "call":
        f = t[1] if isinstance(t[1], str) else r(t[1])
        return f"{f}({', '.join(r(x) for x in t[2])})"
    if op == "mcall":
        return f"{r(t[1])}.{t[2]}({', '.join(r(x) for x in t[3])})"
    if op == "kw":
        return f"{t[1]}={r(t[2])}"
    if op == "cmp":
        sym = {"Eq": "==", "In": "in", "Is": "is", "Lt": "<", "LtE": "<=", "Gt": ">", "GtE": ">="}.get(t[1], t[1])
        return f"{r(t[2])} {sym} {r(t[3])}"
    if op == "not":
        return f"not ({r(t[1])})"
    if op in ("and", "or"):
        return "(" + f" {op} ".join(r(x) for x in t[1]) + ")"
    if op == "phi":
        return f"({r(t[2])} if {r(t[1])} else {r(t[3])})"
    if op == "isinstance":
        return f"isinstance({r(t[1])}, {'/'.join(t[2])})"
    if op == "binop":
        return f"({r(t[2])} <{t[1]}> {r(t[3])})"
    if op in ("new", "obj"):
        name = t[1].rsplit(".", 1)[-1]
        if op == "obj":
            return f"<{name} object>"
        return f"{name}({', '.join([r(x) for x in t[2]] + [f'{k}={r(v)}' for k, v in t[3]])})"
    if op in ("funcref", "lambda"):
        return f"<{getattr(t[1], 'qualname', '?')}>"
    if op == "bound":
        return f"{r(t[1])}.{t[2].name}"
    if op == "classref":
        return t[1].rsplit(".", 1)[-1]
    if op in ("global", "builtin"):
        return t[1].rsplit(".", 1)[-1]
    if op == "fstr":
        return "f'" + "".join("{" + r(x) + "}" if x[0] != "const" else str(x[1]) for x in t[1]) + "'"
    if op == "disj":
        return "(" + " or ".join("(" + " and ".join(("" if pol else "not ") + r(c) for c, pol in alt) + ")" for alt in t[1]) + ")"
    if op == "unknown":
        return f"<?{t[1]}>"
    if op == "attrgetter":
        return f"attrgetter({', '.join(repr(x) for x in t[1:])})"
    if op == "partial":
        return f"partial({', '.join([r(t[1])] + [r(x) for x in t[2]] + [f'{k}={r(v)}' for k, v in t[3]])})"
    return op + "(" + ", ".join(r(x) if is_term(x) else repr(x) for x in t[1:]) + ")"


def show_pc(pc: tuple) -> str:
    return " and ".join(("" if pol else "not ") + show(c) for c, pol in pc) or "True"
