"""C17 - plot labels: aliases replace the nearest aliased ancestor, all modules labelled.

  C17.R1  the aliased-ancestor test is boundary-safe, regex-free, and the label is alias + the rest of the name after the ancestor
  C17.R2  candidates are ordered most-specific first and the first match wins
  C17.R3  every node gets exactly one label; the default is the full name
  C17.R4  the existence check dominates label creation and raises an error naming the missing module
  C17.R5  remaining options are passed through to the drawing backend unchanged
  C17.R6  label computation keeps no state (no writes to the graph object, class or module)
"""

from __future__ import annotations

import ast

from core.cfg import EXIT
from core.effects import Effects
from core.guards import atom, equivalent, f_not, implies
from core.loader import AnalysisError, Repo, ancestors as ancestors_of, calls_in, header, norm, own_nodes, parent
from core.report import Result

from . import names
from .c14 import add_sites
from .common import cfg_of, conds, dotted, guard_formula, is_attr_call, loops_around, reachable_funcs, stmt_of, types_of, where

NXGRAPH = "pytestarch.eval_structure.networkxgraph"


def run(repo: Repo) -> Result:
    res = Result("C17")
    res.explanation = (
        "Decides the label mechanism structurally: the aliased-ancestor test compares whole dotted components and uses no regex or "
        "str.replace; the label is the alias plus the remainder after the matched ancestor; candidates are tried longest first; every node of "
        "the graph gets exactly one label with the full name as default; aliases for unknown modules raise before any label is built; all "
        "other options reach draw_networkx unchanged; label computation writes no state."
    )
    res.not_decided = "the label map as a function on all trees (values are not computed)."
    res.trusted_base = ["engine flow analysis and CFG dominance"]
    g = repo.cls(NXGRAPH, "NetworkxGraph")
    draw = g.methods.get("draw")
    if draw is None:
        raise AnalysisError("NetworkxGraph.draw not found")
    label_funcs = [f for f in reachable_funcs(repo, [draw], byname=False) if f.cls is g]
    fq = {f.fq for f in label_funcs}
    # R1
    sites = [s for s in names.scan(repo) if s.fi.fq in fq]
    n = add_sites(repo, res, "C17.R1", sites)
    res.floor("C17.R1", 2, n)
    # the function computing one label: takes the module name and the alias mapping, returns str on two paths
    mk = None
    for f in label_funcs:
        rets = [s for s in own_nodes(f.node) if isinstance(s, ast.Return) and s.value is not None]
        if "aliases" in f.param_names and len(f.param_names) >= 3 and any(dotted(r.value) == f.param_names[1] for r in rets) and f is not draw:
            mk = f
    if mk is None:
        raise AnalysisError("the function computing a single label was not found")
    namep = mk.param_names[1]
    rets = [s for s in own_nodes(mk.node) if isinstance(s, ast.Return) and s.value is not None]
    default = [r for r in rets if dotted(r.value) == namep]
    built = [r for r in rets if r not in default]
    ok = len(built) == 1
    detail = "exactly one aliased return"
    if ok:
        v = built[0].value

        def resolve(e, depth=0):
            if isinstance(e, ast.Name) and depth < 3:
                a = [s for s in own_nodes(mk.node) if isinstance(s, ast.Assign) and dotted(s.targets[0]) == e.id]
                if len(a) == 1:
                    return resolve(a[0].value, depth + 1)
            return e

        v = resolve(v)
        ok = isinstance(v, ast.BinOp) and isinstance(v.op, ast.Add)
        if ok:
            left, right = resolve(v.left), resolve(v.right)
            is_alias = isinstance(left, ast.Subscript) and dotted(left.value) == "aliases"
            is_rest = (isinstance(right, ast.Subscript) and isinstance(right.slice, ast.Slice) and dotted(right.value) == namep and right.slice.upper is None and "len(" in norm(right.slice.lower or ast.Constant(0))) or (
                isinstance(right, ast.Call) and isinstance(right.func, ast.Attribute) and right.func.attr == "removeprefix" and dotted(right.func.value) == namep
            )
            key_same = is_alias and isinstance(right, ast.Subscript) and norm(left.slice) in norm(right.slice)
            ok = is_alias and is_rest and (key_same or not isinstance(right, ast.Subscript))
        detail = "label = aliases[ancestor] + name[len(ancestor):]" if ok else f"the aliased label is built as `{norm(built[0].value, 90)}`: not 'alias of the matched ancestor + the rest of the name after it'"
    res.add("C17.R1", f"{mk.relpath}::{mk.qualname}::label shape", ok, detail, where(mk, mk.node), kind="structural")
    res.add("C17.R3", f"{mk.relpath}::{mk.qualname}::default label", len(default) >= 1, "modules without an aliased ancestor keep their full name" if default else "no path returns the unchanged module name", where(mk, mk.node), kind="structural")
    # R2: ordering
    mkcalls = [(f, c) for f in label_funcs for c in calls_in(f.node) if isinstance(c.func, ast.Attribute) and c.func.attr == mk.name]
    if not mkcalls:
        raise AnalysisError("call site of the label function not found")
    caller, call = mkcalls[0]
    seqp = mk.param_names[2]
    seq_arg = call.args[1] if len(call.args) > 1 else None
    srt = None
    if isinstance(seq_arg, ast.Name):
        a = [s for s in own_nodes(caller.node) if isinstance(s, ast.Assign) and dotted(s.targets[0]) == seq_arg.id]
        if len(a) == 1 and isinstance(a[0].value, ast.Call) and dotted(a[0].value.func) == "sorted":
            srt = a[0].value
    ok = False
    if srt is not None:
        kw = {k.arg: k.value for k in srt.keywords}
        key = kw.get("key")
        rev = kw.get("reverse")
        by_len = key is not None and ("len" in norm(key) or 'count(".")' in norm(key).replace("'", '"'))
        neg = key is not None and isinstance(key, ast.Lambda) and isinstance(key.body, ast.UnaryOp) and isinstance(key.body.op, ast.USub)
        ok = by_len and ((isinstance(rev, ast.Constant) and rev.value is True and not neg) or (rev is None and neg))
        ok = ok and "aliases" in norm(srt.args[0])
    res.add("C17.R2", f"{caller.relpath}::{caller.qualname}::most specific first", ok, "aliased modules are tried longest name first" if ok else "aliased modules are not ordered most-specific (longest) first: a parent's alias can win over a sub module's alias", where(caller, caller.node), kind="structural")
    nx_ = [c for c in calls_in(mk.node) if dotted(c.func) == "next"]
    gens = [g_ for g_ in own_nodes(mk.node) if isinstance(g_, ast.GeneratorExp)]
    loops_ = [l for l in own_nodes(mk.node) if isinstance(l, ast.For) and dotted(l.iter) == seqp]
    ok = (len(nx_) == 1 and len(gens) == 1 and dotted(gens[0].generators[0].iter) == seqp) or (len(loops_) == 1 and any(isinstance(x, ast.Return) for x in ast.walk(loops_[0])))
    res.add("C17.R2", f"{mk.relpath}::{mk.qualname}::first match wins", ok, "the first matching aliased module (in that order) is used" if ok else "the aliased ancestor is not chosen as the first match over the ordered candidates", where(mk, mk.node), kind="structural")
    # R3: every node exactly one label
    lp = [l for l in own_nodes(caller.node) if isinstance(l, ast.For) and any(c is call for c in ast.walk(l))]
    ok = False
    if len(lp) == 1:
        src = dotted(lp[0].iter)
        a = [s for s in own_nodes(caller.node) if (isinstance(s, ast.Assign) and dotted(s.targets[0]) == src) or (isinstance(s, ast.AnnAssign) and dotted(s.target) == src and s.value is not None)]
        all_nodes = len(a) == 1 and "_graph.nodes" in norm(a[0].value) and not any(isinstance(x, (ast.Subscript, ast.comprehension)) for x in ast.walk(a[0].value))
        st = stmt_of(call)
        keyed = isinstance(st, ast.Assign) and isinstance(st.targets[0], ast.Subscript) and dotted(st.targets[0].slice) == dotted(lp[0].target) and dotted(call.args[0]) == dotted(lp[0].target)
        uncond = len(conds(caller, st)) == len(conds(caller, lp[0])) and not any(isinstance(x, (ast.Break, ast.Continue)) for x in ast.walk(lp[0]))
        ok = all_nodes and keyed and uncond
    res.add("C17.R3", f"{caller.relpath}::{caller.qualname}::one label per node", ok, "every node of the graph gets exactly one label" if ok else "not every node of the graph gets exactly one label keyed by its own name", where(caller, caller.node), kind="structural")
    rets_c = [s for s in own_nodes(caller.node) if isinstance(s, ast.Return)]
    # R4: existence check
    chk = [c for c in calls_in(caller.node) if isinstance(c.func, ast.Attribute) and dotted(c.func.value) == "self" and c is not call and any(isinstance(r, ast.Raise) for r in own_nodes(getattr(repo.lookup_method(g, c.func.attr), "node", ast.Pass())) if repo.lookup_method(g, c.func.attr) is not None)]
    ok = len(chk) >= 1 and bool(lp) and cfg_of(caller).dominates(stmt_of(chk[0]), lp[0]) and not conds(caller, chk[0])
    res.add("C17.R4", f"{caller.relpath}::{caller.qualname}::existence check first", ok, "aliases are validated before any label is built" if ok else "labels are built without the aliased modules having been checked for existence", where(caller, caller.node), kind="dominance")
    if chk:
        cf = repo.lookup_method(g, chk[0].func.attr)
        raises = [r for r in own_nodes(cf.node) if isinstance(r, ast.Raise)]
        ok = False
        for r in raises:
            lps = [l for l in loops_around(r, cf.node) if isinstance(l, ast.For)]
            if lps and "aliases" in norm(lps[0].iter):
                v = dotted(lps[0].target)
                gf = guard_formula(cf, r)
                names_ = [a for a in (atom(f"{v} in {p}") for p in cf.param_names)]
                if any(equivalent(gf, f_not(a)) for a in names_) and any(isinstance(x, ast.FormattedValue) and dotted(x.value) == v for x in ast.walk(r)):
                    ok = True
        res.add("C17.R4", f"{cf.relpath}::{cf.qualname}::raises naming the module", ok, "an alias for a module that is not in the graph raises an error naming it" if ok else "an alias for an unknown module is not rejected with an error that names the module", where(cf, cf.node), kind="dominance")
    # R5: pass-through
    dn = [c for c in calls_in(draw.node) if dotted(c.func).endswith("draw_networkx")]
    ok = len(dn) == 1 and len(dn[0].args) == 1 and "_graph" in norm(dn[0].args[0]) and len(dn[0].keywords) == 1 and dn[0].keywords[0].arg is None and dotted(dn[0].keywords[0].value) == "kwargs" and cfg_of(draw).dominates(stmt_of(dn[0]), EXIT)
    res.add("C17.R5", f"{draw.relpath}::{draw.qualname}::hand-off", ok, "draw_networkx(self._graph, **kwargs) on every path" if ok else "the drawing backend is not called as draw_networkx(self._graph, **kwargs) on every path", where(draw, draw.node), kind="structural")
    popped = sorted(c.args[0].value for c in calls_in(draw.node) if is_attr_call(c, "pop") and dotted(c.func.value) == "kwargs" and c.args and isinstance(c.args[0], ast.Constant))
    deleted = [s for s in own_nodes(draw.node) if isinstance(s, ast.Delete)]
    stored = sorted(s.targets[0].slice.value for s in own_nodes(draw.node) if isinstance(s, ast.Assign) and isinstance(s.targets[0], ast.Subscript) and dotted(s.targets[0].value) == "kwargs" and isinstance(s.targets[0].slice, ast.Constant))
    rebound = [s for s in own_nodes(draw.node) if isinstance(s, ast.Assign) and dotted(s.targets[0]) == "kwargs"]
    ok = popped == ["aliases", "spacing"] and stored == ["labels", "pos"] and not deleted and not rebound
    res.add("C17.R5", f"{draw.relpath}::{draw.qualname}::options", ok, "only 'spacing' and 'aliases' are consumed, only 'pos' and 'labels' are added" if ok else f"draw consumes {popped}{' and deletes/rebinds options' if deleted or rebound else ''} and adds {stored}: other drawing options do not reach the backend unchanged", where(draw, draw.node), kind="structural")
    for key_, var in (("aliases", "labels"), ("spacing", "pos")):
        st = [s for s in own_nodes(draw.node) if isinstance(s, ast.Assign) and isinstance(s.targets[0], ast.Subscript) and isinstance(s.targets[0].slice, ast.Constant) and s.targets[0].slice.value == var]
        ok = False
        if len(st) == 1:
            ifs = [a_ for a_ in ancestors_of(st[0]) if isinstance(a_, ast.If)]
            ok = len(ifs) == 1 and not any(st[0] is x for o in ifs[0].orelse for x in ast.walk(o)) and isinstance(ifs[0].test, ast.Compare) and isinstance(ifs[0].test.ops[0], ast.In) and isinstance(ifs[0].test.left, ast.Constant) and ifs[0].test.left.value == key_ and dotted(ifs[0].test.comparators[0]) == "kwargs"
        res.add("C17.R5", f"{draw.relpath}::{draw.qualname}::{var} only with {key_}", ok, f"'{var}' is set exactly when '{key_}' was given" if ok else f"'{var}' is not set under the condition that '{key_}' was given", where(draw, draw.node), kind="dominance")
    # R6: no state
    E = Effects(repo, types_of(repo))
    bad = [w for f in label_funcs for w in E.writes(f) if w.root_kind in ("self", "classvar", "global") or (w.root_kind == "param" and w.root != "kwargs")]
    for w in bad:
        res.add("C17.R6", repo.key(w.fi, stmt_of(w.node)), False, f"`{header(stmt_of(w.node))}` keeps state on {w.root_kind} `{w.root}.{w.field}` while computing labels: a later visualize call with other aliases can be served stale labels", where(w.fi, w.node), kind="effect")
    res.add("C17.R6", f"{draw.relpath}::NetworkxGraph::label functions are stateless", not bad, f"{len(label_funcs)} functions reachable from draw write no object, class or module state", kind="effect")
    return res
