"""C17 - plot labels: aliases replace the nearest aliased ancestor, all modules labelled.

  C17.R1  the aliased-ancestor test is boundary-safe, regex-free, and the label is alias + the rest of the name after the ancestor
  C17.R2  the most specific aliased ancestor wins (whatever the mechanism: ordered candidates + first match, walk up the parents, longest match,
          or the label of the parent extended by the last component - then the parent's label must be final when it is used: computed on
          demand by recursion, or read back in a pass that provably visits ancestors first; rules/c17_inductive.py)
  C17.R3  every node gets exactly one label; the default is the full name
  C17.R4  the existence check runs before the backend is called and raises an error naming the missing module
  C17.R5  remaining options are passed through to the drawing backend unchanged
  C17.R6  label computation keeps no state (no writes to the graph object, class or module)
  C17.R7  the public entry point `EvaluableArchitecture.visualize(**kwargs)` hands the caller's options to the graph's draw() unchanged

All rules are decided on the *deep view* of the public entry point `NetworkxGraph.draw` (rules/c17_view.py): one flat function body
in which the private helpers - whatever their names, number and location - are substituted.  Roles are found through the
documented option names ('aliases', 'spacing'), the backend's keywords ('labels', 'pos'), `networkx.draw_networkx` and its graph
argument; values are followed through locals symbolically (rules/c17_model.py).  Each rule reports VIOLATED only for a construct it
can name; shapes it cannot read are reported as undecided.
"""

from __future__ import annotations

import ast

from core.cfg import EXIT
from core.effects import Effects
from core.guards import TRUE, atom, atoms_of, equivalent, f_and, f_not, f_or, implies, to_formula
from core.loader import AnalysisError, Repo, header, norm, own_nodes
from core.report import Result

from . import names
from .c17_model import Model, const_str
from .c17_view import _walk_own, deep_view
from .common import cfg_of, reachable_funcs, stmt_of, types_of, where

NXGRAPH = "pytestarch.eval_structure.networkxgraph"
# public helpers whose *meaning* the rules know: they stay calls in the view
VOCABULARY = {"get_parent_modules"}


def run(repo: Repo) -> Result:
    res = Result("C17")
    res.explanation = (
        "Decides the label mechanism structurally on the flattened view of NetworkxGraph.draw (helpers substituted, comprehensions unrolled): "
        "the aliased-ancestor test compares whole dotted components and uses no regex or str.replace; the label is the alias plus the remainder "
        "after the matched ancestor; the most specific aliased ancestor wins (ordered candidates with first match, a walk up the parent modules, "
        "a longest-match selection, or the parent's label extended by the last component - computed on demand, or read back from the label mapping in a pass "
        "over sorted names, which puts every ancestor before its descendants; a pass in the insertion order of the graph's nodes is a violation); every node of the graph gets exactly one label with the full name as default; aliases for unknown modules "
        "raise before the backend is called; all other options reach draw_networkx unchanged; label computation writes no state."
    )
    res.not_decided = "the label map as a function on all trees (values are not computed)."
    res.trusted_base = ["engine flow analysis and CFG dominance", "statement-level inlining (core/inline_stmt.py, rules/c17_view.py)"]
    g = repo.cls(NXGRAPH, "NetworkxGraph")
    draw = g.methods.get("draw")
    if draw is None:
        raise AnalysisError("NetworkxGraph.draw not found")
    T = types_of(repo)
    V = deep_view(repo, draw, T, allow=lambda caller, callee: callee.name not in VOCABULARY)
    M = Model(repo, draw, V)
    res.analysed["inlined_into_draw"] = sorted({x.split("::")[-1] for x in V.inlined})
    visualize_passthrough(repo, res)
    ctx = Ctx(repo, res, draw, M)
    ctx.lint()
    ctx.options()
    ctx.existence_check()
    ctx.labels()
    ctx.stateless()
    return res


def add_sites(repo: Repo, res: Result, rule: str, sites) -> int:
    """One obligation per classified F-NAME site (same reporting as C14.R1; kept here so that C17 does not depend on C14's rule module)."""
    n = 0
    for s in sites:
        key = repo.key(s.fi, stmt_of(s.node)) + f" [{s.op}: {norm(s.node, 70)}]"
        if s.verdict in ("safe", "unsafe"):
            n += 1
            res.add(rule, key, s.verdict == "safe", s.why, where(s.fi, s.node), kind="flow")
        elif s.verdict == "reviewed":
            res.observe(f"{rule} reviewed site {s.fi.relpath}::{s.fi.qualname}: `{norm(s.node, 60)}` - {s.why}")
        elif s.verdict == "unknown":
            res.undecide(rule, key, s.why, where(s.fi, s.node))
        elif s.verdict == "unclassified":
            res.observe(f"{rule} unclassified (not armed) {s.fi.relpath}::{s.fi.qualname}: `{norm(s.node, 60)}` - {s.why}")
    return n


ARCH_MOD = "pytestarch.eval_structure.evaluable_architecture"
MUTATING = {"pop", "popitem", "clear", "update", "setdefault", "__setitem__", "__delitem__", "remove", "append", "extend", "insert", "sort", "reverse", "add", "discard"}


class _Light:
    """what rules/c17_options.OptionsEval needs of a context"""

    def __init__(self, repo: Repo, fi, M: Model) -> None:
        self.repo, self.draw, self.M = repo, fi, M
        self.types = types_of(repo)
        self.vocabulary = VOCABULARY | {"draw"}


def visualize_passthrough(repo: Repo, res: Result) -> None:
    """C17.R7: between the public `visualize(**kwargs)` and the graph's `draw(**kwargs)` nothing is taken out of, added to or changed in
    the caller's options - in particular the aliases mapping is not filtered, rebuilt or mutated.  Decided on the deep view of every
    concrete `visualize` (the graph's draw() stays a call in it) with the same symbolic evaluation of the spliced dict as R5,
    with consumed = {} and added = {}."""
    from .c17_options import OptionsEval
    from .c17_rules import opaque_calls

    rule = "C17.R7"
    base_cls = repo.get_class(f"{ARCH_MOD}.EvaluableArchitecture")
    if base_cls is None:
        raise AnalysisError("EvaluableArchitecture (public API) not found")
    def stub(m) -> bool:
        body = [s_ for s_ in m.node.body if not (isinstance(s_, ast.Expr) and isinstance(s_.value, ast.Constant))]
        return all(isinstance(s_, ast.Pass) or (isinstance(s_, ast.Raise) and s_.exc is not None and "NotImplementedError" in norm(s_.exc)) for s_ in body)

    impls = [m for m in repo.implementations(base_cls, "visualize") if not m.is_abstract and not stub(m)]
    if not impls:
        raise AnalysisError("no concrete EvaluableArchitecture.visualize found")
    T = types_of(repo)
    for vis in impls:
        key = f"{vis.relpath}::{vis.qualname}::"
        wh = where(vis, vis.node)

        def is_draw(caller, callee) -> bool:
            return callee.name == "draw" and callee.cls is not None

        V = deep_view(repo, vis, T, allow=lambda caller, callee: not is_draw(caller, callee))
        M = Model(repo, vis, V)
        L = _Light(repo, vis, M)
        if M.kw is None:
            res.undecide(rule, key + "options to draw", "visualize() no longer takes **kwargs: the hand-over of the options cannot be read", wh)
            continue
        calls = []
        for c in _walk_own(M.fn.body):
            if isinstance(c, ast.Call) and isinstance(c.func, ast.Attribute) and c.func.attr == "draw":
                ctx_, orig = getattr(c, "_src", (V, c))
                try:
                    cs, _how = T.callees(ctx_, orig, byname_fallback=True) if isinstance(orig, ast.Call) else ([], "")
                except Exception:  # noqa: BLE001
                    cs = []
                if not cs or any(f.name == "draw" and f.cls is not None for f in cs):
                    calls.append(c)
        if not calls:
            if opaque_calls(L):
                res.undecide(rule, key + "options to draw", "no call of the graph's draw() in the flattened visualize(), but calls that could not be followed", wh)
            else:
                res.add(rule, key + "options to draw", False, "visualize() does not call the graph's draw(): nothing the caller passes is drawn", wh)
            continue
        cfg = cfg_of(V)
        problems, unsure = [], []
        ev = OptionsEval(L)
        for c in calls:
            star = [k for k in c.keywords if k.arg is None]
            named = [k.arg for k in c.keywords if k.arg is not None]
            if c.args:
                problems.append("draw() is called with positional arguments")
            if named:
                problems.append(f"options {named} are fixed by visualize() itself")
            if len(star) != 1:
                problems.append("the caller's options are not forwarded as **kwargs" if not star else "several ** arguments")
            else:
                ev.eval(star[0].value)
        if cfg.paths_avoiding("<ENTRY>", EXIT, {M.stmt_of(c) for c in calls}):
            problems.append("draw() is not reached on every path that returns normally")
        odd = list(dict.fromkeys(ev.odd))
        if ev.consumed:
            k0 = sorted(ev.consumed)[0]
            problems.append(f"visualize() takes the option(s) {sorted(ev.consumed)} out of what the caller passed (`{norm(_node(ev.consumed[k0][0]), 50)}`)")
        if ev.stored:
            k0 = sorted(ev.stored)[0]
            problems.append(f"visualize() sets / rebuilds the option(s) {sorted(ev.stored)} itself (`{norm(M.stmt_of(ev.stored[k0][0][0][-1]), 70)}`): draw() does not receive the caller's value")
        if not ev.passthrough and not odd and not any("forwarded" in p_ for p_ in problems):
            problems.append("the dict handed to draw() does not contain the caller's options")
        # option values changed in place (`kwargs['aliases'].pop(..)`, `aliases = kwargs.get('aliases'); del aliases[k]`)
        value_names = {n for n, bs in M.binds.items() if len(bs) == 1 and bs[0].kind == "assign" and bs[0].value is not None and M.option_source(bs[0].value) is not None}

        def is_value(e: ast.expr) -> bool:
            return (isinstance(e, ast.Name) and e.id in value_names) or M.option_source(e) is not None

        for n in _walk_own(M.fn.body):
            if isinstance(n, ast.Call) and isinstance(n.func, ast.Attribute) and n.func.attr in MUTATING and is_value(n.func.value):
                problems.append(f"`{norm(n, 60)}` changes a value the caller passed in place")
            elif isinstance(n, ast.Subscript) and isinstance(n.ctx, (ast.Store, ast.Del)) and is_value(n.value):
                problems.append(f"`{norm(M.stmt_of(n), 60)}` changes a value the caller passed in place")
        if problems:
            res.add(rule, key + "options to draw", False, "; ".join(dict.fromkeys(problems)), M.where(calls[0]), kind="flow")
        elif odd:
            res.undecide(rule, key + "options to draw", "; ".join(odd[:2]), M.where(calls[0]))
        else:
            res.add(rule, key + "options to draw", True, f"`{norm(calls[0], 60)}` receives exactly what the caller passed to visualize(): nothing removed, added, rebuilt or changed in place", M.where(calls[0]), kind="flow")


def _node(x):
    return x[1] if isinstance(x, tuple) else x


class Ctx:
    def __init__(self, repo: Repo, res: Result, draw, M: Model) -> None:
        self.repo, self.res, self.draw, self.M = repo, res, draw, M
        self.base = f"{draw.relpath}::{draw.qualname}::"
        self.types = types_of(repo)
        self.vocabulary = VOCABULARY
        self.label_value: ast.expr | None = None  # what is handed to the backend as `labels`
        self.label_store: ast.AST | None = None
        self.proved_sites: set[int] = set()  # ids of original nodes of name operations the label analysis has explained
        self.unknown_sites: list = []

    # ------------------------------------------------------------------ reporting helpers
    def ok(self, rule: str, what: str, detail: str, node: ast.AST | None = None, kind: str = "structural") -> None:
        self.res.add(rule, self.base + what, True, detail, self.M.where(node) if node is not None else where(self.draw, self.draw.node), kind=kind)

    def bad(self, rule: str, what: str, detail: str, node: ast.AST | None = None, kind: str = "structural") -> None:
        self.res.add(rule, self.base + what, False, detail, self.M.where(node) if node is not None else where(self.draw, self.draw.node), kind=kind)

    def unsure(self, rule: str, what: str, detail: str, node: ast.AST | None = None) -> None:
        self.res.undecide(rule, self.base + what, detail, self.M.where(node) if node is not None else where(self.draw, self.draw.node))

    def roots(self) -> list:
        """draw() and every helper flattened into its view - also those that are only reached through a table of method names
        (`getattr(self, row.converter)(...)`), which the call graph does not follow"""
        inlined = set(getattr(self.M.V, "inlined", []))
        return [self.draw, *[f for f in self.repo.all_functions() if f.fq in inlined and f.fq != self.draw.fq]]

    # ------------------------------------------------------------------ R1 (lint part)
    def lint(self) -> None:
        """F-NAME sites in everything reachable from draw.  `unknown` verdicts are kept back: the label analysis may explain them."""
        fq = {f.fq for f in reachable_funcs(self.repo, self.roots(), byname=False)}
        # the public name-list helpers (get_parent_modules) are C14.R2's business, not part of the label mechanism
        sites = [s for s in names.scan(self.repo) if s.fi.fq in fq and s.fi.name not in VOCABULARY]
        # prefix tests and cuts are judged again by the label analysis, which reads the whole match condition (a raw prefix test next
        # to a test of the following character is boundary-safe; the lint looks at one operation at a time)
        def held(s) -> bool:
            if s.verdict == "unknown":
                return True
            if s.verdict != "unsafe":
                return False
            if s.op in ("startswith", "slice-by-len", "removeprefix", "partition", "slice-compare", "slice-by-index", "zip-components", "char-compare"):
                return True  # tests / cuts that are judged together with the rest of the match condition
            # replace(prefix, alias, 1): only the first occurrence - the matched prefix - is replaced
            return s.op == "replace" and isinstance(s.node, ast.Call) and len(s.node.args) == 3 and isinstance(s.node.args[2], ast.Constant) and s.node.args[2].value == 1

        self.unknown_sites = [s for s in sites if held(s)]
        add_sites(self.repo, self.res, "C17.R1", [s for s in sites if not held(s)])
        # the number of string operations on names is not fixed (component-wise or ancestor-walking mechanisms have none):
        # the positive fixture shows on every run that the lint still bites
        self.res.add("C17.R1", "fixture::engine/fixtures/name_ops.py", True, names.fixture_selfcheck(), nontrivial=False)

    def settle_unknown_sites(self) -> None:
        for s in self.unknown_sites:
            key = self.repo.key(s.fi, stmt_of(s.node)) + f" [{s.op}: {norm(s.node, 70)}]"
            if id(s.node) in self.proved_sites:
                self.res.add("C17.R1", key, True, "operand roles established by the label analysis: the match condition as a whole holds exactly for the aliased module and its sub modules, the cut follows that match", where(s.fi, s.node), kind="flow")
            elif s.verdict == "unsafe":
                self.res.add("C17.R1", key, False, s.why, where(s.fi, s.node), kind="flow")
            else:
                self.res.undecide("C17.R1", key, s.why, where(s.fi, s.node))

    # ------------------------------------------------------------------ R5
    def options(self) -> None:
        M = self.M
        if M.kw is None:
            self.unsure("C17.R5", "hand-off", "draw() no longer takes **kwargs: the option hand-off cannot be read")
            return
        calls = M.backend_calls
        if not calls:
            elsewhere = [f for f in reachable_funcs(self.repo, [self.draw], byname=False) if any(self._backend_in(f, c) for c in own_nodes(f.node) if isinstance(c, ast.Call))]
            from .c17_rules import opaque_calls

            if elsewhere or opaque_calls(self):
                self.unsure("C17.R5", "hand-off", f"networkx.draw_networkx is called in {elsewhere[0].qualname}, which could not be flattened into draw" if elsewhere else "no call of networkx.draw_networkx in the flattened draw(), but calls that could not be followed")
            else:
                self.bad("C17.R5", "hand-off", "the drawing backend networkx.draw_networkx is not called on the way from draw()")
            return
        cfg = cfg_of(M.V)
        problems = []
        unsure_fw = None
        named_all: list[tuple[ast.Call, ast.keyword]] = []
        graphs = set()
        for call in calls:
            star = [k for k in call.keywords if k.arg is None]
            named = [k for k in call.keywords if k.arg is not None]
            named_all += [(call, k) for k in named]
            garg = M.resolve(call.args[0]) if len(call.args) == 1 else None
            if garg is None:
                unsure_fw = unsure_fw or "draw_networkx is not called with the graph as its only positional argument"
            else:
                graphs.add(norm(garg))
                if not self._is_graph(garg) and not (isinstance(garg, ast.Attribute) and isinstance(garg.value, ast.Name) and garg.value.id == M.selfname):
                    unsure_fw = unsure_fw or f"the first argument `{norm(call.args[0], 40)}` is not recognised as the wrapped networkx graph"
            if not star:
                problems.append("the caller's options are not forwarded (no **kwargs in the backend call)")
            elif len(star) != 1:
                unsure_fw = unsure_fw or "several ** arguments in the backend call"
            forced = [k.arg for k in named if k.arg not in ("labels", "pos")]
            if forced:
                problems.append(f"options {forced} are fixed by draw() itself")
        if len(graphs) > 1:
            unsure_fw = unsure_fw or f"draw_networkx is called with different graphs {sorted(graphs)}"
        elif graphs and M.G is None:
            M.G = next(iter(graphs))
        call = calls[0]
        if cfg.paths_avoiding("<ENTRY>", EXIT, {M.stmt_of(c) for c in calls}):
            problems.append("draw_networkx is not reached on every path that returns normally")
        if len(calls) > 1 and any(cfg.paths_avoiding(M.stmt_of(c1), M.stmt_of(c2), set()) for c1 in calls for c2 in calls if c1 is not c2):
            unsure_fw = unsure_fw or "the backend can be called more than once on one path"
        if problems:
            self.bad("C17.R5", "hand-off", "; ".join(dict.fromkeys(problems)), call)
        elif unsure_fw:
            self.unsure("C17.R5", "hand-off", unsure_fw, call)
        else:
            self.ok("C17.R5", "hand-off", f"draw_networkx({M.G}, **{M.kw}) on every path" + (f" ({len(calls)} exclusive calls)" if len(calls) > 1 else ""), call)
        # ---- what draw() removes from / adds to the options: symbolic evaluation of the dict spliced into the backend call
        from .c17_options import OptionsEval

        ev = OptionsEval(self)
        for c_ in calls:
            for k in c_.keywords:
                if k.arg is None:
                    ev.eval(k.value)
                elif k.arg in ("labels", "pos"):
                    ev.stored.setdefault(k.arg, []).append(((c_,), k.value))  # an explicit keyword: set exactly when that call is made
        consumed: dict[str, list] = ev.consumed
        stored: dict[str, list] = {k: [(nodes[-1], val, nodes) for nodes, val in items] for k, items in ev.stored.items()}
        odd: list[str] = list(dict.fromkeys(ev.odd))
        if not ev.passthrough and not odd and not problems and any(k.arg is None for c_ in calls for k in c_.keywords):
            self.bad("C17.R5", "pass-through", "the dict spliced into the backend call does not contain the caller's options: other drawing options do not reach the backend", call)
        # `labels = None ... if given: labels = <...>` + `labels=labels`: the option is effectively set where the local gets a value
        for key_, items in list(stored.items()):
            new_items = []
            for node_, val, nodes_ in items:
                if isinstance(val, ast.Name):
                    bs = M.binds.get(val.id, [])
                    nones = [b for b in bs if b.kind == "assign" and isinstance(b.value, ast.Constant) and b.value.value is None]
                    rest = [b for b in bs if b not in nones]
                    if nones and rest and all(b.kind == "assign" and b.value is not None for b in rest):
                        new_items += [(b.stmt, b.value, (b.stmt,)) for b in rest]
                        continue
                new_items.append((node_, val, nodes_))
            stored[key_] = new_items
        extra_c = sorted(set(consumed) - {"spacing", "aliases"})
        extra_s = sorted(set(stored) - {"pos", "labels"})
        missing_c = sorted({"spacing", "aliases"} - set(consumed))
        missing_s = sorted({"pos", "labels"} - set(stored))
        if extra_c or extra_s or missing_c or missing_s:
            parts = []
            if extra_c:
                parts.append(f"draw() swallows the option(s) {extra_c} (`{norm(_node(consumed[extra_c[0]][0]), 50)}`)")
            if extra_s:
                parts.append(f"draw() sets the option(s) {extra_s} itself")
            if missing_c:
                parts.append(f"{missing_c} are not removed from the options before the backend is called")
            if missing_s:
                parts.append(f"{missing_s} are not handed to the backend")
            from .c17_rules import remaining_helper_calls

            hidden = remaining_helper_calls(self, about=lambda e: isinstance(e, ast.expr) and M.is_options(e))
            if not (extra_c or extra_s) and (hidden or odd):
                self.unsure("C17.R5", "options", "; ".join(odd + parts + ([f"`{norm(hidden[0], 50)}` receives the options but could not be flattened into draw()"] if hidden else [])), call)
            else:
                self.bad("C17.R5", "options", "; ".join(parts) + ": other drawing options do not reach the backend unchanged", (_node(consumed[extra_c[0]][0]) if extra_c else call))
        elif odd:
            self.unsure("C17.R5", "options", "; ".join(odd), call)
        else:
            self.ok("C17.R5", "options", "only 'spacing' and 'aliases' are consumed, only 'pos' and 'labels' are added", call)
        # ---- conditions
        for opt, key_ in (("aliases", "labels"), ("spacing", "pos")):
            what = f"{key_} only with {opt}"
            present = atom(f"present:{opt}")
            if key_ not in stored:
                if odd:
                    self.unsure("C17.R5", what, f"no store of '{key_}' into the options found ({odd[0]})", call)
                else:
                    self.bad("C17.R5", what, f"'{key_}' is never handed to the backend", call, kind="dominance")
                continue
            fs = [self._presence_formula(nodes_) for _n, _v, nodes_ in stored[key_]]
            if any(f is None for f in fs):
                self.unsure("C17.R5", what, f"the condition under which '{key_}' is set is not a test of the options", stored[key_][0][0])
                continue
            f = f_or(fs)
            try:
                same = equivalent(f, present)
            except AnalysisError:
                same = None
            if same:
                self.ok("C17.R5", what, f"'{key_}' is set exactly when '{opt}' was given", stored[key_][0][0], kind="dominance")
            elif same is None or atoms_of(f) - {f"present:{opt}", "present:aliases", "present:spacing"}:
                self.unsure("C17.R5", what, f"the condition under which '{key_}' is set mentions tests other than the presence of options", stored[key_][0][0])
            else:
                self.bad("C17.R5", what, f"'{key_}' is not set under the condition that '{opt}' was given", stored[key_][0][0], kind="dominance")
            # removal on every path on which the option is present
            if opt in consumed:
                cf = [TRUE if isinstance(n, tuple) else self._presence_formula(n) for n in consumed[opt]]
                cf = [TRUE if (x is None and len(getattr(n, "args", [])) > 1) else x for x, n in zip(cf, consumed[opt])]
                if all(x is not None for x in cf) and not implies(present, f_or(cf)):
                    self.bad("C17.R5", f"{opt} consumed", f"'{opt}' stays in the options on some path on which it was given: the backend receives an option it does not know", _node(consumed[opt][0]), kind="dominance")
            if key_ == "labels":
                self.label_store, self.label_value = stored[key_][0][0], stored[key_][0][1]
                if len(stored[key_]) > 1:
                    self.label_value = None

    def _backend_in(self, f, c: ast.Call) -> bool:
        fq = self.repo.resolve_name(f.module, c.func) if isinstance(c.func, (ast.Name, ast.Attribute)) else None
        return bool(fq) and fq.startswith("networkx") and fq.endswith("draw_networkx")

    def _is_graph(self, e: ast.expr) -> bool:
        """`self.<attr>` where <attr> is bound to a networkx graph object somewhere in the class."""
        M = self.M
        if not (isinstance(e, ast.Attribute) and isinstance(e.value, ast.Name) and e.value.id == M.selfname and self.draw.cls is not None):
            return False
        for c in self.repo.mro(self.draw.cls):
            for m in c.methods.values():
                for n in own_nodes(m.node):
                    if isinstance(n, (ast.Assign, ast.AnnAssign)) and n.value is not None:
                        tg = n.targets if isinstance(n, ast.Assign) else [n.target]
                        if any(isinstance(t, ast.Attribute) and t.attr == e.attr and isinstance(t.value, ast.Name) for t in tg) and isinstance(n.value, ast.Call):
                            fq = self.repo.resolve_name(m.module, n.value.func) if isinstance(n.value.func, (ast.Name, ast.Attribute)) else None
                            if fq and fq.startswith("networkx") and fq.rsplit(".", 1)[-1] in ("DiGraph", "Graph", "MultiDiGraph", "MultiGraph"):
                                return True
        return False

    def _presence_formula(self, node):
        """Path condition of `node` (or of all nodes of a tuple) as a formula over `present:<option>` atoms ('the caller passed this
        option'); None if other tests occur."""
        M = self.M
        if isinstance(node, tuple):
            fs = [self._presence_formula(n) for n in node]
            return None if any(f is None for f in fs) else f_and(fs)

        def sub(e: ast.expr):
            if isinstance(e, ast.Compare) and len(e.ops) == 1:
                l, op, r = e.left, e.ops[0], e.comparators[0]
                if isinstance(op, (ast.In, ast.NotIn)) and const_str(l) is not None and M.is_options(r):
                    a = atom(f"present:{const_str(l)}")
                    return a if isinstance(op, ast.In) else f_not(a)
                if isinstance(op, (ast.Is, ast.IsNot)) and isinstance(r, ast.Constant) and r.value is None:
                    k = self._option_of(l)
                    if k is not None:
                        a = atom(f"present:{k}")
                        return a if isinstance(op, ast.IsNot) else f_not(a)
                if isinstance(op, (ast.Is, ast.IsNot, ast.Eq, ast.NotEq)) and isinstance(r, (ast.Name, ast.Attribute)):
                    # a sentinel default: x = kwargs.pop('k', SENTINEL); x is not SENTINEL
                    k = self._option_of(l, default=norm(r))
                    if k is not None:
                        a = atom(f"present:{k}")
                        return a if isinstance(op, (ast.IsNot, ast.NotEq)) else f_not(a)
            k = self._option_of(e)
            if k is not None:
                return atom(f"present:{k}")
            return None

        self._presence_sub = sub
        cs = M.history_conds(node)
        fs = []
        for e, pol in cs:
            f = to_formula(M.resolve(e), sub)
            fs.append(f if pol else f_not(f))
        f = f_and(fs)
        if any(not a.startswith("present:") for a in atoms_of(f)):
            return None
        return f

    def is_presence_test(self, e: ast.expr) -> bool:
        """`e` only tests whether options were given ('aliases' in kwargs, aliases is not None, aliases is not SENTINEL, ...)"""
        if not hasattr(self, "_presence_sub"):
            self._presence_formula(self.M.fn.body[0])
        f = to_formula(self.M.resolve(e), self._presence_sub)
        ats = atoms_of(f)
        return bool(ats) and all(a.startswith("present:") for a in ats)

    def _option_of(self, e: ast.expr, default: str | None = None) -> str | None:
        """option name if `e` is (a local bound to) a read of the option that yields None / the given default when it is absent"""
        M = self.M
        v = e
        src = M.option_source(e)
        if src is None and isinstance(e, ast.Name):
            v = M.single_value(e.id)
            src = M.option_source(v) if v is not None else None
        if src is None or src[1] not in ("get", "get-default", "pop-default"):
            return None
        dflt = v.args[1] if isinstance(v, ast.Call) and len(v.args) > 1 else None
        if default is None:
            return src[0] if dflt is None or (isinstance(dflt, ast.Constant) and dflt.value is None) else None
        return src[0] if dflt is not None and norm(dflt) == default else None

    # ------------------------------------------------------------------ R4
    def existence_check(self) -> None:
        from .c17_rules import existence_check

        existence_check(self)

    # ------------------------------------------------------------------ R1 (shape), R2, R3
    def labels(self) -> None:
        from .c17_rules import labels

        labels(self)
        self.settle_unknown_sites()

    # ------------------------------------------------------------------ R6
    def stateless(self) -> None:
        E = Effects(self.repo, types_of(self.repo))
        funcs = list(reachable_funcs(self.repo, self.roots(), byname=False))
        bad = []
        for f in funcs:
            for w in E.writes(f):
                if w.root_kind == "self" and f.name in ("__init__", "__post_init__") and f.cls is not None and f.cls is not self.draw.cls and not self.repo.is_subclass(self.draw.cls, f.cls.fq):
                    continue  # initialisation of a helper object created during the call, not state that outlives it
                if w.root_kind in ("self", "classvar", "global"):
                    bad.append(w)
        # writes through a local alias of object / class state (`node = self._root; node[k] = v`): core/effects.py files them under 'local'
        from core.effects import _root_and_path

        for f in funcs:
            if isinstance(f.node, ast.Lambda) or f.cls is None or not f.params or f.is_staticmethod:
                continue
            selfname = f.params[0].arg
            helper_cls = f.cls is not self.draw.cls and not self.repo.is_subclass(self.draw.cls, f.cls.fq)
            rooted: dict[str, str] = {}
            for _ in range(4):
                for n in own_nodes(f.node):
                    if isinstance(n, ast.Assign) and len(n.targets) == 1 and isinstance(n.targets[0], ast.Name):
                        root, path = _root_and_path(n.value)
                        if isinstance(root, ast.Name) and root.id == selfname and path and path[0] != "[]" and not isinstance(n.value, ast.Call):
                            rooted.setdefault(n.targets[0].id, path[0])
                        elif isinstance(root, ast.Name) and root.id == selfname and path and path[0] != "[]" and isinstance(n.value, ast.Call) and isinstance(n.value.func, ast.Attribute) and n.value.func.attr in ("setdefault", "get"):
                            rooted.setdefault(n.targets[0].id, path[0])
                        elif isinstance(root, ast.Name) and root.id in rooted and (path or isinstance(n.value, ast.Name)):
                            rooted.setdefault(n.targets[0].id, rooted[root.id])
            for w in E.writes(f):
                if w.root_kind == "local" and w.root in rooted and not w.fresh:
                    attr = rooted[w.root]
                    if helper_cls and not E._is_class_level(f, attr):
                        continue
                    if not helper_cls and f.name in ("__init__", "__post_init__"):
                        continue
                    w.root_kind, w.root, w.field = ("classvar" if E._is_class_level(f, attr) else "self"), (f.cls.name if E._is_class_level(f, attr) else selfname), attr
                    bad.append(w)
        for w in bad:
            self.res.add("C17.R6", self.repo.key(w.fi, stmt_of(w.node)), False, f"`{header(stmt_of(w.node))}` keeps state on {w.root_kind} `{w.root}.{w.field}` while computing labels: a later visualize call with other aliases can be served stale labels", where(w.fi, w.node), kind="effect")
        self.res.add("C17.R6", f"{self.draw.relpath}::NetworkxGraph::label functions are stateless", not bad, f"{len(funcs)} functions reachable from draw write no object, class or module state", kind="effect")
