"""C17 - the enclosing aliased module carried from one module of the pass to the next (a stack / a 'current' variable).

    stack = []
    for n in <ordered nodes>:
        while stack and <top is not an ancestor of n>: stack.pop()
        if n in aliases: stack.append(n)
        label = n if not stack else aliases[stack[-1]] + n[len(stack[-1]):]

Here the aliased module that labels `n` is not found by looking at `n` (its own prefixes / all aliased names) but *remembered* from the
modules visited before.  That is only correct if the pass is a **pre-order of the module tree**: every module directly followed by
all of its sub modules (contiguous subtrees), so that what is on the stack when `n` is reached are ancestors of `n`.

  * `sorted(names, key=lambda n: n.split("."))` (lists / tuples of components compare component-wise) is such a pre-order.
  * plain `sorted(names)` is NOT: it puts ancestors first (C17.R2 of the parent-label mechanism needs no more), but a sibling whose
    name continues with a character below '.' ('-', '+', ' ', '!', '#', '$', '%', '&', "'", '(', ')', ',') sorts *between* a module and
    its sub modules:  a < a-b < a.b .  With an alias on `a`: `a-b` pops `a` (or, with a level test, keeps it and is wrongly labelled),
    and `a.b` finds the stack empty - it keeps its full name although its parent is aliased.
  * sorted by length / depth, insertion order, set order: no contiguity at all.

So a carried enclosing-alias over any recognised order other than the component-wise sort is a VIOLATION of C17.R2; an order that is
not recognised leaves the rule undecided.
"""

from __future__ import annotations

import ast

from core.guards import atoms_of, implies, atom
from core.loader import norm

from .c17_model import Model, const_str
from .c17_view import _walk_own


def _is_name(e: ast.AST, name: str) -> bool:
    return isinstance(e, ast.Name) and e.id == name


def component_key(key: ast.expr | None) -> bool:
    """sort key that compares names component by component: lambda n: n.split('.') / tuple(n.split('.')) / str.split with '.'"""
    if not (isinstance(key, ast.Lambda) and len(key.args.args) == 1 and not key.args.defaults):
        return False
    p = key.args.args[0].arg
    b = key.body
    if isinstance(b, ast.Call) and isinstance(b.func, ast.Name) and b.func.id in ("tuple", "list") and len(b.args) == 1 and not b.keywords:
        b = b.args[0]
    return isinstance(b, ast.Call) and isinstance(b.func, ast.Attribute) and b.func.attr == "split" and _is_name(b.func.value, p) and len(b.args) == 1 and not b.keywords and const_str(b.args[0]) == "."


def pass_order(M: Model, it: ast.expr, loop: ast.AST) -> str | None:
    """'preorder' for a component-wise sort of the nodes; otherwise what c17_inductive.node_order says
    ('ancestors-first' | 'descendants-first' | 'insertion' | 'arbitrary' | None)"""
    from .c17_inductive import node_order

    e = it
    if isinstance(e, ast.Name):
        v = M.single_value(e.id)
        sorts = M.in_place_sorts(e.id)
        if v is not None and len(sorts) == 1 and sorts[0].func.attr == "sort" and not sorts[0].args and M._only_reordered(e.id):
            kw = {k.arg: k.value for k in sorts[0].keywords}
            if set(kw) <= {"key", "reverse"} and component_key(kw.get("key")) and not (isinstance(kw.get("reverse"), ast.Constant) and kw["reverse"].value):
                from .common import cfg_of

                if "reverse" in kw and not (isinstance(kw["reverse"], ast.Constant) and kw["reverse"].value is False):
                    return None
                if node_order(M, v, loop) is not None and cfg_of(M.V).dominates(M.stmt_of(sorts[0]), loop):
                    return "preorder"
        e = M.resolve(e) if not sorts else e
    else:
        e = M.resolve(e)
    while isinstance(e, ast.Call) and isinstance(e.func, ast.Name) and e.func.id in ("list", "tuple", "iter") and len(e.args) == 1 and not e.keywords:
        e = e.args[0]
    if isinstance(e, ast.Call) and isinstance(e.func, ast.Name) and e.func.id == "sorted" and len(e.args) == 1:
        kw = {k.arg: k.value for k in e.keywords}
        if set(kw) <= {"key", "reverse"} and component_key(kw.get("key")):
            rev = kw.get("reverse")
            if rev is None or (isinstance(rev, ast.Constant) and rev.value is False):
                return "preorder" if node_order(M, e.args[0], loop) is not None else None
            if isinstance(rev, ast.Constant) and rev.value is True:
                return "descendants-first" if node_order(M, e.args[0], loop) is not None else None
            return None
    return node_order(M, it if isinstance(it, ast.Name) else M.resolve(it), loop)


def carried_state(M: Model, m_expr: ast.expr, ev):
    """`m_expr` (the aliased module whose alias labels ev.n) is read from state that outlives one round of the pass over the nodes:
    -> {'kind': 'stack' | 'current', 'var': name, 'pushes': [stmt]} | None"""
    n, L = ev.n, ev.nloop
    if n is None or L is None:
        return None

    def in_loop(x: ast.AST) -> bool:
        return any(l is L for l in M.loops_around(x, whiles=False))

    # stack[-1]
    if isinstance(m_expr, ast.Subscript) and isinstance(m_expr.value, ast.Name) and not isinstance(m_expr.slice, ast.Slice):
        s = m_expr.slice
        last = (isinstance(s, ast.UnaryOp) and isinstance(s.op, ast.USub) and isinstance(s.operand, ast.Constant) and s.operand.value == 1) or (isinstance(s, ast.Constant) and s.value == -1)
        var = m_expr.value.id
        bs = M.binds.get(var, [])
        if last and len(bs) == 1 and bs[0].kind == "assign" and bs[0].stmt is not None and not in_loop(bs[0].stmt) and isinstance(bs[0].value, (ast.List, ast.Call)):
            pushes = [y for y in _walk_own(M.fn.body) if isinstance(y, ast.Call) and isinstance(y.func, ast.Attribute) and isinstance(y.func.value, ast.Name) and y.func.value.id == var and y.func.attr in ("append", "appendleft", "insert") and in_loop(y)]
            if pushes and all(any(_is_name(M.resolve(a) if not isinstance(a, ast.Name) else a, n) or _is_name(a, n) for a in y.args) for y in pushes):
                return {"kind": "stack", "var": var, "pushes": pushes}
        return None
    # current = n  (under `n in aliases`), initialised before the pass
    if isinstance(m_expr, ast.Name):
        var = m_expr.id
        bs = M.binds.get(var, [])
        if len(bs) >= 2 and all(b.kind == "assign" and b.stmt is not None for b in bs):
            outside = [b for b in bs if not in_loop(b.stmt)]
            inside = [b for b in bs if in_loop(b.stmt)]
            sets = [b for b in inside if b.value is not None and _is_name(b.value, n)]
            if outside and sets and all(isinstance(b.value, ast.Constant) or _is_name(b.value, n) for b in inside) and all(isinstance(b.value, ast.Constant) for b in outside):
                return {"kind": "current", "var": var, "pushes": [b.stmt for b in sets]}
    return None


def judge_carried(C, ev, m_expr: ast.expr, st: dict):
    """[(status, rule, what, detail, node)] for a label taken from the carried enclosing alias"""
    M: Model = C.M
    r1, r2 = "C17.R1", "C17.R2"
    what_o = "most specific first"
    L = ev.nloop
    order = pass_order(M, L.iter, L)
    shown = norm(M.resolve(L.iter), 60) if not (isinstance(L.iter, ast.Name) and M.in_place_sorts(L.iter.id)) else f"{L.iter.id} (sorted in place)"
    how = f"a stack (`{st['var']}`) of the aliased modules met so far" if st["kind"] == "stack" else f"the last aliased module met (`{st['var']}`)"
    if order in ("ancestors-first", "insertion", "arbitrary", "descendants-first"):
        why = {
            "ancestors-first": "an order that puts ancestors first but does not keep a module together with its sub modules: plain string order puts a sibling whose name continues with a character below '.' between them (a < a-b < a.b; '-', '+', ' ', '$' ... are legal in directory names), order by length / depth mixes all subtrees",
            "insertion": "the insertion order of the graph's nodes, which does not keep a module together with its sub modules",
            "arbitrary": "set order",
            "descendants-first": "an order that puts sub modules before their ancestors",
        }[order]
        if M.loops_around(L, whiles=True):
            return [("unsure", r2, what_o, f"the enclosing aliased module is carried from module to module in a pass over `{shown}` that is itself repeated: not read", L)]
        return [("bad", r2, what_o, f"the aliased module that labels `{ev.n}` (`{norm(m_expr, 40)}`) is not looked up from the module's own name but carried over from the modules visited before - {how} - in one pass over `{shown}`: {why}. With modules a, a-b, a.b and an alias for a, `a.b` is reached after `a-b` has taken `a` off (or is labelled by it wrongly) and keeps its full name", L)]
    if order != "preorder":
        return [("unsure", r2, what_o, f"the enclosing aliased module is carried from module to module ({how}) in a pass over `{shown}`: whether that order lists every module directly before all of its sub modules is not recognised", L)]
    # pre-order: the remaining questions are local - what is pushed (aliased modules only) and when entries are dropped
    from .c17_labels import _self_in_keys, ev_guard

    if st["kind"] != "stack":
        return [("unsure", r2, what_o, f"a single remembered aliased module (`{st['var']}`) cannot come back to an outer aliased module after an inner aliased subtree has been left: not decided", L)]
    for y in st["pushes"]:
        g = M.guard(y, relative_to=L)
        ins = [a for a in atoms_of(g) if _self_in_keys(M, a, ev.n)]
        if not ins or not implies(g, atom(ins[0])):
            return [("unsure", r1, "ancestor test", f"`{norm(y, 50)}` pushes modules under a condition that is not `{ev.n} in aliases`", y)]
    pops = [y for y in _walk_own(L.body) if isinstance(y, ast.Call) and isinstance(y.func, ast.Attribute) and isinstance(y.func.value, ast.Name) and y.func.value.id == st["var"] and y.func.attr in ("pop", "popleft")]
    ok_pops = []
    for y in pops:
        Ws = [w for w in M.loops_around(y, whiles=True) if isinstance(w, ast.While)]
        if not Ws or y.args:
            return [("unsure", r2, what_o, f"`{norm(y, 40)}` drops entries of the stack in a form that is not read", y)]
        if _pop_test(M, Ws[-1].test, st["var"], ev.n):
            ok_pops.append(y)
        else:
            return [("unsure", r2, what_o, f"the stack is popped while `{norm(Ws[-1].test, 70)}`: not recognised as 'the top is not an ancestor of the module' (by level or by name)", Ws[-1])]
    if not ok_pops:
        return [("unsure", r2, what_o, "entries never leave the stack of enclosing aliased modules", L)]
    # the pops must come before the use, the push of the module itself before the use as well (its own alias is the most specific)
    return [
        ("ok", r1, "ancestor test", f"in a pre-order pass (`{shown}`: names compared component by component) the stack `{st['var']}` holds exactly the aliased ancestors-or-self of the module: entries that are not above the module are dropped first, the module is pushed when it has an alias - given that the node set is closed under parents", L),
        ("ok", r2, what_o, "the innermost enclosing aliased module (top of the stack) labels the module", ev.node),
    ]


def _pop_test(M: Model, test: ast.expr, var: str, n: str) -> bool:
    """`stack and level(stack[-1]) >= level(n)`  /  `stack and not (n == top or n.startswith(top + '.'))`  /  `... not n.startswith(top + '.')`"""
    t = M.resolve(test)
    if not (isinstance(t, ast.BoolOp) and isinstance(t.op, ast.And) and len(t.values) == 2 and _is_name(t.values[0], var)):
        return False
    c = t.values[1]

    def top(e: ast.AST) -> bool:
        return isinstance(e, ast.Subscript) and _is_name(e.value, var) and ((isinstance(e.slice, ast.UnaryOp) and isinstance(e.slice.op, ast.USub) and isinstance(e.slice.operand, ast.Constant) and e.slice.operand.value == 1) or (isinstance(e.slice, ast.Constant) and e.slice.value == -1))

    def level(e: ast.AST, of) -> bool:
        if isinstance(e, ast.Call) and isinstance(e.func, ast.Attribute) and e.func.attr == "count" and of(e.func.value) and len(e.args) == 1 and const_str(e.args[0]) == ".":
            return True
        if isinstance(e, ast.Call) and isinstance(e.func, ast.Name) and e.func.id == "len" and len(e.args) == 1:
            a = e.args[0]
            return isinstance(a, ast.Call) and isinstance(a.func, ast.Attribute) and a.func.attr == "split" and of(a.func.value) and len(a.args) == 1 and const_str(a.args[0]) == "."
        return False

    is_n = lambda e: _is_name(e, n)  # noqa: E731
    if isinstance(c, ast.Compare) and len(c.ops) == 1:
        l, op, r = c.left, c.ops[0], c.comparators[0]
        if isinstance(op, ast.GtE) and level(l, top) and level(r, is_n):
            return True
        if isinstance(op, ast.LtE) and level(l, is_n) and level(r, top):
            return True
    if isinstance(c, ast.UnaryOp) and isinstance(c.op, ast.Not):
        from .c17_labels import _dotted

        inner = c.operand
        parts = inner.values if isinstance(inner, ast.BoolOp) and isinstance(inner.op, ast.Or) else [inner]
        seen_proper = False
        for p_ in parts:
            if isinstance(p_, ast.Call) and isinstance(p_.func, ast.Attribute) and p_.func.attr == "startswith" and is_n(p_.func.value) and len(p_.args) == 1:
                a = p_.args[0]
                if (isinstance(a, ast.BinOp) and isinstance(a.op, ast.Add) and top(a.left) and const_str(a.right) == ".") or (isinstance(a, ast.JoinedStr) and len(a.values) == 2 and isinstance(a.values[0], ast.FormattedValue) and top(a.values[0].value) and const_str(a.values[1]) == "."):
                    seen_proper = True
                    continue
                return False
            if isinstance(p_, ast.Compare) and len(p_.ops) == 1 and isinstance(p_.ops[0], ast.Eq) and ((is_n(p_.left) and top(p_.comparators[0])) or (top(p_.left) and is_n(p_.comparators[0]))):
                continue
            return False
        return seen_proper
    return False
