"""C17 - generator helpers that produce a module's chain of ancestors by cutting the name at its last '.' again and again.

    def _self_and_ancestors(name):            def _parents(name):
        while True:                               while "." in name:
            yield name                                name = name.rpartition(".")[0]
            i = name.rfind(".")                       yield name
            if i == -1:
                return
            name = name[:i]

`chain_generator(f)` runs the body on an abstract state - "the local x holds element k of the chain p, parent(p), parent(parent(p)) ...
(a non-empty name), element k has / has not been yielded, x is known / not known to contain a '.'" - until the state at the loop head
repeats, and accepts the function only if on every path

  * every value that is yielded is the current element of the chain, each element at most once, in chain order (nearest first),
  * the step to the next element is taken only where the current one is known to contain a '.' (or the result is tested for '' before
    it is used), and no element is skipped - except the name itself when it is never yielded (the chain of the proper ancestors),
  * the generator stops only where the current element is known to contain no '.' and has been yielded: the chain reaches the root.

Anything else (other statements, other tests, other cuts) is 'not recognised' - the caller stays undecided, never a verdict.
"""

from __future__ import annotations

import ast
from dataclasses import dataclass, replace

from core.loader import FuncInfo

from .c17_model import const_str


class _Reject(Exception):
    pass


@dataclass(frozen=True)
class St:
    x: str = "C"  # 'C': the chain variable holds the current element; 'P?': its parent, possibly '' (not yet tested)
    yielded: bool = False  # the current element has been yielded
    hasdot: bool | None = None  # the current element contains a '.'
    idx: frozenset = frozenset()  # locals holding  <current>.rfind('.')
    sep: frozenset = frozenset()  # locals holding the separator of <current>.rpartition('.')  ('' without a '.')
    par: frozenset = frozenset()  # locals holding the parent of <current> ('' without a '.')
    k: int = 0  # 0 while the current element is the name itself, 1 afterwards
    skipped_self: bool = False
    n_yields: int = 0

    def key(self):
        return (self.x, self.yielded, self.hasdot, self.idx, self.sep, self.par, min(self.k, 1))


def _advance(s: St) -> St:
    """the chain variable now holds the next element (the parent, known to be non-empty)"""
    if not s.yielded:
        if s.k != 0:
            raise _Reject("an element of the chain is skipped")
        s = replace(s, skipped_self=True)
    return replace(s, x="C", yielded=False, hasdot=None, idx=frozenset(), sep=frozenset(), par=frozenset(), k=s.k + 1)


class _Run:
    def __init__(self, var: str) -> None:
        self.var = var

    # ---- expressions
    def _is_var(self, e: ast.AST) -> bool:
        return isinstance(e, ast.Name) and e.id == self.var

    def _call_on_var(self, e: ast.AST, attr: str, nargs: int) -> bool:
        return isinstance(e, ast.Call) and isinstance(e.func, ast.Attribute) and e.func.attr == attr and self._is_var(e.func.value) and len(e.args) == nargs and not e.keywords and const_str(e.args[0]) == "."

    def _parent_expr(self, e: ast.AST, s: St) -> str | None:
        """'always' if `e` is the parent of the current element and '' when there is none (rpartition), 'dotted' if it is the parent
        only where the element contains a '.' (slices by rfind, rsplit)"""
        if isinstance(e, ast.Name) and e.id in s.par:
            return "always"
        if isinstance(e, ast.Subscript) and isinstance(e.slice, ast.Constant) and e.slice.value == 0:
            if self._call_on_var(e.value, "rpartition", 1):
                return "always"
            if isinstance(e.value, ast.Call) and self._call_on_var(ast.Call(func=e.value.func, args=e.value.args[:1], keywords=[]), "rsplit", 1) and len(e.value.args) == 2 and isinstance(e.value.args[1], ast.Constant) and e.value.args[1].value == 1:
                return "dotted"
        if isinstance(e, ast.Subscript) and isinstance(e.slice, ast.Slice) and e.slice.lower is None and e.slice.step is None and self._is_var(e.value):
            u = e.slice.upper
            if (isinstance(u, ast.Name) and u.id in s.idx) or self._call_on_var(u, "rfind", 1) or self._call_on_var(u, "rindex", 1):
                return "dotted"
        return None

    def _test(self, e: ast.expr, s: St) -> str | None:
        """'dot' / 'nodot': the test holds iff the current element contains a '.' / no '.';  'nonempty' / 'empty' for a test of the
        untested parent held by the chain variable"""
        if isinstance(e, ast.UnaryOp) and isinstance(e.op, ast.Not):
            inner = self._test(e.operand, s)
            if inner == "true":
                raise _Reject("test that never holds")
            return {"dot": "nodot", "nodot": "dot", "nonempty": "empty", "empty": "nonempty"}.get(inner or "")
        if isinstance(e, ast.Compare) and len(e.ops) == 1:
            l, op, r = e.left, e.ops[0], e.comparators[0]
            minus1 = (isinstance(r, ast.UnaryOp) and isinstance(r.op, ast.USub) and isinstance(r.operand, ast.Constant) and r.operand.value == 1) or (isinstance(r, ast.Constant) and r.value == -1)
            zero = isinstance(r, ast.Constant) and r.value == 0 and not isinstance(r.value, bool)
            is_idx = (isinstance(l, ast.Name) and l.id in s.idx) or (s.x == "C" and self._call_on_var(l, "rfind", 1)) or (s.x == "C" and self._call_on_var(l, "find", 1))
            if is_idx and minus1:
                if isinstance(op, (ast.Eq, ast.Is)):
                    return "nodot"
                if isinstance(op, (ast.NotEq, ast.IsNot, ast.Gt)):
                    return "dot"
            if is_idx and zero:
                if isinstance(op, ast.Lt):
                    return "nodot"
                if isinstance(op, ast.GtE):
                    return "dot"
            if isinstance(op, (ast.In, ast.NotIn)) and const_str(l) == "." and self._is_var(r) and s.x == "C":
                return "dot" if isinstance(op, ast.In) else "nodot"
            if isinstance(op, (ast.Eq, ast.NotEq)) and const_str(r) == "":
                inner = self._test(l, s)
                if inner is not None and inner != "true":
                    return inner if isinstance(op, ast.NotEq) else {"dot": "nodot", "nodot": "dot", "nonempty": "empty", "empty": "nonempty"}[inner]
            return None
        # truthiness
        if isinstance(e, ast.Name) and (e.id in s.sep or e.id in s.par):
            return "dot"
        if self._is_var(e) and s.x == "P?":
            return "nonempty"
        if self._is_var(e) and s.x == "C":
            return "true"  # an element of the chain is a non-empty name
        if s.x == "C" and self._call_on_var(e, "count", 1):
            return "dot"
        if s.x == "C" and self._parent_expr(e, s) == "always":
            return "dot"
        return None

    # ---- statements: returns [(outcome, state)] with outcome in 'fall' | 'continue' | 'break' | 'return'
    def block(self, stmts: list[ast.stmt], s: St) -> list[tuple[str, St]]:
        states = [("fall", s)]
        for st in stmts:
            nxt: list[tuple[str, St]] = []
            for how, cur in states:
                if how != "fall":
                    nxt.append((how, cur))
                else:
                    nxt += self.stmt(st, cur)
            states = nxt
        return states

    def _know(self, s: St, dot: bool) -> St | None:
        if s.hasdot is not None and s.hasdot != dot:
            return None  # infeasible
        return replace(s, hasdot=dot)

    def branch(self, test: ast.expr, s: St) -> tuple[St | None, St | None]:
        kind = self._test(test, s)
        if kind is None:
            raise _Reject(f"test `{ast.unparse(test)[:60]}` not recognised")
        if kind == "true":
            return s, None
        if kind in ("dot", "nodot") and s.x == "C":
            t, f = self._know(s, kind == "dot"), self._know(s, kind != "dot")
            return t, f
        if kind in ("dot", "nodot"):
            # a test of the element that has just been cut (through its separator / the index taken before the cut)
            d = _advance(replace(s, hasdot=True)) if s.hasdot in (None, True) else None
            nd = replace(s, hasdot=False) if s.hasdot in (None, False) else None
            return (d, nd) if kind == "dot" else (nd, d)
        # the chain variable holds the untested parent: non-empty iff the element contained a '.'
        if s.hasdot is None:
            ne, em = _advance(replace(s, hasdot=True)), replace(s, hasdot=False)
        elif s.hasdot:
            ne, em = _advance(s), None
        else:
            ne, em = None, s
        return (ne, em) if kind == "nonempty" else (em, ne)

    def stmt(self, st: ast.stmt, s: St) -> list[tuple[str, St]]:
        if isinstance(st, ast.Expr) and isinstance(st.value, ast.Constant):
            return [("fall", s)]
        if isinstance(st, ast.Pass):
            return [("fall", s)]
        if isinstance(st, ast.Expr) and isinstance(st.value, ast.Yield):
            v = st.value.value
            if not (v is not None and self._is_var(v)):
                # the parent held by a temporary, known to exist: the next element
                if isinstance(v, ast.Name) and v.id in s.par and s.hasdot:
                    raise _Reject("yield of a temporary")
                raise _Reject("a value other than the chain variable is yielded")
            if s.x != "C":
                raise _Reject("the untested parent is yielded (may be '')")
            if s.yielded:
                raise _Reject("an element is yielded twice")
            return [("fall", replace(s, yielded=True, n_yields=s.n_yields + 1))]
        if isinstance(st, ast.Return):
            if st.value is not None and not (isinstance(st.value, ast.Constant) and st.value.value is None):
                raise _Reject("return with a value")
            return [("return", s)]
        if isinstance(st, ast.Break):
            return [("break", s)]
        if isinstance(st, ast.Continue):
            return [("continue", s)]
        if isinstance(st, ast.If):
            t, f = self.branch(st.test, s)
            out: list[tuple[str, St]] = []
            if t is not None:
                out += self.block(st.body, t)
            if f is not None:
                out += self.block(st.orelse, f)
            return out
        if isinstance(st, (ast.Assign, ast.AnnAssign)):
            tgts = st.targets if isinstance(st, ast.Assign) else [st.target]
            val = st.value
            if len(tgts) != 1 or val is None:
                raise _Reject("assignment form")
            tgt = tgts[0]
            if isinstance(tgt, ast.Name) and tgt.id != self.var:
                if s.x == "C" and (self._call_on_var(val, "rfind", 1)):
                    return [("fall", replace(s, idx=s.idx | {tgt.id}))]
                if s.x == "C" and self._parent_expr(val, s) == "always":
                    return [("fall", replace(s, par=s.par | {tgt.id}))]
                raise _Reject(f"local `{tgt.id}` = `{ast.unparse(val)[:50]}` not recognised")
            if isinstance(tgt, ast.Name) and tgt.id == self.var:
                if s.x != "C":
                    raise _Reject("the chain variable is cut twice without a test")
                how = self._parent_expr(val, s)
                if how is None:
                    raise _Reject(f"`{self.var} = {ast.unparse(val)[:50]}` is not the cut at the last '.'")
                if s.hasdot:
                    return [("fall", _advance(s))]
                if s.hasdot is None and how == "always":
                    return [("fall", replace(s, x="P?"))]
                raise _Reject("the name is cut where it is not known to contain a '.'")
            if isinstance(tgt, (ast.Tuple, ast.List)) and len(tgt.elts) == 3 and all(isinstance(x, ast.Name) for x in tgt.elts) and self._call_on_var(val, "rpartition", 1) and s.x == "C":
                a, b, c_ = (x.id for x in tgt.elts)
                if a == b or a == c_:
                    raise _Reject("assignment form")
                new = s
                if b != self.var and b != c_:
                    new = replace(new, sep=new.sep | {b})
                if a == self.var:
                    if s.hasdot:
                        return [("fall", _advance(new))]
                    if s.hasdot is None:
                        # the separator taken in the same statement describes the element that was cut: it stays usable as a test
                        return [("fall", replace(new, x="P?"))]
                    raise _Reject("the name is cut where it is known to contain no '.'")
                return [("fall", replace(new, par=new.par | {a}))]
            raise _Reject("assignment form")
        raise _Reject(f"statement {type(st).__name__}")


def chain_generator(f: FuncInfo) -> tuple[str, str] | str:
    """('lineage' | 'parents', 'near') if generator `f(p)` yields p's chain of ancestors (with / without p itself), nearest first and
    up to the root; otherwise the reason (str)."""
    if isinstance(f.node, ast.Lambda):
        return "not a generator function"
    a = f.node.args
    params = [p.arg for p in [*a.posonlyargs, *a.args, *a.kwonlyargs]]
    if f.cls is not None and f.outer is None and not f.is_staticmethod and params:
        params = params[1:]
    if len(params) != 1 or a.vararg or a.kwarg:
        return "not a generator of one name"
    p = params[0]
    body = [s for s in f.node.body if not (isinstance(s, ast.Expr) and isinstance(s.value, ast.Constant))]
    if not any(isinstance(x, (ast.Yield,)) for s in body for x in ast.walk(s)) or any(isinstance(x, (ast.YieldFrom, ast.Await, ast.Lambda, ast.FunctionDef)) for s in body for x in ast.walk(s)):
        return "not a plain generator"
    # the chain variable: the parameter itself or a local initialised with it
    var = p
    pre: list[ast.stmt] = []
    loops = [i for i, s in enumerate(body) if isinstance(s, ast.While)]
    if len(loops) != 1:
        return "no single while loop"
    li = loops[0]
    W: ast.While = body[li]  # type: ignore[assignment]
    if W.orelse:
        return "while/else"
    for s in body[:li]:
        if isinstance(s, (ast.Assign, ast.AnnAssign)) and s.value is not None and isinstance(s.value, ast.Name) and s.value.id == p and var == p:
            tgt = s.targets[0] if isinstance(s, ast.Assign) and len(s.targets) == 1 else (s.target if isinstance(s, ast.AnnAssign) else None)
            if isinstance(tgt, ast.Name):
                var = tgt.id
                continue
        pre.append(s)
    if var != p and any(isinstance(x, ast.Name) and x.id == p and isinstance(x.ctx, ast.Store) for s in body for x in ast.walk(s)):
        return "the parameter is reassigned"
    run = _Run(var)
    try:
        start = run.block(pre, St())
        if any(how != "fall" for how, _s in start) or len(start) != 1:
            return "statements before the loop are not read"
        head = start[0][1]
        exits: list[St] = []  # states in which the generator is left
        seen: set = set()
        work = [head]
        rounds = 0
        while work:
            rounds += 1
            if rounds > 12:
                return "the state at the loop head does not settle"
            s = work.pop()
            if s.key() in seen:
                continue
            seen.add(s.key())
            # loop condition
            if isinstance(W.test, ast.Constant) and W.test.value is True:
                if s.x != "C":
                    raise _Reject("the untested parent reaches the next iteration")
                enter, leave = s, None
            else:
                enter, leave = run.branch(W.test, s)
            after: list[St] = [leave] if leave is not None else []
            if enter is not None:
                for how, s2 in run.block(W.body, enter):
                    if how in ("fall", "continue"):
                        work.append(s2)
                    elif how == "break":
                        after.append(s2)
                    else:
                        exits.append(s2)
            for s2 in after:
                for how, s3 in run.block(body[li + 1:], s2):
                    if how in ("break", "continue"):
                        raise _Reject("break / continue outside the loop")
                    exits.append(s3)
        if not exits:
            return "the generator never stops"
        final: list[St] = []
        for s in exits:
            if s.x == "P?" and s.hasdot is False:
                s = replace(s, x="C")  # the cut gave '': nothing left, the element before it was the root
            if s.hasdot is not False:
                return "the generator can stop before the root is reached (the last element may still contain a '.')"
            if not s.yielded and s.k:
                return "the generator can stop without yielding the last element it reached"
            final.append(replace(s, skipped_self=s.skipped_self or not s.yielded))
        if len({s.skipped_self for s in final}) != 1:
            return "the name itself is yielded on some paths only"
        return ("parents" if final[0].skipped_self else "lineage", "near")
    except _Reject as e:
        return str(e)


def index_chain_generator(f: FuncInfo) -> tuple[str, str] | str:
    """The same chain produced by walking an *index* over the unchanged name:

        i = p.rfind(".")            (parents)        |   i = len(p)    (the name itself first)
        while i != -1:                               |   while True:
            yield p[:i]                              |       yield p[:i]
            i = p.rfind(".", 0, i)                   |       i = p.rfind(".", 0, i)
                                                     |       if i == -1: return

    Every yield is the prefix that ends at the current index; the step moves the index to the last '.' before it; the loop ends exactly
    when there is none (-1): nearest first, up to the root."""
    if isinstance(f.node, ast.Lambda):
        return "not a generator function"
    a = f.node.args
    params = [p.arg for p in [*a.posonlyargs, *a.args, *a.kwonlyargs]]
    if f.cls is not None and f.outer is None and not f.is_staticmethod and params:
        params = params[1:]
    if len(params) != 1 or a.vararg or a.kwarg:
        return "not a generator of one name"
    p = params[0]
    body = [s for s in f.node.body if not (isinstance(s, ast.Expr) and isinstance(s.value, ast.Constant))]
    if len(body) != 2 or not isinstance(body[1], ast.While) or body[1].orelse:
        return "not `index = ...; while ...:`"
    init, W = body
    tgt = init.targets[0] if isinstance(init, ast.Assign) and len(init.targets) == 1 else (init.target if isinstance(init, ast.AnnAssign) and init.value is not None else None)
    if not isinstance(tgt, ast.Name):
        return "no index variable"
    i = tgt.id
    if any(isinstance(x, ast.Name) and x.id == p and isinstance(x.ctx, ast.Store) for x in ast.walk(f.node)):
        return "the name is reassigned"

    def is_p(e):
        return isinstance(e, ast.Name) and e.id == p

    def is_i(e):
        return isinstance(e, ast.Name) and e.id == i

    def minus1(e):
        return (isinstance(e, ast.UnaryOp) and isinstance(e.op, ast.USub) and isinstance(e.operand, ast.Constant) and e.operand.value == 1) or (isinstance(e, ast.Constant) and e.value == -1)

    v = init.value
    if isinstance(v, ast.Call) and isinstance(v.func, ast.Attribute) and v.func.attr == "rfind" and is_p(v.func.value) and len(v.args) == 1 and not v.keywords and const_str(v.args[0]) == ".":
        domain = "parents"
    elif isinstance(v, ast.Call) and isinstance(v.func, ast.Name) and v.func.id == "len" and len(v.args) == 1 and is_p(v.args[0]):
        domain = "lineage"
    else:
        return "the index does not start at the end of the name / at its last '.'"

    def not_done(t) -> bool | None:
        """True: test holds iff index != -1;  False: iff index == -1"""
        if isinstance(t, ast.Compare) and len(t.ops) == 1:
            l, op, r = t.left, t.ops[0], t.comparators[0]
            if is_i(l) and minus1(r):
                if isinstance(op, (ast.NotEq, ast.Gt)):
                    return True
                if isinstance(op, ast.Eq):
                    return False
            if is_i(r) and minus1(l):
                if isinstance(op, (ast.NotEq, ast.Lt)):
                    return True
                if isinstance(op, ast.Eq):
                    return False
            if is_i(l) and isinstance(r, ast.Constant) and r.value == 0 and not isinstance(r.value, bool):
                if isinstance(op, ast.GtE):
                    return True
                if isinstance(op, ast.Lt):
                    return False
        return None

    stmts = list(W.body)
    forever = isinstance(W.test, ast.Constant) and W.test.value is True
    if not forever and not_done(W.test) is not True:
        return "the loop condition is not 'a separator was found'"
    if domain == "lineage" and not forever and False:
        return ""
    if len(stmts) < 2:
        return "loop body"
    y, step = stmts[0], stmts[1]
    if not (isinstance(y, ast.Expr) and isinstance(y.value, ast.Yield) and isinstance(y.value.value, ast.Subscript) and is_p(y.value.value.value) and isinstance(y.value.value.slice, ast.Slice)
            and y.value.value.slice.lower is None and y.value.value.slice.step is None and is_i(y.value.value.slice.upper)):
        return "the loop does not start with `yield name[:index]`"
    st = step.targets[0] if isinstance(step, ast.Assign) and len(step.targets) == 1 else None
    sv = step.value if isinstance(step, ast.Assign) else None
    if not (is_i(st) and isinstance(sv, ast.Call) and isinstance(sv.func, ast.Attribute) and sv.func.attr == "rfind" and is_p(sv.func.value) and len(sv.args) == 3 and not sv.keywords
            and const_str(sv.args[0]) == "." and isinstance(sv.args[1], ast.Constant) and sv.args[1].value == 0 and is_i(sv.args[2])):
        return "the step is not `index = name.rfind('.', 0, index)`"
    rest = stmts[2:]
    if forever:
        if not (len(rest) == 1 and isinstance(rest[0], ast.If) and not rest[0].orelse and not_done(rest[0].test) is False and len(rest[0].body) == 1 and isinstance(rest[0].body[0], (ast.Return, ast.Break)) and getattr(rest[0].body[0], "value", None) is None):
            return "`while True` without `if index == -1: return` after the step"
    elif rest:
        return "further statements in the loop"
    return (domain, "near")


def chain_call(M, call: ast.Call, n: str) -> tuple[str, str] | None:
    """`helper(n)` where helper is a repo generator accepted by chain_generator  ->  (domain, order)"""
    from .common import types_of

    ctx, orig = getattr(call, "_src", getattr(call, "_orig", (M.V, call)))
    if not isinstance(orig, ast.Call) or len(call.args) != 1 or call.keywords:
        return None
    arg = call.args[0]
    if not (isinstance(arg, ast.Name) and arg.id == n):
        return None
    try:
        cs, how = types_of(M.repo).callees(ctx, orig, byname_fallback=False)
    except Exception:  # noqa: BLE001
        return None
    if len(cs) != 1 or how != "repo":
        return None
    got = chain_generator(cs[0])
    if not isinstance(got, tuple):
        got = index_chain_generator(cs[0])
    return got if isinstance(got, tuple) else None
