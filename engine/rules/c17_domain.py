"""C17 - which modules receive the alias of an aliased module must be decided by the two *names* (C17.R1).

The property: a module gets the alias of an aliased module whose name it equals or extends by whole dotted components.  A store
`labels[n] = alias(c) + rest(n, c)` whose module `n` ranges over a collection computed from the candidate `c` through the *structure of
the graph* - successors / predecessors / edges / adjacency, networkx traversals, 'inherits' edge data - and is not additionally tested
against `c` by name selects by reachability instead: hierarchy edges are not the dotted-prefix relation (a relative import
`from .logging.handlers import X` inside `shop.orders` asks for the hierarchy edge `logging -> shop.orders.logging.handlers`), so a
module can receive the alias of a module that is no dotted prefix of it, and `n[len(c):]` is then cut inside a component.
"""

from __future__ import annotations

import ast

from core.loader import norm

from .c17_model import Model
from .c17_view import _walk_own

STRUCTURE_ATTRS = {"successors", "predecessors", "neighbors", "edges", "out_edges", "in_edges", "adj", "succ", "pred", "get_edge_data", "has_edge", "has_successor", "has_predecessor", "adjacency", "all_neighbors"}


def graph_structure_read(M: Model, e: ast.AST) -> str | None:
    """text of a sub-expression of `e` that reads the edge structure of the drawn graph (not just its node set)"""
    if M.G is None:
        return None
    for x in ast.walk(e):
        if isinstance(x, ast.Attribute) and x.attr in STRUCTURE_ATTRS and norm(M.resolve(x.value)) == M.G:
            return norm(x, 60)
        if isinstance(x, ast.Subscript) and isinstance(x.ctx, ast.Load) and norm(M.resolve(x.value)) == M.G:
            return norm(x, 60)
        if isinstance(x, ast.Call) and isinstance(x.func, (ast.Name, ast.Attribute)) and any(norm(M.resolve(a)) == M.G for a in x.args):
            ctx, orig = getattr(x, "_src", (M.V, x))
            fq = M.repo.resolve_name(ctx.module, orig.func) if isinstance(orig, ast.Call) and isinstance(orig.func, (ast.Name, ast.Attribute)) else None
            if fq and fq.startswith("networkx") and not fq.endswith(("draw_networkx", "spring_layout", "freeze")):
                return norm(x, 60)
    return None


def provenance(M: Model, it: ast.expr, limit: int = 60):
    """Everything that flows into the collection `it` (through locals, appends / extends, loop variables, comprehension variables):
    -> (names of the locals involved, [text of reads of the graph's edge structure])"""
    names: set[str] = set()
    reads: list[str] = []
    work: list[ast.AST] = [it]
    steps = 0
    while work and steps < limit:
        steps += 1
        e = work.pop()
        r = graph_structure_read(M, e)
        if r is not None and r not in reads:
            reads.append(r)
        for x in ast.walk(e):
            if isinstance(x, ast.Name) and isinstance(x.ctx, ast.Load) and x.id not in names and x.id in M.binds and x.id != M.selfname:
                names.add(x.id)
                for b in M.binds[x.id]:
                    if b.value is not None:
                        work.append(b.value)
                for y in _walk_own(M.fn.body):
                    if isinstance(y, ast.Call) and isinstance(y.func, ast.Attribute) and isinstance(y.func.value, ast.Name) and y.func.value.id == x.id and y.func.attr in ("append", "extend", "add", "update", "insert", "appendleft", "extendleft"):
                        work.extend(y.args)
                    elif isinstance(y, ast.AugAssign) and isinstance(y.target, ast.Name) and y.target.id == x.id:
                        work.append(y.value)
    return names, reads
