"""C17 - which modules receive the alias of an aliased module must be decided by the two *names* (C17.R1).

The property: a module gets the alias of an aliased module whose name it equals or extends by whole dotted components.  A store
`labels[n] = alias(c) + rest(n, c)` whose module `n` ranges over a collection computed from the candidate `c` through the *structure of
the graph* - successors / predecessors / edges / adjacency, networkx traversals, 'inherits' edge data - and is not additionally tested
against `c` by name selects by reachability instead: hierarchy edges are not the dotted-prefix relation (a relative import
`from .logging.handlers import X` inside `shop.orders` asks for the hierarchy edge `logging -> shop.orders.logging.handlers`), so a
module can receive the alias of a module that is no dotted prefix of it, and `n[len(c):]` is then cut inside a component.
"""

from __future__ import annotations

import ast

from core.loader import norm

from .c17_model import Model
from .c17_view import _walk_own

STRUCTURE_ATTRS = {"successors", "predecessors", "neighbors", "edges", "out_edges", "in_edges", "adj", "succ", "pred", "get_edge_data", "has_edge", "has_successor", "has_predecessor", "adjacency", "all_neighbors"}


def graph_structure_read(M: Model, e: ast.AST) -> str | None:
    """text of a sub-expression of `e` that reads the edge structure of the drawn graph (not just its node set)"""
    if M.G is None:
        return None
    for x in ast.walk(e):
        if isinstance(x, ast.Attribute) and x.attr in STRUCTURE_ATTRS and norm(M.resolve(x.value)) == M.G:
            return norm(x, 60)
        if isinstance(x, ast.Subscript) and isinstance(x.ctx, ast.Load) and norm(M.resolve(x.value)) == M.G:
            return norm(x, 60)
        if isinstance(x, ast.Call) and isinstance(x.func, (ast.Name, ast.Attribute)) and any(norm(M.resolve(a)) == M.G for a in x.args):
            ctx, orig = getattr(x, "_src", (M.V, x))
            fq = M.repo.resolve_name(ctx.module, orig.func) if isinstance(orig, ast.Call) and isinstance(orig.func, (ast.Name, ast.Attribute)) else None
            if fq and fq.startswith("networkx") and not fq.endswith(("draw_networkx", "spring_layout", "freeze")):
                return norm(x, 60)
    return None


def provenance(M: Model, it: ast.expr, limit: int = 60):
    """Everything that flows into the collection `it` (through locals, appends / extends, loop variables, comprehension variables):
    -> (names of the locals involved, [text of reads of the graph's edge structure])"""
    names: set[str] = set()
    reads: list[str] = []
    work: list[ast.AST] = [it]
    steps = 0
    while work and steps < limit:
        steps += 1
        e = work.pop()
        r = graph_structure_read(M, e)
        if r is not None and r not in reads:
            reads.append(r)
        for x in ast.walk(e):
            if isinstance(x, ast.Name) and isinstance(x.ctx, ast.Load) and x.id not in names and x.id in M.binds and x.id != M.selfname:
                names.add(x.id)
                for b in M.binds[x.id]:
                    if b.value is not None:
                        work.append(b.value)
                for y in _walk_own(M.fn.body):
                    if isinstance(y, ast.Call) and isinstance(y.func, ast.Attribute) and isinstance(y.func.value, ast.Name) and y.func.value.id == x.id and y.func.attr in ("append", "extend", "add", "update", "insert", "appendleft", "extendleft"):
                        work.extend(y.args)
                    elif isinstance(y, ast.AugAssign) and isinstance(y.target, ast.Name) and y.target.id == x.id:
                        work.append(y.value)
    return names, reads


# =========================================================================== candidates indexed by top-level package


def _root_key(body: ast.AST, p: str) -> bool:
    """`body` = the first dotted component of the name `p`: p.partition('.')[0] | p.split('.')[0] | p.split('.', 1)[0]"""
    from .c17_model import const_str

    if not (isinstance(body, ast.Subscript) and isinstance(body.slice, ast.Constant) and body.slice.value == 0 and isinstance(body.value, ast.Call) and isinstance(body.value.func, ast.Attribute)):
        return False
    c = body.value
    recv = c.func.value
    if not ((isinstance(recv, ast.Name) and recv.id == p) or (not p.isidentifier() and norm(recv, 300) == p)):
        return False
    if not c.args or const_str(c.args[0]) != "." or c.keywords:
        return False
    if c.func.attr == "partition" and len(c.args) == 1:
        return True
    if c.func.attr == "split" and (len(c.args) == 1 or (len(c.args) == 2 and isinstance(c.args[1], ast.Constant) and c.args[1].value == 1)):
        return True
    return False


def _root_key_expr(M: Model, body: ast.AST, p: str) -> bool:
    """the first component of `p`, spelled out or through a repo helper `def root(m): return m.partition('.')[0]`"""
    if _root_key(body, p):
        return True
    if isinstance(body, ast.Call) and len(body.args) == 1 and not body.keywords and isinstance(body.args[0], ast.Name) and body.args[0].id == p and isinstance(body.func, (ast.Name, ast.Attribute)):
        lam = _as_lambda(M, body.func)
        return lam is not None and _root_key(lam.body, lam.args.args[0].arg)
    return False


def _as_lambda(M: Model, key: ast.expr | None):
    from .c17_labels import _function_as_lambda

    if isinstance(key, ast.Lambda) and len(key.args.args) == 1 and not key.args.defaults:
        return key
    if isinstance(key, (ast.Name, ast.Attribute)):
        return _function_as_lambda(M, key)
    return None


def indexed_candidates(M: Model, e: ast.expr, n: str, domain_order):
    """resolved `e` = `INDEX.get(root(n), [])` / `INDEX[root(n)]` where INDEX maps the top-level package to the aliased modules below it,
    built from `itertools.groupby(SEQ, key=root)`.   -> (domain, order) | None (not this shape)

    Every aliased ancestor-or-self of a module shares its top-level package, so restricting the candidates to the module's package loses
    nothing - *if the groups are complete*.  `groupby` only groups consecutive runs: when SEQ is not sorted by the grouping key a package
    comes in several runs, and a dict that stores (`INDEX[k] = list(run)`) keeps the last run only.  Then aliased modules are missing
    from the candidates: domain 'lossy:...' (a VIOLATION of C17.R2).  Runs that are accumulated (`setdefault(k, []).extend(run)`) are
    re-united and keep the order of SEQ."""
    key = dflt = None
    if isinstance(e, ast.Call) and isinstance(e.func, ast.Attribute) and e.func.attr == "get" and isinstance(e.func.value, ast.Name) and 1 <= len(e.args) <= 2 and not e.keywords:
        idx, key = e.func.value.id, e.args[0]
        dflt = e.args[1] if len(e.args) == 2 else None
        if dflt is not None and not (isinstance(dflt, (ast.List, ast.Tuple)) and not dflt.elts):
            return None
    elif isinstance(e, ast.Subscript) and isinstance(e.value, ast.Name) and isinstance(e.ctx, ast.Load) and not isinstance(e.slice, ast.Slice):
        idx, key = e.value.id, e.slice
    else:
        return None
    bs = M.binds.get(idx, [])
    if len(bs) != 1 or bs[0].kind != "assign" or bs[0].value is None:
        return None
    init = bs[0].value
    empty = (isinstance(init, ast.Dict) and not init.keys) or (isinstance(init, ast.Call) and isinstance(init.func, ast.Name) and init.func.id in ("dict", "defaultdict") and not init.keywords and all(isinstance(a, ast.Name) and a.id in ("list",) for a in init.args))
    if not empty:
        return None
    if not _root_key(M.resolve(key), n):
        return None
    # how the index is filled
    fills = []
    for x in _walk_own(M.fn.body):
        if isinstance(x, ast.Subscript) and isinstance(x.value, ast.Name) and x.value.id == idx and isinstance(x.ctx, (ast.Store, ast.Del)):
            st = M.stmt_of(x)
            if isinstance(x.ctx, ast.Del) or not (isinstance(st, ast.Assign) and len(st.targets) == 1 and st.targets[0] is x):
                return None
            fills.append(("store", x.slice, st.value, st))
        elif isinstance(x, ast.Call) and isinstance(x.func, ast.Attribute) and x.func.attr in ("extend",) and len(x.args) == 1:
            recv = x.func.value
            if isinstance(recv, ast.Call) and isinstance(recv.func, ast.Attribute) and recv.func.attr == "setdefault" and isinstance(recv.func.value, ast.Name) and recv.func.value.id == idx and len(recv.args) == 2:
                fills.append(("accumulate", recv.args[0], x.args[0], M.stmt_of(x)))
            elif isinstance(recv, ast.Subscript) and isinstance(recv.value, ast.Name) and recv.value.id == idx:
                fills.append(("accumulate", recv.slice, x.args[0], M.stmt_of(x)))
        elif isinstance(x, ast.Call) and isinstance(x.func, ast.Attribute) and isinstance(x.func.value, ast.Name) and x.func.value.id == idx and x.func.attr not in ("get", "setdefault", "keys", "items", "values"):
            return None
    if len(fills) != 1:
        return None
    mode, k_expr, v_expr, st = fills[0]
    loops = M.loops_around(st)
    if not loops:
        return None
    L = loops[-1]
    it = M.resolve(L.iter)
    if not (isinstance(it, ast.Call) and ((isinstance(it.func, ast.Name) and it.func.id == "groupby") or (isinstance(it.func, ast.Attribute) and it.func.attr == "groupby")) and it.args):
        return None
    gkey = next((k.value for k in it.keywords if k.arg == "key"), it.args[1] if len(it.args) > 1 else None)
    lam = _as_lambda(M, gkey)
    if lam is None or not _root_key_expr(M, lam.body, lam.args.args[0].arg):
        return None
    if not (isinstance(L.target, (ast.Tuple, ast.List)) and len(L.target.elts) == 2 and all(isinstance(t, ast.Name) for t in L.target.elts)):
        return None
    kv, gv = L.target.elts[0].id, L.target.elts[1].id
    if not (isinstance(k_expr, ast.Name) and k_expr.id == kv):
        return None
    v = v_expr
    while isinstance(v, ast.Call) and isinstance(v.func, ast.Name) and v.func.id in ("list", "tuple") and len(v.args) == 1 and not v.keywords:
        v = v.args[0]
    if not (isinstance(v, ast.Name) and v.id == gv):
        return None
    seq = it.args[0]
    # is the grouped sequence sorted by the grouping key?
    inner, within = seq, None
    s2 = seq
    while isinstance(s2, ast.Call) and isinstance(s2.func, ast.Name) and s2.func.id in ("list", "tuple", "iter") and len(s2.args) == 1 and not s2.keywords:
        s2 = s2.args[0]
    by_key = False
    if isinstance(s2, ast.Call) and isinstance(s2.func, ast.Name) and s2.func.id == "sorted" and len(s2.args) == 1:
        kw = {k.arg: k.value for k in s2.keywords}
        sl = _as_lambda(M, kw.get("key")) if set(kw) <= {"key", "reverse"} else None
        if sl is not None:
            p = sl.args.args[0].arg
            if _root_key_expr(M, sl.body, p):
                by_key, inner = True, s2.args[0]  # stable: the order inside a package is the order of the sorted sequence
            elif isinstance(sl.body, ast.Tuple) and len(sl.body.elts) >= 2 and _root_key_expr(M, sl.body.elts[0], p) and "reverse" not in kw:
                from .c17_labels import _sorted_order

                rest = sl.body.elts[1] if len(sl.body.elts) == 2 else ast.Tuple(elts=sl.body.elts[1:], ctx=ast.Load())
                lam2 = ast.Lambda(args=sl.args, body=rest)
                by_key, inner = True, s2.args[0]
                within = _sorted_order(M, [ast.keyword(arg="key", value=lam2)], False)
    d, o = domain_order(M, M.resolve(inner), n)
    if d != "keys":
        return None
    if within is not None:
        o = within
    if by_key or mode == "accumulate":
        return "keys", o
    # 'not sorted by the package' needs positive evidence: no sort at all, or a sort by the length / depth of the name
    known_unsorted = M.keys_of_A(s2) is not None and not (isinstance(s2, ast.Call) and isinstance(s2.func, ast.Name) and s2.func.id == "sorted")
    if isinstance(s2, ast.Call) and isinstance(s2.func, ast.Name) and s2.func.id == "sorted" and len(s2.args) == 1:
        from .c17_labels import _spec_key

        kw2 = {k.arg: k.value for k in s2.keywords}
        if set(kw2) <= {"key", "reverse"} and _spec_key(M, kw2.get("key"), False) in ("spec", "negspec"):
            known_unsorted = True
    if not known_unsorted:
        return None
    return f"lossy:`{norm(st, 60)}` in `for {norm(L.target, 30)} in {norm(L.iter, 70)}`", o
