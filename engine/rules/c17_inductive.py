"""C17 - the third label mechanism: the label of a module is derived *inductively* from the label of its parent.

    label(n) = aliases[n]                                   if n has an alias itself
             = label(parent(n)) + "." + last component      if n has a parent
             = n                                            otherwise

(besides the sorted scan over the aliased modules and the walk up the module's ancestors, rules/c17_labels.py).  The label of the
parent is either computed on demand (a recursive call of the label function: correct in whatever order the modules are visited) or
*read back from the label mapping* that is being filled.  The second form is only correct if, when a module is labelled, the labels
of all its ancestors are final, i.e. if the pass over the nodes provably visits ancestors before descendants:

  * sorted(names)                       a proper dotted prefix 'a' of 'a.b' is a proper string prefix, and a proper prefix sorts first
  * sorted(names, key=len | depth)      an ancestor is strictly shorter / has strictly fewer components

The insertion order of the graph's nodes (`list(self._graph.nodes)`) gives no such guarantee: NetworkxGraph adds the node of a
listed module first and the nodes of its parents afterwards.  A pass in that order (or in set order, or descendants first) is a
VIOLATION of C17.R2: a module that is visited before its aliased ancestor keeps its unaliased name, and so does its whole subtree.

Assumption of the accepted form (stated in the obligation): the node set is closed under parents (NetworkxGraph creates the nodes
of all parent modules of every module), so that in an ancestors-first pass 'the parent has a label' is 'the module has a parent'.
"""

from __future__ import annotations

import ast
import itertools

from core.guards import atoms_of, evaluate
from core.loader import norm

from .c17_model import Model, const_str, parse_atom
from .c17_view import _walk_own
from .common import cfg_of


# =========================================================================== shapes


def _is_name(e: ast.AST, name: str) -> bool:
    if isinstance(e, ast.Name):
        return e.id == name
    return isinstance(e, ast.expr) and not name.isidentifier() and norm(e, 400) == name


def parent_of(e: ast.AST, n: str) -> bool:
    """`e` = the dotted name `n` without its last component"""
    from .c17_labels import _parent_of, _parents_call

    if isinstance(e, ast.expr) and _parent_of(e, n):
        return True
    # get_parent_modules(n)[-1]: the list ends with the direct parent
    if isinstance(e, ast.Subscript) and _parents_call(e.value, n) and _minus_one(e.slice):
        return True
    return False


def _minus_one(s: ast.AST) -> bool:
    return (isinstance(s, ast.UnaryOp) and isinstance(s.op, ast.USub) and isinstance(s.operand, ast.Constant) and s.operand.value == 1) or (isinstance(s, ast.Constant) and s.value == -1)


def last_of(e: ast.AST, n: str) -> bool:
    """`e` = the last dotted component of `n`: n.rpartition('.')[2] | [-1], n.rsplit('.', 1)[1] | [-1], n.split('.')[-1]"""
    if not (isinstance(e, ast.Subscript) and isinstance(e.value, ast.Call) and isinstance(e.value.func, ast.Attribute) and _is_name(e.value.func.value, n)):
        return False
    c, idx = e.value, e.slice
    if not c.args or const_str(c.args[0]) != ".":
        return False
    k = idx.value if isinstance(idx, ast.Constant) else (-1 if _minus_one(idx) else None)
    if c.func.attr == "rpartition" and len(c.args) == 1:
        return k in (2, -1)
    if c.func.attr == "rsplit" and len(c.args) == 2 and isinstance(c.args[1], ast.Constant) and c.args[1].value == 1:
        return k in (1, -1)
    if c.func.attr == "split" and len(c.args) == 1:
        return k == -1
    return False


def concat_parts(v: ast.expr) -> list | None:
    """A string built by concatenation as the list of its parts (str for constant text, expressions otherwise):
    `a + "." + b`, f"{a}.{b}", ".".join([a, b]) / ".".join((a, b))"""
    if isinstance(v, ast.Constant) and isinstance(v.value, str):
        return [v.value]
    if isinstance(v, ast.BinOp) and isinstance(v.op, ast.Add):
        l, r = concat_parts(v.left), concat_parts(v.right)
        return None if l is None or r is None else _merge(l + r)
    if isinstance(v, ast.JoinedStr):
        out: list = []
        for x in v.values:
            if isinstance(x, ast.Constant) and isinstance(x.value, str):
                out.append(x.value)
            elif isinstance(x, ast.FormattedValue) and x.conversion == -1 and x.format_spec is None:
                sub = concat_parts(x.value)
                out += sub if sub is not None else [x.value]
            else:
                return None
        return _merge(out)
    if isinstance(v, ast.Call) and isinstance(v.func, ast.Attribute) and v.func.attr == "join" and const_str(v.func.value) is not None and len(v.args) == 1 and isinstance(v.args[0], (ast.List, ast.Tuple)) and v.args[0].elts and not any(isinstance(x, ast.Starred) for x in v.args[0].elts):
        out = []
        for i, x in enumerate(v.args[0].elts):
            if i:
                out.append(const_str(v.func.value))
            sub = concat_parts(x)
            out += sub if sub is not None else [x]
        return _merge(out)
    if isinstance(v, ast.expr):
        return [v]
    return None


def _merge(parts: list) -> list:
    out: list = []
    for p in parts:
        if isinstance(p, str) and out and isinstance(out[-1], str):
            out[-1] += p
        elif p != "":
            out.append(p)
    return out


# =========================================================================== the label of the parent


def recursive_label_call(C, e: ast.AST):
    """`e` is a call a function flattened into draw() makes to itself  ->  (FuncInfo, index of the one argument that differs from the
    function's own parameters) | None.  All other arguments are the function's parameters handed on unchanged."""
    M: Model = C.M
    if not isinstance(e, ast.Call):
        return None
    src = getattr(e, "_src", None) or getattr(e, "_orig", None)
    if src is None or not isinstance(src[1], ast.Call):
        return None
    ctx, orig = src
    try:
        cs, how = C.types.callees(ctx, orig, byname_fallback=False)
    except Exception:  # noqa: BLE001
        return None
    cs = [c for c in cs if not c.is_abstract]
    if len(cs) != 1 or how != "repo" or getattr(ctx, "fq", None) != cs[0].fq or cs[0].fq not in getattr(M.V, "inlined", []):
        return None
    f = cs[0]
    a = f.node.args
    if a.vararg or a.kwarg or any(isinstance(x, ast.Starred) for x in orig.args) or any(k.arg is None for k in orig.keywords):
        return None
    pos = [p.arg for p in [*a.posonlyargs, *a.args]]
    if f.cls is not None and f.outer is None and not f.is_staticmethod and pos:
        pos = pos[1:]
    given: dict[str, ast.expr] = dict(zip(pos, orig.args))
    given.update({k.arg: k.value for k in orig.keywords})
    stored = {x.id for x in ast.walk(f.node) if isinstance(x, ast.Name) and isinstance(x.ctx, (ast.Store, ast.Del))}
    differing = [p for p, v in given.items() if not (isinstance(v, ast.Name) and v.id == p and p not in stored)]
    if len(differing) != 1 or differing[0] not in pos or len(orig.args) <= pos.index(differing[0]):
        return None
    return f, pos.index(differing[0])


def parent_label(C, e: ast.AST, n: str, label_names: set[str]):
    """resolved `e` is the label of the parent of `n`:
    ('mapping', name of the mapping, text) for `labels[parent]` / `labels.get(parent)`,
    ('recursion', FuncInfo, text) for `label_function(parent, <the other arguments unchanged>)`,
    ('odd', reason) when a label is read for something that is not recognised as the parent; None otherwise."""
    if isinstance(e, ast.Subscript) and isinstance(e.value, ast.Name) and e.value.id in label_names and not isinstance(e.slice, ast.Slice):
        if parent_of(e.slice, n):
            return ("mapping", e.value.id, norm(e, 60), e.slice)
        return ("odd", f"`{norm(e, 60)}` reads the label of something that is not recognised as the parent of `{n}`")
    if isinstance(e, ast.Call) and isinstance(e.func, ast.Attribute) and e.func.attr == "get" and isinstance(e.func.value, ast.Name) and e.func.value.id in label_names:
        if len(e.args) == 1 and not e.keywords and parent_of(e.args[0], n):
            return ("mapping", e.func.value.id, norm(e, 60), e.args[0])
        return ("odd", f"`{norm(e, 60)}` reads a label in a form that is not recognised as 'the label of the parent of `{n}`'")
    rc = parent_recursion(C, e, n)
    if rc is not None:
        return ("recursion", rc[0], norm(e, 60), e.args[rc[1]])
    return None


def parent_recursion(C, e: ast.AST, n: str | None):
    """`e` is the label function's call of itself *for the parent of n*: the one argument that changes is the parent of `n`, and no
    other argument depends on `n` (a recursion that keeps the module's name and walks a second parameter upwards is a search for the
    aliased ancestor, not the label of the parent)  ->  (FuncInfo, index) | None"""
    rc = recursive_label_call(C, e) if n is not None else None
    if rc is None:
        return None
    f, j = rc
    M: Model = C.M
    if not parent_of(M.resolve(e.args[j]), n):
        return None
    for i, a in enumerate([*e.args, *[k.value for k in e.keywords]]):
        if i != j and any(_is_name(x, n) for x in ast.walk(M.resolve(a))):
            return None
    return f, j


def has_recursive_call(C, v: ast.AST, n: str | None) -> bool:
    return any(isinstance(x, ast.Call) and parent_recursion(C, x, n) is not None for x in ast.walk(v))


def reads_label(C, v: ast.AST, label_names: set[str], n: str | None) -> bool:
    """`v` uses the label of another module than `n`: a read of the label mapping (under another key) or a recursive call of the label function"""
    for x in ast.walk(v):
        if isinstance(x, ast.Subscript) and isinstance(x.ctx, ast.Load) and isinstance(x.value, ast.Name) and x.value.id in label_names and not isinstance(x.slice, ast.Slice):
            if not (n is not None and _is_name(x.slice, n)):
                return True
        if isinstance(x, ast.Call) and isinstance(x.func, ast.Attribute) and x.func.attr == "get" and isinstance(x.func.value, ast.Name) and x.func.value.id in label_names and x.args:
            if not (n is not None and _is_name(x.args[0], n)):
                return True
    return has_recursive_call(C, v, n)


def parse_inductive(C, v: ast.expr, n: str, label_names: set[str]):
    """resolved label value = label(parent(n)) + '.' + last component of n   (or + the rest of n after its parent)
    -> ('ok', source, description) | ('bad', reason) | ('odd', reason)"""
    from .c17_labels import rest_of

    parts = concat_parts(v)
    if not parts:
        return ("odd", f"`{norm(v, 80)}` is not read")
    # the separator taken from n.rpartition('.') is '.' wherever the name has a parent (and the parent's label can be read at all)
    parts = _merge(["." if isinstance(x, ast.expr) and _separator_of(x, n) else x for x in parts])
    head = parts[0]
    src = parent_label(C, head, n, label_names) if isinstance(head, ast.expr) else None
    if src is None:
        return ("odd", f"`{norm(v, 80)}`: not recognised as 'label of the parent + the last component of the name'")
    if src[0] == "odd":
        return src
    if len(parts) == 3 and parts[1] == "." and isinstance(parts[2], ast.expr) and last_of(parts[2], n):
        return ("ok", src, f"{src[2]} + '.' + the last component of the name")
    if len(parts) == 2 and isinstance(parts[1], ast.expr):
        # the rest of the name after the parent (starting at the separator): n[len(parent):] / n.removeprefix(parent)
        if rest_of(parts[1], n, norm(src[3], 400)) is not None:
            return ("ok", src, f"{src[2]} + the rest of the name after the parent")
        if last_of(parts[1], n):
            return ("bad", f"`{norm(v, 80)}` appends the last component to the parent's label without the separator")
    if len(parts) == 1:
        return ("bad", f"`{norm(v, 80)}` is the bare label of the parent: the last component of the module name is dropped")
    return ("odd", f"`{norm(v, 80)}`: not recognised as 'label of the parent + the last component of the name'")


# =========================================================================== order of the pass over the nodes


def node_order(M: Model, it: ast.expr, loop: ast.AST | None = None, depth: int = 0) -> str | None:
    """Order in which `for n in <it>` visits the nodes of the graph:
    'ancestors-first' | 'descendants-first' | 'insertion' (order of the graph's node dict) | 'arbitrary' (set order) | None (not read)"""
    from .c17_labels import _sorted_order

    if depth > 8:
        return None
    flip = {"ancestors-first": "descendants-first", "descendants-first": "ancestors-first", "insertion": "insertion", "arbitrary": "arbitrary"}
    by_key = {"asc": "ancestors-first", "desc": "descendants-first"}
    if isinstance(it, ast.Name):
        v = M.single_value(it.id)
        if v is None or not M._only_reordered(it.id):
            return None
        o = node_order(M, v, loop, depth + 1)
        calls = M.in_place_sorts(it.id)
        if len(calls) > 1 or (calls and M.loops_around(calls[0], whiles=True)):
            return None
        if calls and (loop is None or not cfg_of(M.V).dominates(M.stmt_of(calls[0]), loop)):
            return None  # not sorted on every path that reaches the pass over the nodes
        for s in calls:
            if s.func.attr == "reverse":
                o = flip.get(o or "")
            elif s.args:
                return None
            else:
                o = by_key.get(_sorted_order(M, s.keywords, False) or "") if o is not None else None
        return o
    if isinstance(it, ast.Call) and isinstance(it.func, ast.Name) and len(it.args) == 1:
        fn = it.func.id
        if fn in ("list", "tuple", "iter") and not it.keywords:
            return node_order(M, it.args[0], loop, depth + 1)
        if fn == "sorted":
            from .c17_carried import component_key

            kw = {k.arg: k.value for k in it.keywords}
            if set(kw) <= {"key", "reverse"} and component_key(kw.get("key")) and (kw.get("reverse") is None or (isinstance(kw["reverse"], ast.Constant) and isinstance(kw["reverse"].value, bool))):
                # component-wise order: a parent's component list is a proper prefix of its sub module's, so it sorts first
                o = "descendants-first" if kw.get("reverse") is not None and kw["reverse"].value else "ancestors-first"
                return o if node_order(M, it.args[0], loop, depth + 1) is not None else None
            return by_key.get(_sorted_order(M, it.keywords, False) or "") if node_order(M, it.args[0], loop, depth + 1) is not None else None
        if fn == "reversed" and not it.keywords:
            return flip.get(node_order(M, it.args[0], loop, depth + 1) or "")
        if fn in ("set", "frozenset") and not it.keywords:
            return "arbitrary" if node_order(M, it.args[0], loop, depth + 1) is not None else None
        return None
    if isinstance(it, ast.Subscript) and isinstance(it.slice, ast.Slice):
        s = it.slice
        if s.lower is None and s.upper is None and s.step is not None and _minus_one(s.step):
            return flip.get(node_order(M, it.value, loop, depth + 1) or "")
        return None
    if any(isinstance(x, ast.Call) and isinstance(x.func, ast.Name) and x.func.id in ("sorted", "reversed", "set", "frozenset") for x in ast.walk(it)):
        return None
    if isinstance(it, (ast.ListComp, ast.GeneratorExp)) and len(it.generators) == 1 and not it.generators[0].ifs and isinstance(it.elt, ast.Name) and isinstance(it.generators[0].target, ast.Name) and it.elt.id == it.generators[0].target.id:
        return node_order(M, it.generators[0].iter, loop, depth + 1)
    if isinstance(it, ast.SetComp):
        return "arbitrary" if M.nodes_coll(it) == "all" else None
    if M.nodes_coll(it) == "all":
        return "insertion"
    return None


# =========================================================================== conditions


def classify(M: Model, text: str, n: str, label_names: set[str]) -> str:
    """what an atom of a store's path condition says about the module `n`:
    'self-aliased' (n in aliases) | 'has-parent' | 'no-parent' | 'parent-labelled' | 'parent-unlabelled' | 'label-truthy' | 'other'"""
    from .c17_labels import _self_in_keys

    if _self_in_keys(M, text, n):
        return "self-aliased"
    e = parse_atom(text)
    if e is None:
        return "other"
    if isinstance(e, ast.Call) and isinstance(e.func, ast.Name) and e.func.id == "bool" and len(e.args) == 1:
        e = e.args[0]
    if isinstance(e, ast.Compare) and len(e.ops) == 1:
        l, op, r = e.left, e.ops[0], e.comparators[0]
        if isinstance(op, ast.In):
            if parent_of(l, n) and isinstance(r, ast.Name) and r.id in label_names:
                return "parent-labelled"
            if _is_name(l, n) and isinstance(r, ast.Name) and r.id in label_names:
                return "memo"  # the module has its label already
            if const_str(l) == "." and _is_name(r, n):
                return "has-parent"
        if isinstance(op, ast.Is) and isinstance(r, ast.Constant) and r.value is None and isinstance(l, ast.Call) and isinstance(l.func, ast.Attribute) and l.func.attr == "get" and isinstance(l.func.value, ast.Name) and l.func.value.id in label_names and len(l.args) == 1 and parent_of(l.args[0], n):
            return "parent-unlabelled"
        if isinstance(op, ast.Eq):
            for a, b in ((l, r), (r, l)):
                if const_str(b) == "" and (parent_of(a, n) or _separator_of(a, n)):
                    return "no-parent"
        return "other"
    # truthiness
    if parent_of(e, n) or _separator_of(e, n):
        return "has-parent"  # '' for a name without a '.'
    from .c17_labels import _parents_call

    if _parents_call(e, n):
        return "has-parent"  # the list of parent modules is empty for a top-level module
    if isinstance(e, ast.Call) and isinstance(e.func, ast.Attribute) and e.func.attr == "count" and _is_name(e.func.value, n) and len(e.args) == 1 and const_str(e.args[0]) == ".":
        return "has-parent"
    if isinstance(e, ast.Call) and isinstance(e.func, ast.Attribute) and e.func.attr == "get" and isinstance(e.func.value, ast.Name) and e.func.value.id in label_names:
        return "label-truthy"
    if isinstance(e, ast.Subscript) and isinstance(e.value, ast.Name) and e.value.id in label_names:
        return "label-truthy"
    return "other"


def _separator_of(e: ast.AST, n: str) -> bool:
    """n.rpartition('.')[1]: the separator, '' for a name without one"""
    return (
        isinstance(e, ast.Subscript) and isinstance(e.slice, ast.Constant) and e.slice.value == 1 and isinstance(e.value, ast.Call) and isinstance(e.value.func, ast.Attribute)
        and e.value.func.attr == "rpartition" and _is_name(e.value.func.value, n) and len(e.value.args) == 1 and const_str(e.value.args[0]) == "."
    )


# =========================================================================== the rule


def rule_inductive(C, inductive: list, events: list, label_names: set[str]) -> None:
    """R1 (shape), R2 (which label wins) for stores whose value is derived from the label of another module."""
    from .c17_labels import ev_guard, parse_label

    M: Model = C.M
    r1, r2 = "C17.R1", "C17.R2"
    what_s, what_o, what_f = "label shape (from the parent's label)", "ancestors labelled first", "own alias first"
    for ev in inductive:
        if ev.n is None or ev.nloop is None:
            C.unsure(r2, what_o, f"`{norm(ev.node, 70)}` derives a label from another label, but the labelled module is not the variable of a loop over the nodes", ev.node)
            return
    ev0 = inductive[0]
    n, L = ev0.n, ev0.nloop
    parsed = []
    for ev in inductive:
        got = parse_inductive(C, M.resolve(ev.value), ev.n, label_names)
        if got[0] == "bad":
            C.bad(r1, what_s, got[1], ev.node)
            return
        if got[0] == "odd":
            C.unsure(r1, what_s, got[1], ev.node)
            return
        parsed.append((ev, got[1], got[2]))
    if any(ev.nloop is not L for ev in inductive) or len({src[0] for _e, src, _d in parsed}) != 1:
        C.unsure(r2, what_o, "labels are derived from other labels in several passes / in several ways: not read", ev0.node)
        return
    C.ok(r1, what_s, "label = " + "; ".join(dict.fromkeys(d for _e, _s, d in parsed)), ev0.node)
    flavour = parsed[0][1][0]
    # ---- which store wins for which module: small-model check over (has an alias itself, has a parent)
    group = [e for e in events if e.nloop is L and e.value is not None]
    kinds: dict[int, str] = {}
    for e in group:
        if e in inductive:
            kinds[id(e)] = "inductive"
        elif e.kind == "default":
            kinds[id(e)] = "default"
        elif e.kind == "aliased":
            got = parse_label(M, M.resolve(e.value), e.n) if e.n is not None else None
            kinds[id(e)] = "self" if got is not None and got[0] not in ("bad", "bare") and isinstance(got[0], ast.expr) and _is_name(got[0], e.n) else "other"
        else:
            kinds[id(e)] = "other"
    if any(k == "other" for k in kinds.values()):
        other = next(e for e in group if kinds[id(e)] == "other")
        C.unsure(r2, what_f, f"next to the label derived from the parent's label, `{norm(other.node, 70)}` stores a label that is not read", other.node)
        return
    if flavour == "recursion":
        f = parsed[0][1][1]
        foreign = [e for e in group if getattr((getattr(e.value, "_src", None) or (None,))[0], "fq", None) != f.fq]
        if foreign:
            C.unsure(r2, what_f, f"`{parsed[0][1][2]}` calls {f.name}() again for the parent, but `{norm(foreign[0].node, 60)}` is not part of that function: what it returns for the parent is not the parent's whole label", foreign[0].node)
            return
    order_of = {id(x): i for i, x in enumerate(_walk_own(M.fn.body))}
    group.sort(key=lambda e: order_of.get(id(e.store or e.node), 0))
    guards = {id(e): ev_guard(M, e, L) for e in group}
    atom_kind: dict[str, str] = {}
    for g in guards.values():
        for a in atoms_of(g):
            atom_kind[a] = classify(M, a, n, label_names)
    truthy = [a for a, k in atom_kind.items() if k == "label-truthy"]
    if truthy:
        C.bad(r1, "ancestor test", f"whether the parent's label is extended depends on the label text being non-empty (`{truthy[0]}`): below a module with an empty alias the modules keep their full names", ev0.node)
        return
    unknown = [a for a, k in atom_kind.items() if k == "other"]
    if unknown:
        C.unsure(r2, what_f, f"which label a module gets depends on `{unknown[0][:80]}`: not recognised as 'has an alias itself' / 'has a parent' / 'the parent has a label'", ev0.node)
        return
    uses_labelled = any(k in ("parent-labelled", "parent-unlabelled") for k in atom_kind.values())
    memo = [a for a, k in atom_kind.items() if k == "memo"]
    if memo and any(e.nloop is not L for e in events):
        stray = next(e for e in events if e.nloop is not L)
        C.unsure(r2, what_f, f"`{memo[0][:60]}` skips modules that have a label already, and `{norm(stray.node, 60)}` stores labels outside the pass that computes them: not read", stray.node)
        return
    if memo and flavour != "recursion":
        C.unsure(r2, what_f, f"which label a module gets depends on `{memo[0][:80]}` (the module has a label already) in a pass that reads the labels back: not read", ev0.node)
        return
    problems = []
    for own, has_parent in itertools.product([True, False], repeat=2):
        # in an ancestors-first pass over a parent-closed node set the parent has a label exactly when there is a parent
        # (memoised recursion: a label that is in the mapping already was put there by this very function, for a descendant's sake)
        val = {"self-aliased": own, "has-parent": has_parent, "no-parent": not has_parent, "parent-labelled": has_parent, "parent-unlabelled": not has_parent, "memo": False}
        env = {a: val[k] for a, k in atom_kind.items()}
        active = [e for e in group if evaluate(guards[id(e)], env)]
        if not active:
            continue  # no store on this path: C17.R3's business
        won = kinds[id(active[-1])]
        want = "self" if own else ("inductive" if has_parent else "default")
        if won != want:
            problems.append((own, has_parent, won, active[-1]))
    for own, has_parent, won, e in problems:
        if own:
            C.bad(r2, what_f, f"a module that has an alias itself is labelled by `{norm(e.node, 70)}` ({'the label derived from its parent' if won == 'inductive' else 'its full name'}): its own alias - the most specific one - does not win", e.node)
            return
    for own, has_parent, won, e in problems:
        if has_parent and won == "default":
            C.bad(r2, what_f, f"a module without an alias of its own that has a parent keeps its full name (`{norm(e.node, 70)}`): the alias of its nearest aliased ancestor is not applied", e.node)
            return
        if not has_parent and won == "inductive":
            C.bad("C17.R3", "default label", f"a top-level module without an alias is labelled by `{norm(e.node, 70)}`, which extends the label of a parent that does not exist", e.node)
            return
    C.ok(r2, what_f, "a module's own alias wins; every other module that has a parent extends its parent's label; top-level modules keep their names", ev0.node)
    # ---- are the labels of the ancestors final when they are used?
    if flavour == "recursion":
        C.ok(r2, what_o, f"the parent's label is computed on demand (`{parsed[0][1][2]}`): the order in which the modules are visited does not matter", ev0.node)
        return
    it = L.iter
    order = node_order(M, it if isinstance(it, ast.Name) else M.resolve(it), L)
    if order is None and isinstance(it, ast.Name) and not M.in_place_sorts(it.id):
        order = node_order(M, M.resolve(it), L)
    shown = norm(M.resolve(it), 60) if not (isinstance(it, ast.Name) and M.in_place_sorts(it.id)) else f"{it.id} (sorted in place)"
    read = parsed[0][1][2]
    if order == "ancestors-first":
        C.ok(r2, what_o, f"`{read}` is read in a pass over `{shown}`: sorted names put every ancestor before its descendants (a proper dotted prefix is a proper string prefix / is shorter), so the parent's label is final when it is used" + (" - given that the node set is closed under parents, as NetworkxGraph builds it" if uses_labelled else ""), L)
    elif order in ("insertion", "arbitrary", "descendants-first") and M.loops_around(L, whiles=True):
        C.unsure(r2, what_o, f"`{read}` is read back from the label mapping in a pass over `{shown}` that is itself repeated by an enclosing loop: whether the repetition makes the labels final is not read", L)
    elif order in ("insertion", "arbitrary", "descendants-first"):
        why = {
            "insertion": "the insertion order of the graph's nodes, which does not put a module's ancestors before it (NetworkxGraph adds the node of a listed module before the nodes of its parents)",
            "arbitrary": "set order, which does not put a module's ancestors before it",
            "descendants-first": "an order that puts descendants before their ancestors",
        }[order]
        C.bad(r2, what_o, f"the label of a module is derived from the label of its parent read back from the label mapping (`{read}`) in a single pass over `{shown}` - {why}: a module that is visited before its aliased ancestor finds no (final) label for its parent and keeps its unaliased name, and so does everything below it", L)
    else:
        C.unsure(r2, what_o, f"`{read}` is read back from the label mapping in a pass over `{shown}`: whether that order puts every ancestor before its descendants is not recognised", L)
